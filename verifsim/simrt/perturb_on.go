//go:build !verifsim && verifperturb

package simrt

import (
	"runtime"
	_ "unsafe"
)

//go:linkname cheaprand runtime.cheaprand
func cheaprand() uint32

// perturb: per-thread random, invisible to the race detector (no shared
// memory, no atomics, no locks).
func perturb() {
	r := cheaprand()
	if r&7 == 0 {
		runtime.Gosched()
	}
}
