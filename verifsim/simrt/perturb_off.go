//go:build !verifsim && !verifperturb

package simrt

func perturb() {}
