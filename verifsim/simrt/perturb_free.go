//go:build verifsim && !verifrace

package simrt

import (
	"runtime"
	"sync/atomic"
	"time"
)

var freeCtr atomic.Uint64

// perturbFree: engine F scheduling perturbation (seeded by a shared counter).
func perturbFree() {
	x := splitmix(freeCtr.Add(1))
	switch x & 15 {
	case 0, 1:
		runtime.Gosched()
	case 2:
		time.Sleep(time.Nanosecond)
	}
}
