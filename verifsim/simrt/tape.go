package simrt

// The tape: every choice a run makes, organised in named streams. In
// generation mode a stream is a splitmix64/xoshiro-style PRNG seeded from
// (seed, stream name) and every draw is recorded; in replay mode draws come
// from the recorded list and are 0 past its end (0 is by construction the
// simplest alternative everywhere).

import (
	"encoding/json"
	"sync"
)

const (
	SShape = "shape"
	SProg  = "prog"
	SNet   = "net"
	SSched = "sched"
	SMisc  = "misc"
)

type stream struct {
	state  uint64
	rec    []uint32
	replay bool
	pos    int
}

type Tape struct {
	mu      sync.Mutex
	Seed    uint64
	streams map[string]*stream
	replay  bool
	// regen lists streams that are regenerated from the seed even in
	// replay mode (used by the shrinker: "sched regenerated").
	regen map[string]bool
}

func splitmix(x uint64) uint64 {
	x += 0x9e3779b97f4a7c15
	z := x
	z = (z ^ (z >> 30)) * 0xbf58476d1ce4e5b9
	z = (z ^ (z >> 27)) * 0x94d049bb133111eb
	return z ^ (z >> 31)
}

func hashStr(s string) uint64 {
	h := uint64(1469598103934665603)
	for i := 0; i < len(s); i++ {
		h ^= uint64(s[i])
		h *= 1099511628211
	}
	return h
}

func NewTape(seed uint64) *Tape {
	return &Tape{Seed: seed, streams: map[string]*stream{}}
}

// TapeFile is the serialised form.
type TapeFile struct {
	Seed    uint64              `json:"seed"`
	Streams map[string][]uint32 `json:"streams"`
	Regen   []string            `json:"regen,omitempty"`
}

func NewReplayTape(f TapeFile) *Tape {
	t := &Tape{Seed: f.Seed, streams: map[string]*stream{}, replay: true, regen: map[string]bool{}}
	for _, r := range f.Regen {
		t.regen[r] = true
	}
	for name, rec := range f.Streams {
		if t.regen[name] {
			continue
		}
		t.streams[name] = &stream{rec: append([]uint32(nil), rec...), replay: true}
	}
	return t
}

func (t *Tape) get(name string) *stream {
	s := t.streams[name]
	if s == nil {
		if t.replay && !t.regen[name] {
			s = &stream{replay: true}
		} else {
			s = &stream{state: splitmix(t.Seed ^ hashStr(name))}
		}
		t.streams[name] = s
	}
	return s
}

// Choose returns a value in [0,n). n<=1 returns 0 and still consumes one
// tape cell (so that shrinking never shifts meaning).
func (t *Tape) Choose(name string, n int) int {
	t.mu.Lock()
	defer t.mu.Unlock()
	s := t.get(name)
	if s.replay {
		var v uint32
		if s.pos < len(s.rec) {
			v = s.rec[s.pos]
		}
		s.pos++
		if n <= 1 {
			return 0
		}
		return int(v % uint32(n))
	}
	s.state = splitmix(s.state)
	var v uint32
	if n > 1 {
		v = uint32((s.state >> 11) % uint64(n))
	}
	s.rec = append(s.rec, v)
	return int(v)
}

// Snapshot returns what was consumed so far (generation mode: the recorded
// draws; replay mode: the replayed prefix actually used, zero-extended).
func (t *Tape) Snapshot() TapeFile {
	t.mu.Lock()
	defer t.mu.Unlock()
	f := TapeFile{Seed: t.Seed, Streams: map[string][]uint32{}}
	for name, s := range t.streams {
		if s.replay {
			n := s.pos
			out := make([]uint32, n)
			copy(out, s.rec)
			f.Streams[name] = out
		} else {
			f.Streams[name] = append([]uint32(nil), s.rec...)
		}
	}
	return f
}

func (f TapeFile) JSON() string {
	b, _ := json.Marshal(f)
	return string(b)
}
