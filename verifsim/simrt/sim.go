//go:build verifsim

// Package simrt is the deterministic-simulation runtime: a baton scheduler
// that runs inside one testing/synctest bubble. Every goroutine of the
// library under test (started through Go / AfterFunc, which the instrumenter
// substitutes for `go` and time.AfterFunc) and of the harness is a task with
// a stable hierarchical id; at most one task runs between two Yield points
// and the tape decides which.
package simrt

import (
	"fmt"
	"hash/fnv"
	"runtime"
	"sort"
	"strings"
	"sync"
	"sync/atomic"
	"testing/synctest"
	"time"
)

type Mode int32

const (
	Off       Mode = iota // shims pass straight through
	BatonMode             // engine B
	FreeMode              // engine F: bubble + fake clock, goroutines free-running
)

var mode atomic.Int32

func CurMode() Mode { return Mode(mode.Load()) }
func Baton() bool   { return Mode(mode.Load()) == BatonMode }

type tstate int

const (
	sRunning tstate = iota // holds the baton, or is natively blocked
	sRunnable
	sMutex
	sCond
	sOnce
	sEvent
	sSettle
	sDead
)

func (s tstate) String() string {
	return [...]string{"running/native", "runnable", "blocked-mutex", "blocked-cond", "blocked-once", "blocked-event", "settle-wait", "dead"}[s]
}

// Held describes one sim mutex held by a task.
type Held struct {
	M  *MutexState
	PC uintptr
}

type Task struct {
	W       *World
	ID      string
	Site    string
	wake    chan struct{}
	state   tstate
	spawn   int
	adopted int
	tspawn  int
	gid     uint64
	held    []Held
	// what the task is blocked on (diagnostics)
	blockedOn  *MutexState
	blockedAt  int64 // step
	parkPC     uintptr
	signalled  bool
	timedOut   bool
	API        string // label of the harness-level API call in progress
	APIDone    bool
	Harness    bool // task started by the harness (not by library code)
	bornStep   int64
	everParked bool
	isAdopted  bool // a goroutine the instrumenter did not see (no exit hook)
}

// MutexState is the simulator-side state of one ssync.Mutex.
type MutexState struct {
	Owner   *Task
	OwnerPC uintptr
	Since   int64
	waiters []*Task
	Name    string
}

type Violation struct {
	Key  string `json:"key"`
	Msg  string `json:"msg"`
	Step int64  `json:"step"`
	Now  int64  `json:"sim_ns"`
}

type World struct {
	mu         sync.Mutex
	tasks      []*Task
	live       int
	step       int64
	tape       *Tape
	parkNotify chan struct{}
	dead       atomic.Bool
	start      time.Time
	Horizon    time.Duration
	MaxSteps   int64
	cur        *Task
	thresh     int // scheduling: draws < thresh keep the current task
	// priority policy (PCT-style): every task has a fixed pseudo-random
	// priority derived from (prioSeed, task id); the highest-priority runnable
	// task always runs; at a few tape-chosen steps the running task drops
	// below everybody else. Finds orderings that need one task to be starved
	// for a long stretch, which the coin-flip policies reach only rarely.
	libBirths   int64
	lastLibSite string
	pct         bool
	prioSeed    uint64
	changeAt    []int64
	demoted     map[*Task]int64
	demoteN     int64
	logHash     uint64
	LogLines    []string // optional detailed log (replay diagnosis)
	KeepLog     bool
	violations  []Violation
	stopReq     bool
	mainDone    bool
	anon        int
	HorizonHit  bool
	StepCapHit  bool
	Probes      map[string]int
	Faults      map[string]int
	schedN      int64
	preempts    int64
	multiReady  int64
	pcCache     map[uintptr]string
	seamPC      map[uintptr]bool
	timers      []*time.Timer
	// CondNewest: buggify — Signal wakes the newest waiter.
	CondNewest bool
	// Starve: task id prefix only picked when nothing else can run.
	Starve string
	pools  []poolResetter
	endNS  int64
	ended  bool
}

type poolResetter interface{ SimReset() }

var (
	gmap     sync.Map // goid -> *Task
	curWorld atomic.Pointer[World]
)

func NewWorld(tape *Tape, horizon time.Duration) *World {
	w := &World{
		tape:     tape,
		Horizon:  horizon,
		MaxSteps: 400000,
		Probes:   map[string]int{},
		Faults:   map[string]int{},
		pcCache:  map[uintptr]string{},
		seamPC:   map[uintptr]bool{},
		logHash:  1469598103934665603,
	}
	return w
}

func (w *World) Tape() *Tape { return w.tape }

// Cur returns the calling goroutine's task (nil if it is not a task).
func Cur() *Task {
	if v, ok := gmap.Load(runtime.SimGoID()); ok {
		return v.(*Task)
	}
	return nil
}

// curOrAdopt returns the calling goroutine's task; a goroutine the
// instrumenter did not see (started by net/http, gorilla, crypto/tls inside
// the bubble) becomes a task at its first simulator operation. Its id derives
// from the task that started it where that is known.
func curOrAdopt() *Task {
	if t := Cur(); t != nil {
		return t
	}
	if !Baton() {
		return nil
	}
	w := curWorld.Load()
	if w == nil || w.dead.Load() {
		return nil
	}
	var id string
	w.mu.Lock()
	if v, ok := gmap.Load(runtime.SimParentGoID()); ok {
		p := v.(*Task)
		id = fmt.Sprintf("%s/a%d", p.ID, p.adopted)
		p.adopted++
	} else {
		id = fmt.Sprintf("anon-%d", w.anon)
	}
	w.anon++
	w.mu.Unlock()
	t := w.newTask(id, "?", false)
	t.isAdopted = true
	t.bind()
	return t
}

func (w *World) newTask(id, site string, harness bool) *Task {
	t := &Task{W: w, ID: id, Site: site, wake: make(chan struct{}), state: sRunning, Harness: harness}
	w.mu.Lock()
	t.bornStep = w.step
	w.tasks = append(w.tasks, t)
	w.live++
	if !harness {
		w.libBirths++
		w.lastLibSite = site
	}
	w.mu.Unlock()
	return t
}

// LibBirths reports how many library tasks (goroutines started and timers
// fired in library code) have come into being so far, and the site of the
// latest one: a quiet-period check compares it before and after.
func (w *World) LibBirths() (int64, string) {
	w.mu.Lock()
	defer w.mu.Unlock()
	return w.libBirths, w.lastLibSite
}

func (t *Task) bind() {
	t.gid = runtime.SimGoID()
	gmap.Store(t.gid, t)
}

func (w *World) notify() {
	if w.parkNotify == nil {
		return
	}
	select {
	case w.parkNotify <- struct{}{}:
	default:
	}
}

// park blocks the calling task in state st until the controller releases it.
func (t *Task) park(st tstate) {
	w := t.W
	if w.dead.Load() {
		runtime.Goexit()
	}
	var pcs [6]uintptr
	n := runtime.Callers(3, pcs[:])
	w.mu.Lock()
	t.state = st
	t.parkPC = w.pickPC(pcs[:n])
	t.everParked = true
	if st != sRunnable {
		t.blockedAt = w.step
	}
	w.mu.Unlock()
	w.notify()
	<-t.wake
	if w.dead.Load() {
		runtime.Goexit()
	}
}

func (t *Task) exit() {
	w := t.W
	if r := recover(); r != nil {
		buf := make([]byte, 8192)
		buf = buf[:runtime.Stack(buf, false)]
		key := "PANIC/" + panicKey(r, string(buf))
		if strings.HasPrefix(key, "PANIC/!harness:") {
			key = "HARNESS/panic" // no library frame on the stack: the harness' own bug
		}
		w.Fail(key, fmt.Sprintf("panic in task %s (%s): %v\n%s", t.ID, t.Site, r, buf))
	}
	gmap.Delete(t.gid)
	w.mu.Lock()
	if len(t.held) > 0 && !w.dead.Load() {
		h := t.held[0]
		w.failLocked("LOCK/held-at-exit:"+w.siteOf(h.OwnerPCorPC()), fmt.Sprintf("task %s (%s) exited holding mutex taken at %s", t.ID, t.Site, w.siteOf(h.PC)))
	}
	t.state = sDead
	w.live--
	w.mu.Unlock()
	w.notify()
}

func (h Held) OwnerPCorPC() uintptr { return h.PC }

func panicKey(r interface{}, stack string) string {
	// first library frame below the panic
	lines := strings.Split(stack, "\n")
	for _, l := range lines {
		l = strings.TrimSpace(l)
		if strings.HasPrefix(l, "go.nanomsg.org/mangos/v3") && !strings.Contains(l, "verifsim") {
			if i := strings.Index(l, "("); i > 0 {
				// keep function name incl. receiver
				j := strings.LastIndex(l, "(")
				return l[len("go.nanomsg.org/mangos/v3"):j]
			}
			return l
		}
	}
	return "!harness:" + fmt.Sprint(r)
}

// Go starts f as a new task (child of the calling task).
func Go(site string, f func()) {
	m := CurMode()
	if m == Off && curWorld.Load() == nil {
		go f()
		return
	}
	if m == FreeMode || m == Off {
		w := curWorld.Load()
		go func() {
			defer func() {
				if r := recover(); r != nil && w != nil {
					buf := make([]byte, 8192)
					buf = buf[:runtime.Stack(buf, false)]
					w.Fail("PANIC/"+panicKey(r, string(buf)), fmt.Sprintf("panic in goroutine (%s): %v\n%s", site, r, buf))
				}
			}()
			if m == FreeMode {
				perturbFree()
			}
			f()
		}()
		return
	}
	p := Cur()
	var w *World
	var id string
	harness := false
	if p == nil {
		w = curWorld.Load()
		if w == nil {
			go f()
			return
		}
		w.mu.Lock()
		id = fmt.Sprintf("anon-%d", w.anon)
		w.anon++
		w.mu.Unlock()
	} else {
		w = p.W
		id = fmt.Sprintf("%s/%d", p.ID, p.spawn)
		p.spawn++
		harness = strings.HasPrefix(site, "H:")
	}
	if w.dead.Load() {
		return
	}
	t := w.newTask(id, site, harness)
	go func() {
		t.bind()
		defer t.exit()
		t.park(sRunnable)
		f()
	}()
}

// AfterFunc is time.AfterFunc whose callback runs as a task; its id is fixed
// when the timer is armed.
func AfterFunc(site string, d time.Duration, f func()) *time.Timer {
	m := CurMode()
	if m == Off && curWorld.Load() == nil {
		return time.AfterFunc(d, f)
	}
	if m == FreeMode || m == Off {
		w := curWorld.Load()
		return time.AfterFunc(d, func() {
			defer func() {
				if r := recover(); r != nil && w != nil {
					buf := make([]byte, 8192)
					buf = buf[:runtime.Stack(buf, false)]
					w.Fail("PANIC/"+panicKey(r, string(buf)), fmt.Sprintf("panic in timer (%s): %v\n%s", site, r, buf))
				}
			}()
			if w != nil && w.dead.Load() {
				return
			}
			f()
		})
	}
	p := Cur()
	if p == nil {
		return time.AfterFunc(d, f)
	}
	w := p.W
	id := fmt.Sprintf("%s/t%d", p.ID, p.tspawn)
	p.tspawn++
	harness := strings.HasPrefix(site, "H:")
	return time.AfterFunc(d, func() {
		if w.dead.Load() {
			return
		}
		t := w.newTask(id, site, harness)
		t.bind()
		defer t.exit()
		t.park(sRunnable)
		f()
	})
}

func Sleep(d time.Duration) {
	time.Sleep(d)
	Yield()
}

// Yield gives the baton back to the controller.
func Yield() {
	switch CurMode() {
	case Off:
		return
	case FreeMode:
		perturbFree()
		return
	}
	t := curOrAdopt() // (an adopted goroutine is never unregistered; counted in evidence)
	if t == nil {
		return
	}
	t.park(sRunnable)
}

// ---------------------------------------------------------------- controller

// Fail records a violation (first one wins for the class key) and stops the run.
func (w *World) Fail(key, msg string) {
	w.mu.Lock()
	w.failLocked(key, msg)
	w.mu.Unlock()
}

func (w *World) failLocked(key, msg string) {
	var now int64
	if !w.start.IsZero() {
		now = int64(time.Since(w.start))
	}
	w.violations = append(w.violations, Violation{Key: key, Msg: msg, Step: w.step, Now: now})
	w.stopReq = true
}

func (w *World) Violations() []Violation {
	w.mu.Lock()
	defer w.mu.Unlock()
	return append([]Violation(nil), w.violations...)
}

func (w *World) Failed() bool {
	w.mu.Lock()
	defer w.mu.Unlock()
	return len(w.violations) > 0
}

func (w *World) Probe(name string) {
	w.mu.Lock()
	w.Probes[name]++
	w.mu.Unlock()
}

func (w *World) Fault(kind string) {
	w.mu.Lock()
	w.Faults[kind]++
	w.mu.Unlock()
}

func (w *World) Step() int64 {
	w.mu.Lock()
	defer w.mu.Unlock()
	return w.step
}

func (w *World) Now() time.Duration { return time.Since(w.start) }

func (w *World) Dead() bool { return w.dead.Load() }

// pickPC returns the first pc that is not inside the seam packages.
func (w *World) pickPC(pcs []uintptr) uintptr {
	for _, pc := range pcs {
		seam, ok := w.seamPC[pc]
		if !ok {
			fr, _ := runtime.CallersFrames([]uintptr{pc}).Next()
			seam = strings.Contains(fr.File, "/verifsim/") || strings.HasPrefix(fr.Function, "runtime.")
			w.seamPC[pc] = seam
		}
		if !seam {
			return pc
		}
	}
	if len(pcs) > 0 {
		return pcs[0]
	}
	return 0
}

func (w *World) siteOf(pc uintptr) string {
	if pc == 0 {
		return "?"
	}
	if s, ok := w.pcCache[pc]; ok {
		return s
	}
	fr, _ := runtime.CallersFrames([]uintptr{pc}).Next()
	f := fr.File
	if i := strings.Index(f, "/mangos/"); i >= 0 {
		f = f[i+8:]
	} else if i := strings.LastIndex(f, "/"); i >= 0 {
		f = f[i+1:]
	}
	// strip scratch prefix
	if i := strings.Index(f, "repo/"); i >= 0 {
		f = f[i+5:]
	}
	s := fmt.Sprintf("%s:%d", f, fr.Line)
	w.pcCache[pc] = s
	return s
}

func (w *World) SiteOf(pc uintptr) string {
	w.mu.Lock()
	defer w.mu.Unlock()
	return w.siteOf(pc)
}

func (w *World) logStep(t *Task) {
	site := w.siteOf(t.parkPC)
	h := fnv.New64a()
	fmt.Fprintf(h, "%d|%d|%d|%s|%s", w.logHash, w.step, int64(time.Since(w.start)), t.ID, site)
	w.logHash = h.Sum64()
	if w.KeepLog {
		w.LogLines = append(w.LogLines, fmt.Sprintf("%d %d %s %s", w.step, int64(time.Since(w.start)), t.ID, site))
	}
}

func (w *World) LogHash() uint64 { return w.logHash }

// Note adds a harness trace line to the detailed log (no effect on the hash).
func (w *World) Note(s string) {
	if w.KeepLog {
		w.mu.Lock()
		w.LogLines = append(w.LogLines, "# "+s)
		w.mu.Unlock()
	}
}

// Run executes main as the root task "m" under the baton scheduler. It must
// be called from the root goroutine of a synctest bubble.
func (w *World) Run(main func()) {
	w.parkNotify = make(chan struct{}, 1) // must be created inside the bubble
	mode.Store(int32(BatonMode))
	curWorld.Store(w)
	w.start = time.Now()
	// scheduling policy for this run
	switch w.tape.Choose(SShape, 7) {
	case 5, 6:
		w.pct = true
		w.prioSeed = uint64(w.tape.Choose(SShape, 1<<30)) + 1
		w.demoted = map[*Task]int64{}
		for k := w.tape.Choose(SShape, 4); k > 0; k-- {
			w.changeAt = append(w.changeAt, int64(w.tape.Choose(SShape, 3000)))
		}
		w.thresh = 1000
	case 0:
		w.thresh = 1 // uniform among the others as soon as anything else can run
	case 1:
		w.thresh = 500
	case 2:
		w.thresh = 850
	case 3:
		w.thresh = 960
	case 4:
		w.thresh = 995
	}
	root := w.newTask("m", "H:main", true)
	go func() {
		root.bind()
		defer root.exit()
		defer func() {
			w.mu.Lock()
			w.mainDone = true
			w.mu.Unlock()
		}()
		root.park(sRunnable)
		main()
	}()
	end := w.start.Add(w.Horizon)
	for {
		synctest.Wait()
		w.mu.Lock()
		if w.stopReq || w.mainDone {
			w.mu.Unlock()
			break
		}
		if w.step >= w.MaxSteps {
			w.StepCapHit = true
			w.mu.Unlock()
			break
		}
		run := w.runnableLocked()
		if len(run) == 0 {
			// release settle waiters, if any
			released := false
			for _, t := range w.tasks {
				if t.state == sSettle {
					t.state = sRunnable
					released = true
				}
			}
			w.mu.Unlock()
			if released {
				continue
			}
			rem := time.Until(end)
			if rem <= 0 {
				w.HorizonHit = true
				break
			}
			tm := time.NewTimer(rem)
			select {
			case <-w.parkNotify:
			case <-tm.C:
			}
			tm.Stop()
			continue
		}
		// drain stale notification
		select {
		case <-w.parkNotify:
		default:
		}
		idx := 0
		if len(run) > 1 {
			w.multiReady++
		}
		c := 0
		if !w.pct {
			c = w.tape.Choose(SSched, 1000)
		}
		w.schedN++
		if w.pct {
			for _, at := range w.changeAt {
				if at == w.step && w.cur != nil {
					w.demoteN++
					w.demoted[w.cur] = w.demoteN
				}
			}
			best := -1
			var bestP uint64
			for i, t := range run {
				p := w.prio(t)
				if best < 0 || p > bestP {
					best, bestP = i, p
				}
			}
			idx = best
			if len(run) > 1 && (w.cur == nil || run[idx] != w.cur) {
				w.preempts++
			}
		} else if len(run) > 1 {
			curFirst := w.cur != nil && run[0] == w.cur
			if curFirst {
				if c >= w.thresh {
					idx = 1 + (c-w.thresh)%(len(run)-1)
					w.preempts++
				}
			} else {
				// the previous task cannot continue: any choice is a
				// fresh pick; 0 = lowest id.
				idx = c % len(run)
			}
		}
		t := run[idx]
		w.step++
		w.cur = t
		t.state = sRunning
		w.logStep(t)
		w.mu.Unlock()
		t.wake <- struct{}{}
	}
	w.endNS = int64(time.Since(w.start))
	w.ended = true
	w.kill()
}

// prio is the task's scheduling priority under the PCT-style policy: demoted
// tasks rank below all others (the later the demotion, the lower).
func (w *World) prio(t *Task) uint64 {
	if n, ok := w.demoted[t]; ok {
		return uint64(1<<20) - uint64(n)
	}
	h := w.prioSeed
	for i := 0; i < len(t.ID); i++ {
		h ^= uint64(t.ID[i])
		h *= 1099511628211
		h ^= h >> 29
	}
	return h | 1<<40
}

// runnableLocked returns runnable tasks sorted by id, the current task first.
func (w *World) runnableLocked() []*Task {
	var run []*Task
	var starved []*Task
	for _, t := range w.tasks {
		if t.state == sRunnable {
			if w.Starve != "" && strings.HasPrefix(t.ID, w.Starve) {
				starved = append(starved, t)
				continue
			}
			run = append(run, t)
		}
	}
	if len(run) == 0 {
		run = starved
	}
	sort.Slice(run, func(i, j int) bool { return run[i].ID < run[j].ID })
	if w.cur != nil {
		for i, t := range run {
			if t == w.cur {
				copy(run[1:i+1], run[0:i])
				run[0] = t
				break
			}
		}
	}
	// compact the task list now and then
	if len(w.tasks) > 64 && w.live*2 < len(w.tasks) {
		live := w.tasks[:0]
		for _, t := range w.tasks {
			if t.state != sDead {
				live = append(live, t)
			}
		}
		w.tasks = live
	}
	return run
}

// kill ends the world: every parked task exits at once, every task that wakes
// later exits at its next yield.
func (w *World) kill() {
	w.dead.Store(true)
	mode.Store(int32(BatonMode)) // stays; dead flag short-circuits
	w.mu.Lock()
	for _, tm := range w.timers {
		tm.Stop()
	}
	var parked []*Task
	for _, t := range w.tasks {
		if t.state != sDead && t.state != sRunning && t.everParked {
			parked = append(parked, t)
		}
	}
	w.mu.Unlock()
	for _, t := range parked {
		select {
		case t.wake <- struct{}{}:
		default:
			// not (yet) receiving: it will see dead at its next yield
		}
	}
	curWorld.CompareAndSwap(w, nil)
}

// ------------------------------------------------------------ harness calls

// Settle parks the calling task until no task is runnable at the current
// simulated instant.
func (w *World) Settle() {
	if CurMode() == FreeMode {
		synctest.Wait()
		return
	}
	t := Cur()
	if t == nil {
		panic("Settle from non-task")
	}
	t.park(sSettle)
}

// SleepFor advances simulated time for the calling task.
func (w *World) SleepFor(d time.Duration) {
	if d > 0 {
		time.Sleep(d)
	}
	Yield()
}

// Stats for evidence.
type Stats struct {
	Steps      int64
	SimNS      int64
	Tasks      int
	Preempts   int64
	MultiReady int64
	Anon       int
}

func (w *World) Stats() Stats {
	w.mu.Lock()
	defer w.mu.Unlock()
	ns := w.endNS
	if !w.ended && !w.start.IsZero() {
		ns = int64(time.Since(w.start))
	}
	return Stats{Steps: w.step, SimNS: ns, Tasks: len(w.tasks), Preempts: w.preempts, MultiReady: w.multiReady, Anon: w.anon}
}

// TaskInfo is a diagnostic snapshot of one task.
type TaskInfo struct {
	ID, Site, State, ParkSite, API string
	Harness                        bool
	BlockedSince                   int64
	Held                           []string
	BlockedOnOwner                 string
	BlockedOnOwnerSite             string
	OwnerAPIDone                   bool
	OwnerDead                      bool
	Adopted                        bool   // goroutine of net/http, gorilla, ... adopted at its first simulator operation
	Stack                          string // its stack, for adopted tasks
}

// Tasks returns a snapshot of all live tasks. Only meaningful at a settle or
// after the run (when no task is running).
func (w *World) Tasks() []TaskInfo {
	stacks := w.reapAdopted()
	w.mu.Lock()
	defer w.mu.Unlock()
	var out []TaskInfo
	for _, t := range w.tasks {
		if t.state == sDead {
			continue
		}
		ti := TaskInfo{Adopted: t.isAdopted, Stack: stacks[t.gid], ID: t.ID, Site: t.Site, State: t.state.String(), ParkSite: w.siteOf(t.parkPC), API: t.API, Harness: t.Harness, BlockedSince: t.blockedAt}
		for _, h := range t.held {
			ti.Held = append(ti.Held, w.siteOf(h.PC))
		}
		if t.state == sMutex && t.blockedOn != nil {
			if o := t.blockedOn.Owner; o != nil {
				ti.BlockedOnOwner = o.ID
				ti.BlockedOnOwnerSite = w.siteOf(t.blockedOn.OwnerPC)
				ti.OwnerAPIDone = o.APIDone
				ti.OwnerDead = o.state == sDead
			}
		}
		out = append(out, ti)
	}
	sort.Slice(out, func(i, j int) bool { return out[i].ID < out[j].ID })
	return out
}

// reapAdopted: an adopted goroutine has no exit hook; whether it still exists
// is read off a dump of all goroutines. Those that are gone become dead tasks;
// the stacks of those that remain are returned by goroutine id.
func (w *World) reapAdopted() map[uint64]string {
	w.mu.Lock()
	any := false
	for _, t := range w.tasks {
		if t.isAdopted && t.state != sDead {
			any = true
			break
		}
	}
	w.mu.Unlock()
	if !any {
		return nil
	}
	buf := make([]byte, 1<<20)
	for {
		n := runtime.Stack(buf, true)
		if n < len(buf) {
			buf = buf[:n]
			break
		}
		buf = make([]byte, 2*len(buf))
	}
	stacks := map[uint64]string{}
	for _, blk := range strings.Split(string(buf), "\n\n") {
		var id uint64
		if _, err := fmt.Sscanf(blk, "goroutine %d ", &id); err == nil {
			stacks[id] = blk
		}
	}
	w.mu.Lock()
	for _, t := range w.tasks {
		if t.isAdopted && t.state != sDead {
			if _, alive := stacks[t.gid]; !alive {
				gmap.Delete(t.gid)
				t.state = sDead
				w.live--
			}
		}
	}
	w.mu.Unlock()
	return stacks
}

// HeldBy returns the acquisition sites of sim mutexes held by the calling task.
func (w *World) HeldByCur() []string {
	t := Cur()
	if t == nil {
		return nil
	}
	w.mu.Lock()
	defer w.mu.Unlock()
	var out []string
	for _, h := range t.held {
		out = append(out, w.siteOf(h.PC))
	}
	return out
}

// --------------------------------------------------------------- sim mutex

// MutexLock implements ssync.Mutex.Lock in baton mode. try is the TryLock of
// the embedded real mutex.
func MutexLock(ms *MutexState, mu *sync.Mutex) {
	try := mu.TryLock
	t := curOrAdopt()
	if t == nil {
		// no simulated world: spin politely
		for !try() {
			runtime.Gosched()
		}
		return
	}
	w := t.W
	if w.dead.Load() {
		runtime.Goexit()
	}
	t.park(sRunnable) // yield before acquiring
	var pcs [1]uintptr
	{
		var raw [6]uintptr
		n := runtime.Callers(3, raw[:])
		w.mu.Lock()
		pcs[0] = w.pickPC(raw[:n])
		w.mu.Unlock()
	}
	for {
		if try() {
			w.mu.Lock()
			ms.Owner = t
			ms.OwnerPC = pcs[0]
			ms.Since = w.step
			t.held = append(t.held, Held{ms, pcs[0]})
			t.blockedOn = nil
			w.mu.Unlock()
			return
		}
		w.mu.Lock()
		if ms.Owner == t {
			// self-deadlock: report now, the task can never proceed.
			w.failLocked("LOCK/self-deadlock:"+w.siteOf(pcs[0]), fmt.Sprintf("task %s locks a mutex it already holds (taken at %s) at %s", t.ID, w.siteOf(ms.OwnerPC), w.siteOf(pcs[0])))
		}
		ms.waiters = append(ms.waiters, t)
		t.blockedOn = ms
		w.mu.Unlock()
		t.park(sMutex)
	}
}

// MutexTryLocked records a successful TryLock.
func MutexTryLocked(ms *MutexState) {
	t := curOrAdopt()
	if t == nil {
		return
	}
	var pcs [1]uintptr
	var raw [6]uintptr
	n := runtime.Callers(3, raw[:])
	w := t.W
	w.mu.Lock()
	pcs[0] = w.pickPC(raw[:n])
	ms.Owner = t
	ms.OwnerPC = pcs[0]
	ms.Since = w.step
	t.held = append(t.held, Held{ms, pcs[0]})
	w.mu.Unlock()
}

// MutexUnlock implements ssync.Mutex.Unlock in baton mode. It returns false
// if the mutex was not locked (the caller must then not unlock the real one).
func MutexUnlock(ms *MutexState, mu *sync.Mutex) { mutexUnlock(ms, mu, true) }

// MutexUnlockQuiet is MutexUnlock without the yield after releasing: for
// simulator-side objects (the simulated network's deadline setters) that code
// outside the instrumented world calls with a lock of its own held (net/http
// sets a read deadline under a sync.Mutex; parking there would leave that
// mutex held with nobody able to see who waits for it).
func MutexUnlockQuiet(ms *MutexState, mu *sync.Mutex) { mutexUnlock(ms, mu, false) }

func mutexUnlock(ms *MutexState, mu *sync.Mutex, yield bool) {
	unlock := mu.Unlock
	t := Cur()
	var w *World
	if t != nil {
		w = t.W
	} else {
		w = curWorld.Load()
	}
	if w == nil {
		unlock()
		return
	}
	if w.dead.Load() {
		mu.TryLock()
		mu.Unlock()
		return
	}
	w.mu.Lock()
	o := ms.Owner
	if o == nil {
		var pcs [1]uintptr
		var raw [6]uintptr
		n := runtime.Callers(3, raw[:])
		pcs[0] = w.pickPC(raw[:n])
		w.failLocked("LOCK/unlock-of-unlocked:"+w.siteOf(pcs[0]), "sync: unlock of unlocked mutex at "+w.siteOf(pcs[0]))
		w.mu.Unlock()
		if t != nil {
			t.park(sRunnable)
		}
		return
	}
	for i := len(o.held) - 1; i >= 0; i-- {
		if o.held[i].M == ms {
			o.held = append(o.held[:i], o.held[i+1:]...)
			break
		}
	}
	ms.Owner = nil
	unlock()
	for _, wt := range ms.waiters {
		if wt.state == sMutex {
			wt.state = sRunnable
		}
	}
	ms.waiters = ms.waiters[:0]
	w.mu.Unlock()
	if t != nil && yield {
		t.park(sRunnable) // yield after releasing
	}
}

// ------------------------------------------------------------------ cond

type CondState struct {
	waiters []*Task
}

// CondWait: enqueue, unlock (via the caller-supplied functions), park, relock.
func CondWait(cs *CondState, unlock func(), lock func()) {
	t := curOrAdopt()
	if t == nil {
		panic("simrt: Cond.Wait from non-task")
	}
	w := t.W
	if w.dead.Load() {
		runtime.Goexit()
	}
	w.mu.Lock()
	t.signalled = false
	cs.waiters = append(cs.waiters, t)
	w.mu.Unlock()
	unlock() // yields after releasing; a Signal may arrive meanwhile
	w.mu.Lock()
	sig := t.signalled
	w.mu.Unlock()
	if !sig {
		t.park(sCond)
	}
	lock()
}

func condWake(w *World, t *Task) {
	t.signalled = true
	if t.state == sCond {
		t.state = sRunnable
	}
}

func CondSignal(cs *CondState) {
	t := Cur()
	var w *World
	if t != nil {
		w = t.W
	} else {
		w = curWorld.Load()
	}
	if w == nil || w.dead.Load() {
		return
	}
	w.mu.Lock()
	if n := len(cs.waiters); n > 0 {
		i := 0
		if w.CondNewest {
			i = n - 1
		}
		wt := cs.waiters[i]
		cs.waiters = append(cs.waiters[:i], cs.waiters[i+1:]...)
		condWake(w, wt)
	}
	w.mu.Unlock()
}

func CondBroadcast(cs *CondState) {
	t := Cur()
	var w *World
	if t != nil {
		w = t.W
	} else {
		w = curWorld.Load()
	}
	if w == nil || w.dead.Load() {
		return
	}
	w.mu.Lock()
	for _, wt := range cs.waiters {
		condWake(w, wt)
	}
	cs.waiters = cs.waiters[:0]
	w.mu.Unlock()
}

// ------------------------------------------------------------------ once

type OnceState struct {
	Done    bool
	Running bool
	waiters []*Task
}

func OnceDo(os *OnceState, f func()) {
	t := curOrAdopt()
	if t == nil {
		if !os.Done {
			os.Done = true
			f()
		}
		return
	}
	w := t.W
	if w.dead.Load() {
		runtime.Goexit()
	}
	t.park(sRunnable)
	w.mu.Lock()
	if os.Done {
		w.mu.Unlock()
		return
	}
	if os.Running {
		os.waiters = append(os.waiters, t)
		w.mu.Unlock()
		t.park(sOnce)
		return
	}
	os.Running = true
	w.mu.Unlock()
	defer func() {
		w.mu.Lock()
		os.Done = true
		os.Running = false
		for _, wt := range os.waiters {
			if wt.state == sOnce {
				wt.state = sRunnable
			}
		}
		os.waiters = nil
		w.mu.Unlock()
	}()
	f()
}

// ----------------------------------------------------------------- event

// Event is a harness-side one-shot flag tasks can wait for (with a simulated
// timeout). It is sim-aware: waiting parks the task in the scheduler.
type Event struct {
	w       *World
	set     bool
	waiters []*Task
	ch      chan struct{} // closed on Set (engines F and R wait on it)
}

func (w *World) NewEvent() *Event { return &Event{w: w, ch: make(chan struct{})} }

func (e *Event) IsSet() bool {
	e.w.mu.Lock()
	defer e.w.mu.Unlock()
	return e.set
}

func (e *Event) Set() {
	w := e.w
	if CurMode() != BatonMode {
		w.mu.Lock()
		if !e.set {
			e.set = true
			close(e.ch)
		}
		w.mu.Unlock()
		return
	}
	w.mu.Lock()
	e.set = true
	for _, t := range e.waiters {
		if t.state == sEvent {
			t.state = sRunnable
		}
	}
	e.waiters = nil
	w.mu.Unlock()
}

// Wait parks until the event is set or d of simulated time passed (d<=0: no
// timeout). Returns whether the event is set.
func (e *Event) Wait(d time.Duration) bool {
	w := e.w
	if CurMode() != BatonMode {
		if d <= 0 {
			<-e.ch
			return true
		}
		tm := time.NewTimer(d)
		defer tm.Stop()
		select {
		case <-e.ch:
			return true
		case <-tm.C:
			return e.IsSet()
		}
	}
	t := Cur()
	if t == nil {
		panic("Event.Wait from non-task")
	}
	w.mu.Lock()
	if e.set {
		w.mu.Unlock()
		return true
	}
	e.waiters = append(e.waiters, t)
	var tm *time.Timer
	if d > 0 {
		tm = time.AfterFunc(d, func() {
			w.mu.Lock()
			if t.state == sEvent {
				t.state = sRunnable
			}
			w.mu.Unlock()
			w.notify()
		})
		w.timers = append(w.timers, tm)
	}
	w.mu.Unlock()
	t.park(sEvent)
	if tm != nil {
		tm.Stop()
	}
	w.mu.Lock()
	defer w.mu.Unlock()
	return e.set
}

// ------------------------------------------------------------------ pools

func (w *World) RegisterPool(p poolResetter) {
	w.mu.Lock()
	w.pools = append(w.pools, p)
	w.mu.Unlock()
}

var (
	poolMu   sync.Mutex
	allPools []poolResetter
)

func RegisterGlobalPool(p poolResetter) {
	poolMu.Lock()
	allPools = append(allPools, p)
	poolMu.Unlock()
}

func ResetGlobalPools() {
	poolMu.Lock()
	for _, p := range allPools {
		p.SimReset()
	}
	poolMu.Unlock()
}

// SetMode is used by the harness for the free engine and to switch off.
func SetMode(m Mode) { mode.Store(int32(m)) }

// SetFreeWorld installs w as the world of a free-mode run.
func SetFreeWorld(w *World) {
	w.start = time.Now()
	curWorld.Store(w)
	mode.Store(int32(FreeMode))
}

// SetRealWorld: engine R - no bubble, wall clock, shims pass through.
func SetRealWorld(w *World) {
	w.start = time.Now()
	curWorld.Store(w)
	mode.Store(int32(Off))
}

// Forget drops what the process-wide goroutine table still holds for a
// finished world (tasks that never exited: blocked for ever, or adopted), so
// that the world and everything it points to can be collected.
func Forget(w *World) {
	gmap.Range(func(k, v interface{}) bool {
		if t, ok := v.(*Task); ok && t.W == w {
			gmap.Delete(k)
		}
		return true
	})
	curWorld.CompareAndSwap(w, nil)
}

func ClearWorld(w *World) {
	w.mu.Lock()
	if !w.ended {
		w.endNS = int64(time.Since(w.start))
		w.ended = true
	}
	w.mu.Unlock()
	w.dead.Store(true)
	curWorld.CompareAndSwap(w, nil)
}

// MarkAPI labels the calling task's current harness-level API call.
func MarkAPI(label string) {
	if t := Cur(); t != nil {
		t.W.mu.Lock()
		t.API = label
		t.APIDone = false
		t.W.mu.Unlock()
	}
}

func MarkAPIDone() {
	if t := Cur(); t != nil {
		t.W.mu.Lock()
		t.APIDone = true
		t.W.mu.Unlock()
	}
}

// CurID returns the calling task's id ("" if none).
func CurID() string {
	if t := Cur(); t != nil {
		return t.ID
	}
	return ""
}
