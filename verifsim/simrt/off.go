//go:build !verifsim

// Pass-through build of the seam package: with the simulator compiled out the
// instrumented library behaves exactly like the original (Go is `go`, Yield is
// nothing, the ssync shims are type aliases of package sync). The race tier
// (build tag verifperturb) only adds a scheduling perturbation to Yield that
// uses no shared state, so it creates no happens-before edges.
package simrt

import (
	"time"
)

func Go(site string, f func()) { go f() }

func AfterFunc(site string, d time.Duration, f func()) *time.Timer {
	return time.AfterFunc(d, f)
}

func Sleep(d time.Duration) { time.Sleep(d) }

func Yield() { perturb() }

// Baton reports whether the baton scheduler is active (never, in this build).
func Baton() bool { return false }
