//go:build verifsim && verifrace

package simrt

import (
	"runtime"
	_ "unsafe"
)

//go:linkname cheaprand runtime.cheaprand
func cheaprand() uint32

// perturbFree, race build: per-thread randomness only - no shared memory, no
// atomics, no locks - so that the perturbation adds no happens-before edge
// the race detector could mistake for synchronisation in the library.
func perturbFree() {
	if cheaprand()&7 == 0 {
		runtime.Gosched()
	}
}
