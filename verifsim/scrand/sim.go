//go:build verifsim

// Package scrand stands in for crypto/rand where the library draws its pipe
// id start value.
package scrand

import (
	"crypto/rand"
	"io"
	"math/big"
	"sync/atomic"
)

// Hook, if set, fills b (the harness points it at the tape).
var Hook atomic.Pointer[func(b []byte)]

type reader struct{}

func (reader) Read(b []byte) (int, error) { return Read(b) }

var Reader io.Reader = reader{}

func Read(b []byte) (int, error) {
	if f := Hook.Load(); f != nil {
		(*f)(b)
		return len(b), nil
	}
	return rand.Read(b)
}
func Int(r io.Reader, max *big.Int) (*big.Int, error) { return rand.Int(r, max) }
func Prime(r io.Reader, bits int) (*big.Int, error)   { return rand.Prime(r, bits) }
