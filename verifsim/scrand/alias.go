//go:build !verifsim

// Package scrand, pass-through build.
package scrand

import (
	"crypto/rand"
	"io"
	"math/big"
)

var Reader io.Reader = rand.Reader

func Read(b []byte) (int, error)                      { return rand.Read(b) }
func Int(r io.Reader, max *big.Int) (*big.Int, error) { return rand.Int(r, max) }
func Prime(r io.Reader, bits int) (*big.Int, error)   { return rand.Prime(r, bits) }
