//go:build !verifsim

// Package swebsocket, pass-through build: aliases of gorilla/websocket.
package swebsocket

import (
	"net/http"

	"github.com/gorilla/websocket"
)

type (
	Conn            = websocket.Conn
	Dialer          = websocket.Dialer
	Upgrader        = websocket.Upgrader
	CloseError      = websocket.CloseError
	HandshakeError  = websocket.HandshakeError
	PreparedMessage = websocket.PreparedMessage
	BufferPool      = websocket.BufferPool
)

const (
	TextMessage   = websocket.TextMessage
	BinaryMessage = websocket.BinaryMessage
	CloseMessage  = websocket.CloseMessage
	PingMessage   = websocket.PingMessage
	PongMessage   = websocket.PongMessage

	CloseNormalClosure     = websocket.CloseNormalClosure
	CloseGoingAway         = websocket.CloseGoingAway
	CloseProtocolError     = websocket.CloseProtocolError
	CloseUnsupportedData   = websocket.CloseUnsupportedData
	CloseNoStatusReceived  = websocket.CloseNoStatusReceived
	CloseAbnormalClosure   = websocket.CloseAbnormalClosure
	CloseMessageTooBig     = websocket.CloseMessageTooBig
	CloseInternalServerErr = websocket.CloseInternalServerErr
)

var (
	ErrBadHandshake = websocket.ErrBadHandshake
	ErrCloseSent    = websocket.ErrCloseSent
	ErrReadLimit    = websocket.ErrReadLimit
	DefaultDialer   = websocket.DefaultDialer
)

func Subprotocols(r *http.Request) []string     { return websocket.Subprotocols(r) }
func IsWebSocketUpgrade(r *http.Request) bool   { return websocket.IsWebSocketUpgrade(r) }
func IsCloseError(err error, codes ...int) bool { return websocket.IsCloseError(err, codes...) }
func IsUnexpectedCloseError(err error, codes ...int) bool {
	return websocket.IsUnexpectedCloseError(err, codes...)
}
func FormatCloseMessage(closeCode int, text string) []byte {
	return websocket.FormatCloseMessage(closeCode, text)
}
