//go:build verifsim

// Package swebsocket stands in for github.com/gorilla/websocket in
// transport/ws: everything is gorilla itself, except that a Dialer whose
// NetDial functions are unset opens its TCP connection through verifsim/snet
// (the simulated network in engine B / F, package net in engine R).
package swebsocket

import (
	"context"
	"net"
	"net/http"

	"github.com/gorilla/websocket"

	"go.nanomsg.org/mangos/v3/verifsim/snet"
)

type (
	Conn            = websocket.Conn
	Upgrader        = websocket.Upgrader
	CloseError      = websocket.CloseError
	HandshakeError  = websocket.HandshakeError
	PreparedMessage = websocket.PreparedMessage
	BufferPool      = websocket.BufferPool
)

const (
	TextMessage   = websocket.TextMessage
	BinaryMessage = websocket.BinaryMessage
	CloseMessage  = websocket.CloseMessage
	PingMessage   = websocket.PingMessage
	PongMessage   = websocket.PongMessage

	CloseNormalClosure     = websocket.CloseNormalClosure
	CloseGoingAway         = websocket.CloseGoingAway
	CloseProtocolError     = websocket.CloseProtocolError
	CloseUnsupportedData   = websocket.CloseUnsupportedData
	CloseNoStatusReceived  = websocket.CloseNoStatusReceived
	CloseAbnormalClosure   = websocket.CloseAbnormalClosure
	CloseMessageTooBig     = websocket.CloseMessageTooBig
	CloseInternalServerErr = websocket.CloseInternalServerErr
)

var (
	ErrBadHandshake = websocket.ErrBadHandshake
	ErrCloseSent    = websocket.ErrCloseSent
	ErrReadLimit    = websocket.ErrReadLimit
)

// Dialer is gorilla's Dialer (all fields promoted) with Dial going through snet.
type Dialer struct {
	websocket.Dialer
}

var DefaultDialer = &Dialer{Dialer: *websocket.DefaultDialer}

func (d *Dialer) prepared() *websocket.Dialer {
	if !snet.Simulated() || d.NetDial != nil || d.NetDialContext != nil || d.NetDialTLSContext != nil {
		return &d.Dialer
	}
	wd := d.Dialer
	wd.Proxy = nil // never consult the environment in a simulated run
	wd.NetDialContext = func(ctx context.Context, network, addr string) (net.Conn, error) {
		var nd snet.Dialer
		return nd.DialContext(ctx, network, addr)
	}
	return &wd
}

func (d *Dialer) Dial(urlStr string, requestHeader http.Header) (*Conn, *http.Response, error) {
	return d.prepared().Dial(urlStr, requestHeader)
}

func (d *Dialer) DialContext(ctx context.Context, urlStr string, requestHeader http.Header) (*Conn, *http.Response, error) {
	return d.prepared().DialContext(ctx, urlStr, requestHeader)
}

func Subprotocols(r *http.Request) []string     { return websocket.Subprotocols(r) }
func IsWebSocketUpgrade(r *http.Request) bool   { return websocket.IsWebSocketUpgrade(r) }
func IsCloseError(err error, codes ...int) bool { return websocket.IsCloseError(err, codes...) }
func IsUnexpectedCloseError(err error, codes ...int) bool {
	return websocket.IsUnexpectedCloseError(err, codes...)
}
func FormatCloseMessage(closeCode int, text string) []byte {
	return websocket.FormatCloseMessage(closeCode, text)
}
