//go:build verifsim

// Package srand stands in for math/rand in the instrumented library: values
// come from a hook the harness points at the tape.
package srand

import (
	"math"
	"math/rand"
	"sync/atomic"
)

// Source returns 64 random bits; set by the harness per run (nil = math/rand).
var Source atomic.Pointer[func() uint64]

// Float64Hook, if set, overrides Float64 (lets the tape pick the extremes).
var Float64Hook atomic.Pointer[func() float64]

func u64() uint64 {
	if f := Source.Load(); f != nil {
		return (*f)()
	}
	return rand.Uint64()
}

func Float64() float64 {
	if f := Float64Hook.Load(); f != nil {
		return (*f)()
	}
	return float64(u64()>>11) / (1 << 53)
}
func Float32() float32     { return float32(Float64()) }
func Int63() int64         { return int64(u64() >> 1) }
func Int31() int32         { return int32(u64() >> 33) }
func Int() int             { return int(uint(u64()) >> 1) }
func Uint32() uint32       { return uint32(u64() >> 32) }
func Uint64() uint64       { return u64() }
func Int63n(n int64) int64 { return int64(u64() % uint64(n)) }
func Int31n(n int32) int32 { return int32(u64() % uint64(n)) }
func Intn(n int) int       { return int(u64() % uint64(n)) }
func Seed(s int64)         {}
func ExpFloat64() float64  { return -math.Log(1 - Float64()) }
func NormFloat64() float64 { return Float64()*2 - 1 }
func Perm(n int) []int {
	p := make([]int, n)
	for i := range p {
		j := Intn(i + 1)
		p[i] = p[j]
		p[j] = i
	}
	return p
}
func Shuffle(n int, f func(i, j int)) {
	for i := n - 1; i > 0; i-- {
		f(i, Intn(i+1))
	}
}
func Read(p []byte) (int, error) {
	for i := range p {
		p[i] = byte(u64())
	}
	return len(p), nil
}
