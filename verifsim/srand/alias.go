//go:build !verifsim

// Package srand, pass-through build.
package srand

import "math/rand"

func Float64() float64                { return rand.Float64() }
func Float32() float32                { return rand.Float32() }
func Intn(n int) int                  { return rand.Intn(n) }
func Int() int                        { return rand.Int() }
func Int31() int32                    { return rand.Int31() }
func Int31n(n int32) int32            { return rand.Int31n(n) }
func Int63() int64                    { return rand.Int63() }
func Int63n(n int64) int64            { return rand.Int63n(n) }
func Uint32() uint32                  { return rand.Uint32() }
func Uint64() uint64                  { return rand.Uint64() }
func Perm(n int) []int                { return rand.Perm(n) }
func Seed(s int64)                    {}
func ExpFloat64() float64             { return rand.ExpFloat64() }
func NormFloat64() float64            { return rand.NormFloat64() }
func Shuffle(n int, f func(i, j int)) { rand.Shuffle(n, f) }
func Read(p []byte) (int, error)      { return rand.Read(p) }
