//go:build verifsim

// Package ssync stands in for package sync inside the instrumented library.
// In baton mode its primitives are simulator objects (a blocked task is parked
// in the scheduler, never inside the Go runtime's mutex); in the other modes
// they call straight through to package sync.
package ssync

import (
	"sync"

	"go.nanomsg.org/mangos/v3/verifsim/simrt"
)

type Locker = sync.Locker
type Map = sync.Map

type Mutex struct {
	mu sync.Mutex
	st simrt.MutexState
}

func (m *Mutex) Lock() {
	if simrt.Baton() {
		simrt.MutexLock(&m.st, &m.mu)
		return
	}
	simrt.Yield()
	m.mu.Lock()
}

func (m *Mutex) TryLock() bool {
	ok := m.mu.TryLock()
	if ok && simrt.Baton() {
		simrt.MutexTryLocked(&m.st)
	}
	return ok
}

func (m *Mutex) Unlock() {
	if simrt.Baton() {
		simrt.MutexUnlock(&m.st, &m.mu)
		return
	}
	m.mu.Unlock()
}

// LockQuiet / UnlockQuiet: acquire and release without giving the baton away
// (unless the mutex is held, which in baton mode means its holder is parked
// inside the critical section).
func (m *Mutex) LockQuiet() {
	for !m.TryLock() {
		simrt.Yield()
	}
}

func (m *Mutex) UnlockQuiet() {
	if simrt.Baton() {
		simrt.MutexUnlockQuiet(&m.st, &m.mu)
		return
	}
	m.mu.Unlock()
}

// RWMutex: readers are treated as writers (stricter, never wrong for code
// that does not take a read lock recursively).
type RWMutex struct {
	m  Mutex
	rw sync.RWMutex
}

func (m *RWMutex) Lock() {
	if simrt.Baton() {
		m.m.Lock()
		return
	}
	m.rw.Lock()
}
func (m *RWMutex) Unlock() {
	if simrt.Baton() {
		m.m.Unlock()
		return
	}
	m.rw.Unlock()
}
func (m *RWMutex) RLock() {
	if simrt.Baton() {
		m.m.Lock()
		return
	}
	m.rw.RLock()
}
func (m *RWMutex) RUnlock() {
	if simrt.Baton() {
		m.m.Unlock()
		return
	}
	m.rw.RUnlock()
}
func (m *RWMutex) TryLock() bool  { return m.m.TryLock() }
func (m *RWMutex) TryRLock() bool { return m.m.TryLock() }

type rlocker RWMutex

func (r *rlocker) Lock()   { (*RWMutex)(r).RLock() }
func (r *rlocker) Unlock() { (*RWMutex)(r).RUnlock() }

func (m *RWMutex) RLocker() Locker { return (*rlocker)(m) }

type Cond struct {
	L    Locker
	st   simrt.CondState
	once sync.Once
	real *sync.Cond
}

func NewCond(l Locker) *Cond { return &Cond{L: l} }

func (c *Cond) realCond() *sync.Cond {
	c.once.Do(func() { c.real = sync.NewCond(c.L) })
	return c.real
}

func (c *Cond) Wait() {
	if simrt.Baton() {
		simrt.CondWait(&c.st, c.L.Unlock, c.L.Lock)
		return
	}
	c.realCond().Wait()
}

func (c *Cond) Signal() {
	if simrt.Baton() {
		simrt.CondSignal(&c.st)
		return
	}
	c.realCond().Signal()
}

func (c *Cond) Broadcast() {
	if simrt.Baton() {
		simrt.CondBroadcast(&c.st)
		return
	}
	c.realCond().Broadcast()
}

type Once struct {
	st   simrt.OnceState
	real sync.Once
}

func (o *Once) Do(f func()) {
	if simrt.Baton() {
		simrt.OnceDo(&o.st, f)
		return
	}
	o.real.Do(f)
}

func OnceFunc(f func()) func() {
	var o Once
	return func() { o.Do(f) }
}

func OnceValue[T any](f func() T) func() T {
	var o Once
	var v T
	return func() T { o.Do(func() { v = f() }); return v }
}

func OnceValues[T1, T2 any](f func() (T1, T2)) func() (T1, T2) {
	var o Once
	var v1 T1
	var v2 T2
	return func() (T1, T2) { o.Do(func() { v1, v2 = f() }); return v1, v2 }
}

// WaitGroup: a counter with a sim-aware Wait.
type WaitGroup struct {
	mu Mutex
	cv Cond
	n  int
	wg sync.WaitGroup
}

func (w *WaitGroup) Add(d int) {
	if !simrt.Baton() {
		w.wg.Add(d)
		return
	}
	w.mu.Lock()
	w.n += d
	if w.n < 0 {
		w.mu.Unlock()
		panic("sync: negative WaitGroup counter")
	}
	if w.n == 0 {
		w.cv.L = &w.mu
		w.cv.Broadcast()
	}
	w.mu.Unlock()
}

func (w *WaitGroup) Done() { w.Add(-1) }

func (w *WaitGroup) Go(f func()) {
	w.Add(1)
	simrt.Go("ssync.WaitGroup.Go", func() { defer w.Done(); f() })
}

func (w *WaitGroup) Wait() {
	if !simrt.Baton() {
		w.wg.Wait()
		return
	}
	w.mu.Lock()
	w.cv.L = &w.mu
	for w.n > 0 {
		w.cv.Wait()
	}
	w.mu.Unlock()
}

// Pool: in baton mode a deterministic LIFO free list (the most aggressive
// reuse possible, and independent of GC and of per-P caches).
type Pool struct {
	New   func() any
	items []any
	reg   bool
	real  sync.Pool
	once  sync.Once
}

func (p *Pool) SimReset() { p.items = nil }

func (p *Pool) Get() any {
	if simrt.Baton() {
		if !p.reg {
			p.reg = true
			simrt.RegisterGlobalPool(p)
		}
		if n := len(p.items); n > 0 {
			x := p.items[n-1]
			p.items = p.items[:n-1]
			return x
		}
		if p.New != nil {
			return p.New()
		}
		return nil
	}
	p.once.Do(func() { p.real.New = p.New })
	return p.real.Get()
}

func (p *Pool) Put(x any) {
	if simrt.Baton() {
		if !p.reg {
			p.reg = true
			simrt.RegisterGlobalPool(p)
		}
		p.items = append(p.items, x)
		return
	}
	p.once.Do(func() { p.real.New = p.New })
	p.real.Put(x)
}
