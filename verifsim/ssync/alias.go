//go:build !verifsim

// Package ssync, pass-through build: plain aliases of package sync, so the
// instrumented library is the original library.
package ssync

import "sync"

type (
	Mutex     = sync.Mutex
	RWMutex   = sync.RWMutex
	Cond      = sync.Cond
	Once      = sync.Once
	WaitGroup = sync.WaitGroup
	Pool      = sync.Pool
	Map       = sync.Map
	Locker    = sync.Locker
)

func NewCond(l Locker) *Cond { return sync.NewCond(l) }

func OnceFunc(f func()) func() { return sync.OnceFunc(f) }

func OnceValue[T any](f func() T) func() T { return sync.OnceValue(f) }

func OnceValues[T1, T2 any](f func() (T1, T2)) func() (T1, T2) { return sync.OnceValues(f) }
