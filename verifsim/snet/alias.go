//go:build !verifsim

// Package snet, pass-through build: plain aliases of package net, so the
// instrumented transports are the original transports.
package snet

import (
	"net"
	"time"
)

type (
	Addr         = net.Addr
	Conn         = net.Conn
	Listener     = net.Listener
	Error        = net.Error
	OpError      = net.OpError
	AddrError    = net.AddrError
	DNSError     = net.DNSError
	TCPAddr      = net.TCPAddr
	UnixAddr     = net.UnixAddr
	UDPAddr      = net.UDPAddr
	IPAddr       = net.IPAddr
	IP           = net.IP
	IPNet        = net.IPNet
	IPMask       = net.IPMask
	Buffers      = net.Buffers
	PacketConn   = net.PacketConn
	Dialer       = net.Dialer
	ListenConfig = net.ListenConfig
	TCPConn      = net.TCPConn
	TCPListener  = net.TCPListener
	UnixConn     = net.UnixConn
	UnixListener = net.UnixListener
	Resolver     = net.Resolver
)

var (
	ErrClosed       = net.ErrClosed
	DefaultResolver = net.DefaultResolver
)

func Dial(network, address string) (Conn, error) { return net.Dial(network, address) }
func DialTimeout(network, address string, timeout time.Duration) (Conn, error) {
	return net.DialTimeout(network, address, timeout)
}
func Listen(network, address string) (Listener, error) { return net.Listen(network, address) }
func DialUnix(network string, laddr, raddr *UnixAddr) (*UnixConn, error) {
	return net.DialUnix(network, laddr, raddr)
}
func ListenUnix(network string, laddr *UnixAddr) (*UnixListener, error) {
	return net.ListenUnix(network, laddr)
}
func DialTCP(network string, laddr, raddr *TCPAddr) (*TCPConn, error) {
	return net.DialTCP(network, laddr, raddr)
}
func ListenTCP(network string, laddr *TCPAddr) (*TCPListener, error) {
	return net.ListenTCP(network, laddr)
}
func ResolveTCPAddr(network, address string) (*TCPAddr, error) {
	return net.ResolveTCPAddr(network, address)
}
func ResolveUnixAddr(network, address string) (*UnixAddr, error) {
	return net.ResolveUnixAddr(network, address)
}
func ResolveIPAddr(network, address string) (*IPAddr, error) {
	return net.ResolveIPAddr(network, address)
}
func SplitHostPort(hostport string) (host, port string, err error) {
	return net.SplitHostPort(hostport)
}
func JoinHostPort(host, port string) string           { return net.JoinHostPort(host, port) }
func ParseIP(s string) IP                             { return net.ParseIP(s) }
func ParseCIDR(s string) (IP, *IPNet, error)          { return net.ParseCIDR(s) }
func IPv4(a, b, c, d byte) IP                         { return net.IPv4(a, b, c, d) }
func LookupHost(host string) ([]string, error)        { return net.LookupHost(host) }
func LookupIP(host string) ([]IP, error)              { return net.LookupIP(host) }
func LookupPort(network, service string) (int, error) { return net.LookupPort(network, service) }
func Pipe() (Conn, Conn)                              { return net.Pipe() }
func InterfaceAddrs() ([]Addr, error)                 { return net.InterfaceAddrs() }
