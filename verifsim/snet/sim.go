//go:build verifsim

// Package snet stands in for package net in transport/tcp, transport/ipc and
// transport/tlstcp (import rewritten by the instrumenter). With a backend set
// (engine B / F: the run's simulated network) Dial and Listen go to it, so the
// real endpoint code of those transports - constructors, option code, accept
// loops, Close paths - runs inside the simulation under the decided schedule.
// Without a backend (engine R) every call goes to package net.
package snet

import (
	"context"
	"errors"
	"net"
	"os"
	"sync/atomic"
	"syscall"
	"time"
)

type (
	Addr       = net.Addr
	Conn       = net.Conn
	Listener   = net.Listener
	Error      = net.Error
	OpError    = net.OpError
	AddrError  = net.AddrError
	DNSError   = net.DNSError
	TCPAddr    = net.TCPAddr
	UnixAddr   = net.UnixAddr
	UDPAddr    = net.UDPAddr
	IPAddr     = net.IPAddr
	IP         = net.IP
	IPNet      = net.IPNet
	IPMask     = net.IPMask
	Buffers    = net.Buffers
	PacketConn = net.PacketConn
	Resolver   = net.Resolver
)

var (
	ErrClosed       = net.ErrClosed
	DefaultResolver = net.DefaultResolver
)

// Backend is the simulated network of the current run.
type Backend interface {
	Dial(network, address string) (net.Conn, error)
	Listen(network, address string) (net.Listener, error)
}

type holder struct{ b Backend }

var backend atomic.Pointer[holder]

// SetBackend installs (or, with nil, removes) the simulated network.
func SetBackend(b Backend) {
	if b == nil {
		backend.Store(nil)
		return
	}
	backend.Store(&holder{b})
}

// Simulated reports whether a backend is installed.
func Simulated() bool { return backend.Load() != nil }

func be() Backend {
	if h := backend.Load(); h != nil {
		return h.b
	}
	return nil
}

//go:noinline
func use(interface{}) {}

// ------------------------------------------------------------------ wrappers

var errSim = errors.New("not available on a simulated connection")

// TCPConn wraps the connection (simulated or real) behind *net.TCPConn's method set.
type TCPConn struct {
	Conn
	real *net.TCPConn
}

func wrapTCP(c net.Conn) net.Conn {
	if c == nil {
		return nil
	}
	r, _ := c.(*net.TCPConn)
	return &TCPConn{Conn: c, real: r}
}

func (c *TCPConn) SetKeepAlive(on bool) error {
	if c.real != nil {
		return c.real.SetKeepAlive(on)
	}
	return nil
}
func (c *TCPConn) SetKeepAlivePeriod(d time.Duration) error {
	if c.real != nil {
		return c.real.SetKeepAlivePeriod(d)
	}
	return nil
}
func (c *TCPConn) SetNoDelay(on bool) error {
	if c.real != nil {
		return c.real.SetNoDelay(on)
	}
	return nil
}
func (c *TCPConn) SetLinger(sec int) error {
	if c.real != nil {
		return c.real.SetLinger(sec)
	}
	return nil
}
func (c *TCPConn) SetReadBuffer(n int) error {
	if c.real != nil {
		return c.real.SetReadBuffer(n)
	}
	return nil
}
func (c *TCPConn) SetWriteBuffer(n int) error {
	if c.real != nil {
		return c.real.SetWriteBuffer(n)
	}
	return nil
}
func (c *TCPConn) CloseRead() error {
	if c.real != nil {
		return c.real.CloseRead()
	}
	return errSim
}
func (c *TCPConn) CloseWrite() error {
	if c.real != nil {
		return c.real.CloseWrite()
	}
	return errSim
}
func (c *TCPConn) SyscallConn() (syscall.RawConn, error) {
	if c.real != nil {
		return c.real.SyscallConn()
	}
	return nil, errSim
}
func (c *TCPConn) File() (*os.File, error) {
	if c.real != nil {
		return c.real.File()
	}
	return nil, errSim
}

// TCPListener wraps a listener behind *net.TCPListener's method set.
type TCPListener struct {
	Listener
	real *net.TCPListener
}

func wrapTCPL(l net.Listener) *TCPListener {
	r, _ := l.(*net.TCPListener)
	return &TCPListener{Listener: l, real: r}
}

func (l *TCPListener) Accept() (Conn, error) {
	c, err := l.Listener.Accept()
	if err != nil {
		return nil, err
	}
	return wrapTCP(c), nil
}
func (l *TCPListener) AcceptTCP() (*TCPConn, error) {
	c, err := l.Accept()
	if err != nil {
		return nil, err
	}
	return c.(*TCPConn), nil
}
func (l *TCPListener) SetDeadline(t time.Time) error {
	if l.real != nil {
		return l.real.SetDeadline(t)
	}
	return nil
}
func (l *TCPListener) SyscallConn() (syscall.RawConn, error) {
	if l.real != nil {
		return l.real.SyscallConn()
	}
	return nil, errSim
}
func (l *TCPListener) File() (*os.File, error) {
	if l.real != nil {
		return l.real.File()
	}
	return nil, errSim
}

// UnixConn wraps a connection behind *net.UnixConn's method set.
type UnixConn struct {
	Conn
	real *net.UnixConn
}

func wrapUnix(c net.Conn) *UnixConn {
	r, _ := c.(*net.UnixConn)
	return &UnixConn{Conn: c, real: r}
}

func (c *UnixConn) SyscallConn() (syscall.RawConn, error) {
	if c.real != nil {
		return c.real.SyscallConn()
	}
	return nil, errSim
}
func (c *UnixConn) CloseRead() error {
	if c.real != nil {
		return c.real.CloseRead()
	}
	return errSim
}
func (c *UnixConn) CloseWrite() error {
	if c.real != nil {
		return c.real.CloseWrite()
	}
	return errSim
}
func (c *UnixConn) SetReadBuffer(n int) error {
	if c.real != nil {
		return c.real.SetReadBuffer(n)
	}
	return nil
}
func (c *UnixConn) SetWriteBuffer(n int) error {
	if c.real != nil {
		return c.real.SetWriteBuffer(n)
	}
	return nil
}
func (c *UnixConn) File() (*os.File, error) {
	if c.real != nil {
		return c.real.File()
	}
	return nil, errSim
}

// UnixListener wraps a listener behind *net.UnixListener's method set.
type UnixListener struct {
	Listener
	real *net.UnixListener
}

func (l *UnixListener) Accept() (Conn, error) {
	c, err := l.Listener.Accept()
	if err != nil {
		return nil, err
	}
	return wrapUnix(c), nil
}
func (l *UnixListener) AcceptUnix() (*UnixConn, error) {
	c, err := l.Listener.Accept()
	if err != nil {
		return nil, err
	}
	return wrapUnix(c), nil
}
func (l *UnixListener) SetDeadline(t time.Time) error {
	if l.real != nil {
		return l.real.SetDeadline(t)
	}
	return nil
}
func (l *UnixListener) SetUnlinkOnClose(unlink bool) {
	if l.real != nil {
		l.real.SetUnlinkOnClose(unlink)
	}
}
func (l *UnixListener) SyscallConn() (syscall.RawConn, error) {
	if l.real != nil {
		return l.real.SyscallConn()
	}
	return nil, errSim
}
func (l *UnixListener) File() (*os.File, error) {
	if l.real != nil {
		return l.real.File()
	}
	return nil, errSim
}

func wrapByNet(network string, c net.Conn) net.Conn {
	switch network {
	case "tcp", "tcp4", "tcp6":
		return wrapTCP(c)
	case "unix":
		return wrapUnix(c)
	}
	return c
}

// ------------------------------------------------------------------ Dialer / ListenConfig

// Dialer has net.Dialer's fields; in a simulated run only the address matters.
type Dialer struct {
	Timeout         time.Duration
	Deadline        time.Time
	LocalAddr       Addr
	DualStack       bool
	FallbackDelay   time.Duration
	KeepAlive       time.Duration
	KeepAliveConfig net.KeepAliveConfig
	Resolver        *Resolver
	Cancel          <-chan struct{}
	Control         func(network, address string, c syscall.RawConn) error
	ControlContext  func(ctx context.Context, network, address string, c syscall.RawConn) error
}

// Real returns the net.Dialer with the same settings.
func (d *Dialer) Real() *net.Dialer {
	return &net.Dialer{Timeout: d.Timeout, Deadline: d.Deadline, LocalAddr: d.LocalAddr, DualStack: d.DualStack,
		FallbackDelay: d.FallbackDelay, KeepAlive: d.KeepAlive, KeepAliveConfig: d.KeepAliveConfig, Resolver: d.Resolver,
		Cancel: d.Cancel, Control: d.Control, ControlContext: d.ControlContext}
}

func (d *Dialer) Dial(network, address string) (Conn, error) {
	return d.DialContext(context.Background(), network, address)
}

func (d *Dialer) DialContext(ctx context.Context, network, address string) (Conn, error) {
	if b := be(); b != nil {
		if err := ctx.Err(); err != nil {
			return nil, err
		}
		use(d.Real()) // package net reads the dialer's settings here; so does the stand-in
		c, err := b.Dial(network, address)
		if err != nil {
			return nil, err
		}
		return wrapByNet(network, c), nil
	}
	c, err := d.Real().DialContext(ctx, network, address)
	if err != nil {
		return nil, err
	}
	return wrapByNet(network, c), nil
}

type ListenConfig struct {
	Control         func(network, address string, c syscall.RawConn) error
	KeepAlive       time.Duration
	KeepAliveConfig net.KeepAliveConfig
}

func (lc *ListenConfig) Real() *net.ListenConfig {
	return &net.ListenConfig{Control: lc.Control, KeepAlive: lc.KeepAlive, KeepAliveConfig: lc.KeepAliveConfig}
}

func wrapL(network string, l net.Listener) net.Listener {
	switch network {
	case "tcp", "tcp4", "tcp6":
		return wrapTCPL(l)
	case "unix":
		r, _ := l.(*net.UnixListener)
		return &UnixListener{Listener: l, real: r}
	}
	return l
}

func (lc *ListenConfig) Listen(ctx context.Context, network, address string) (Listener, error) {
	if b := be(); b != nil {
		if err := ctx.Err(); err != nil {
			return nil, err
		}
		use(lc.Real()) // package net reads the settings here; so does the stand-in
		l, err := b.Listen(network, address)
		if err != nil {
			return nil, err
		}
		return wrapL(network, l), nil
	}
	l, err := lc.Real().Listen(ctx, network, address)
	if err != nil {
		return nil, err
	}
	return wrapL(network, l), nil
}

func (lc *ListenConfig) ListenPacket(ctx context.Context, network, address string) (PacketConn, error) {
	return lc.Real().ListenPacket(ctx, network, address)
}

// ------------------------------------------------------------------ package-level functions

func Dial(network, address string) (Conn, error) {
	var d Dialer
	return d.Dial(network, address)
}

func DialTimeout(network, address string, timeout time.Duration) (Conn, error) {
	d := Dialer{Timeout: timeout}
	return d.Dial(network, address)
}

func Listen(network, address string) (Listener, error) {
	var lc ListenConfig
	return lc.Listen(context.Background(), network, address)
}

func DialUnix(network string, laddr, raddr *UnixAddr) (*UnixConn, error) {
	if b := be(); b != nil {
		if raddr == nil {
			return nil, &net.OpError{Op: "dial", Net: network, Err: errors.New("missing address")}
		}
		c, err := b.Dial(network, raddr.String())
		if err != nil {
			return nil, err
		}
		return wrapUnix(c), nil
	}
	c, err := net.DialUnix(network, laddr, raddr)
	if err != nil {
		return nil, err
	}
	return wrapUnix(c), nil
}

func ListenUnix(network string, laddr *UnixAddr) (*UnixListener, error) {
	if b := be(); b != nil {
		if laddr == nil {
			return nil, &net.OpError{Op: "listen", Net: network, Err: errors.New("missing address")}
		}
		l, err := b.Listen(network, laddr.String())
		if err != nil {
			return nil, err
		}
		return &UnixListener{Listener: l}, nil
	}
	l, err := net.ListenUnix(network, laddr)
	if err != nil {
		return nil, err
	}
	return &UnixListener{Listener: l, real: l}, nil
}

func DialTCP(network string, laddr, raddr *TCPAddr) (*TCPConn, error) {
	if b := be(); b != nil {
		if raddr == nil {
			return nil, &net.OpError{Op: "dial", Net: network, Err: errors.New("missing address")}
		}
		c, err := b.Dial(network, raddr.String())
		if err != nil {
			return nil, err
		}
		return wrapTCP(c).(*TCPConn), nil
	}
	c, err := net.DialTCP(network, laddr, raddr)
	if err != nil {
		return nil, err
	}
	return wrapTCP(c).(*TCPConn), nil
}

func ListenTCP(network string, laddr *TCPAddr) (*TCPListener, error) {
	if b := be(); b != nil {
		a := ":0"
		if laddr != nil {
			a = laddr.String()
		}
		l, err := b.Listen(network, a)
		if err != nil {
			return nil, err
		}
		return wrapTCPL(l), nil
	}
	l, err := net.ListenTCP(network, laddr)
	if err != nil {
		return nil, err
	}
	return wrapTCPL(l), nil
}

func ResolveTCPAddr(network, address string) (*TCPAddr, error) {
	return net.ResolveTCPAddr(network, address)
}
func ResolveUnixAddr(network, address string) (*UnixAddr, error) {
	return net.ResolveUnixAddr(network, address)
}
func ResolveIPAddr(network, address string) (*IPAddr, error) {
	return net.ResolveIPAddr(network, address)
}
func SplitHostPort(hostport string) (host, port string, err error) {
	return net.SplitHostPort(hostport)
}
func JoinHostPort(host, port string) string           { return net.JoinHostPort(host, port) }
func ParseIP(s string) IP                             { return net.ParseIP(s) }
func ParseCIDR(s string) (IP, *IPNet, error)          { return net.ParseCIDR(s) }
func IPv4(a, b, c, d byte) IP                         { return net.IPv4(a, b, c, d) }
func LookupHost(host string) ([]string, error)        { return net.LookupHost(host) }
func LookupIP(host string) ([]IP, error)              { return net.LookupIP(host) }
func LookupPort(network, service string) (int, error) { return net.LookupPort(network, service) }
func Pipe() (Conn, Conn)                              { return net.Pipe() }
func InterfaceAddrs() ([]Addr, error)                 { return net.InterfaceAddrs() }
