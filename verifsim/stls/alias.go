//go:build !verifsim

// Package stls, pass-through build: aliases of crypto/tls.
package stls

import (
	"crypto/tls"
	"net"
)

type (
	Config            = tls.Config
	Conn              = tls.Conn
	ConnectionState   = tls.ConnectionState
	Certificate       = tls.Certificate
	ClientAuthType    = tls.ClientAuthType
	ClientHelloInfo   = tls.ClientHelloInfo
	CurveID           = tls.CurveID
	RecordHeaderError = tls.RecordHeaderError
	Dialer            = tls.Dialer
)

const (
	VersionTLS10 = tls.VersionTLS10
	VersionTLS11 = tls.VersionTLS11
	VersionTLS12 = tls.VersionTLS12
	VersionTLS13 = tls.VersionTLS13
)

func Client(conn net.Conn, config *Config) *Conn { return tls.Client(conn, config) }
func Server(conn net.Conn, config *Config) *Conn { return tls.Server(conn, config) }
func NewListener(inner net.Listener, config *Config) net.Listener {
	return tls.NewListener(inner, config)
}
func Dial(network, addr string, config *Config) (*Conn, error) {
	return tls.Dial(network, addr, config)
}
func DialWithDialer(dialer *net.Dialer, network, addr string, config *Config) (*Conn, error) {
	return tls.DialWithDialer(dialer, network, addr, config)
}
func Listen(network, laddr string, config *Config) (net.Listener, error) {
	return tls.Listen(network, laddr, config)
}
func LoadX509KeyPair(certFile, keyFile string) (Certificate, error) {
	return tls.LoadX509KeyPair(certFile, keyFile)
}
func X509KeyPair(certPEMBlock, keyPEMBlock []byte) (Certificate, error) {
	return tls.X509KeyPair(certPEMBlock, keyPEMBlock)
}
