//go:build verifsim

// Package stls stands in for crypto/tls in transport/tlstcp: everything is
// crypto/tls itself except the two functions that open a TCP connection, which
// go through snet (the simulated network in engine B, package net in engine R).
package stls

import (
	"context"
	"crypto/tls"
	"errors"
	"net"
	"strings"

	"go.nanomsg.org/mangos/v3/verifsim/snet"
)

type (
	Config            = tls.Config
	Conn              = tls.Conn
	ConnectionState   = tls.ConnectionState
	Certificate       = tls.Certificate
	ClientAuthType    = tls.ClientAuthType
	ClientHelloInfo   = tls.ClientHelloInfo
	CurveID           = tls.CurveID
	RecordHeaderError = tls.RecordHeaderError
)

const (
	VersionTLS10 = tls.VersionTLS10
	VersionTLS11 = tls.VersionTLS11
	VersionTLS12 = tls.VersionTLS12
	VersionTLS13 = tls.VersionTLS13
)

func Client(conn net.Conn, config *Config) *Conn { return tls.Client(conn, config) }
func Server(conn net.Conn, config *Config) *Conn { return tls.Server(conn, config) }
func NewListener(inner net.Listener, config *Config) net.Listener {
	return tls.NewListener(inner, config)
}

func Dial(network, addr string, config *Config) (*Conn, error) {
	return DialWithDialer(new(snet.Dialer), network, addr, config)
}

// DialWithDialer mirrors crypto/tls.DialWithDialer (connect, then run the
// handshake before returning) on top of snet.
func DialWithDialer(dialer *snet.Dialer, network, addr string, config *Config) (*Conn, error) {
	if !snet.Simulated() {
		return tls.DialWithDialer(dialer.Real(), network, addr, config)
	}
	raw, err := dialer.Dial(network, addr)
	if err != nil {
		return nil, err
	}
	colon := strings.LastIndex(addr, ":")
	if colon == -1 {
		colon = len(addr)
	}
	hostname := addr[:colon]
	if config == nil {
		config = &tls.Config{}
	}
	if config.ServerName == "" {
		c := config.Clone()
		c.ServerName = hostname
		config = c
	}
	conn := tls.Client(raw, config)
	if dialer.Timeout > 0 {
		ctx, cancel := context.WithTimeout(context.Background(), dialer.Timeout)
		defer cancel()
		err = conn.HandshakeContext(ctx)
	} else {
		err = conn.Handshake()
	}
	if err != nil {
		_ = raw.Close()
		return nil, err
	}
	return conn, nil
}

func Listen(network, laddr string, config *Config) (net.Listener, error) {
	if config == nil || len(config.Certificates) == 0 && config.GetCertificate == nil && config.GetConfigForClient == nil {
		return nil, errors.New("tls: neither Certificates, GetCertificate, nor GetConfigForClient set in Config")
	}
	l, err := snet.Listen(network, laddr)
	if err != nil {
		return nil, err
	}
	return tls.NewListener(l, config), nil
}

func LoadX509KeyPair(certFile, keyFile string) (Certificate, error) {
	return tls.LoadX509KeyPair(certFile, keyFile)
}
func X509KeyPair(certPEMBlock, keyPEMBlock []byte) (Certificate, error) {
	return tls.X509KeyPair(certPEMBlock, keyPEMBlock)
}

// Dialer mirrors crypto/tls.Dialer on top of snet (a changed tree may hold one).
type Dialer struct {
	NetDialer *snet.Dialer
	Config    *Config
}

func (d *Dialer) Dial(network, addr string) (net.Conn, error) {
	nd := d.NetDialer
	if nd == nil {
		nd = new(snet.Dialer)
	}
	c, err := DialWithDialer(nd, network, addr, d.Config)
	if err != nil {
		return nil, err
	}
	return c, nil
}

func (d *Dialer) DialContext(ctx context.Context, network, addr string) (net.Conn, error) {
	return d.Dial(network, addr)
}
