#!/usr/bin/env python3
"""Generate the -overlay json + patched runtime sources for the harness build.

Two additive patches to the *installed* go1.26.8 sources (they only affect the
harness binary; GOROOT is never written):

  runtime/select.go                 poll-order shuffle draws from a seeded
                                    xorshift state when runtime.SimSeed(x!=0)
                                    was called; plus runtime.SimGoID().
  internal/runtime/maps/table.go    map-iterator start offsets from the same
                                    kind of seeded state.

usage: gen.py <outdir>   -> writes <outdir>/overlay.json (+ patched *.txt)
exit 0 and prints the overlay path; exit 3 if a patch site is not found.
"""
import json, os, subprocess, sys

def goroot():
    env = dict(os.environ, GOTOOLCHAIN="local")
    return subprocess.check_output(["go1.26.8", "env", "GOROOT"], env=env, text=True).strip()

SEL_OLD = "j := cheaprandn(uint32(norder + 1))"
SEL_NEW = "j := simrandn(uint32(norder + 1))"
SEL_APPEND = '''

// ---- verif overlay (deterministic simulation) ----

var simState uint64

// SimSeed makes select poll order and map iteration offsets a function of x
// (x == 0 restores stock behaviour).
func SimSeed(x uint64) {
	simState = x
	maps.SimState = x
}

// SimGoID returns the current goroutine's id.
func SimGoID() uint64 { return getg().goid }

// SimParentGoID returns the id of the goroutine that started the current one.
func SimParentGoID() uint64 { return getg().parentGoid }

func simrandn(n uint32) uint32 {
	x := simState
	if x == 0 {
		return cheaprandn(n)
	}
	x ^= x << 13
	x ^= x >> 7
	x ^= x << 17
	simState = x
	return uint32((uint64(uint32(x>>32)) * uint64(n)) >> 32)
}
'''

TAB_OLD1 = "it.entryOffset = rand()"
TAB_OLD2 = "it.dirOffset = rand()"
TAB_APPEND = '''

// ---- verif overlay (deterministic simulation) ----

// SimState, when non-zero, seeds map iteration start offsets.
var SimState uint64

func simrand() uint64 {
	x := SimState
	if x == 0 {
		return rand()
	}
	x ^= x << 13
	x ^= x >> 7
	x ^= x << 17
	SimState = x
	return x
}
'''

HASH_APPEND = '''

const simSeedMark = 0x5eed // low 16 bits of the seed of a map created during a simulated run

func simseed() uintptr {
	if SimState == 0 {
		s := uintptr(rand())
		if s&0xffff == simSeedMark {
			s ^= 1
		}
		return s
	}
	return uintptr(simrand())&^0xffff | simSeedMark
}

func simHasher(typ *abi.MapType, key unsafe.Pointer, seed uintptr) uintptr {
	h := typ.Hasher(key, seed)
	if seed&0xffff == simSeedMark {
		switch typ.Key.Kind() {
		case abi.Pointer, abi.Interface, abi.Chan, abi.UnsafePointer:
			const low = uintptr(1)<<40 - 1
			return h&^low | (seed*0x9e3779b97f4a7c15)&low
		}
	}
	return h
}
'''

def main():
    out = os.path.abspath(sys.argv[1])
    os.makedirs(out, exist_ok=True)
    root = goroot()
    sel_path = os.path.join(root, "src/runtime/select.go")
    tab_path = os.path.join(root, "src/internal/runtime/maps/table.go")
    sel = open(sel_path).read()
    tab = open(tab_path).read()
    if sel.count(SEL_OLD) != 1 or tab.count(TAB_OLD1) != 1 or tab.count(TAB_OLD2) != 1:
        print("rtoverlay: patch site not found", file=sys.stderr)
        sys.exit(3)
    sel = sel.replace(SEL_OLD, SEL_NEW)
    if '"internal/runtime/maps"' not in sel:
        sel = sel.replace('import (\n', 'import (\n\t"internal/runtime/maps"\n', 1)
    sel += SEL_APPEND
    tab = tab.replace(TAB_OLD1, "it.entryOffset = simrand()").replace(TAB_OLD2, "it.dirOffset = simrand()")
    tab += TAB_APPEND
    sp = os.path.join(out, "select.go.txt")
    tp = os.path.join(out, "table.go.txt")
    open(sp, "w").write(sel)
    open(tp, "w").write(tab)
    ov = {"Replace": {sel_path: sp, tab_path: tp}}
    # map hash seeds (m.seed = uintptr(rand())): seeded too, so that maps with
    # more than one group iterate in a reproducible order for value-typed keys.
    # Maps keyed by pointers, interfaces or channels hash an *address*: their
    # order would still depend on where the allocator put things. A map created
    # while a simulated run is in progress gets a marked seed, and for such a
    # map the low 40 bits of every pointer-ish key's hash are replaced by a
    # per-map constant: all keys probe from the same slot, so within one table
    # (up to ~900 entries) slots are filled in insertion order and iteration is
    # a function of the map's history alone. The upper bits (which pick the
    # table of a larger map) stay real, so nothing degenerates when a map
    # outgrows one table - it merely stops being reproducible, as before.
    mdir = os.path.join(root, "src/internal/runtime/maps")
    map_path = os.path.join(mdir, "map.go")
    mp_src = open(map_path).read()
    if mp_src.count("uintptr(rand())") >= 1:
        mp_src = mp_src.replace("uintptr(rand())", "simseed()")
    srcs = {map_path: mp_src, tab_path: tab}
    for fn in ("runtime.go", "runtime_fast32.go", "runtime_fast64.go", "runtime_faststr.go"):
        fp = os.path.join(mdir, fn)
        if os.path.exists(fp):
            srcs[fp] = open(fp).read()
    nsites = 0
    for fp in list(srcs):
        nsites += srcs[fp].count("typ.Hasher(")
        srcs[fp] = srcs[fp].replace("typ.Hasher(", "simHasher(typ, ")
    if nsites < 10:
        print("rtoverlay: hasher call sites not found", file=sys.stderr)
        sys.exit(3)
    srcs[tab_path] += HASH_APPEND
    for fp, txt in srcs.items():
        op2 = os.path.join(out, os.path.basename(fp) + ".txt")
        open(op2, "w").write(txt)
        ov["Replace"][fp] = op2
    # a goroutine of the bubble waiting for a sync.Mutex / RWMutex counts as idle
    # for synctest.Wait, like one waiting on a sync.Cond: dependencies that run
    # inside the simulation (net/http, crypto/tls, gorilla) hold mutexes of their
    # own across calls into the simulated network; without this, a second
    # goroutine waiting for such a mutex while its holder is parked in the
    # scheduler would keep Wait from ever returning
    rt2_path = os.path.join(root, "src/runtime/runtime2.go")
    rt2 = open(rt2_path).read()
    IDLE_OLD = "\twaitReasonSyncCondWait:          true,\n"
    if rt2.count(IDLE_OLD) != 1:
        print("rtoverlay: isIdleInSynctest patch site not found", file=sys.stderr)
        sys.exit(3)
    rt2 = rt2.replace(IDLE_OLD, IDLE_OLD + "\twaitReasonSyncMutexLock:         true,\n\twaitReasonSyncRWMutexRLock:      true,\n\twaitReasonSyncRWMutexLock:       true,\n")
    rp = os.path.join(out, "runtime2.go.txt")
    open(rp, "w").write(rt2)
    ov["Replace"][rt2_path] = rp
    op = os.path.join(out, "overlay.json")
    json.dump(ov, open(op, "w"))
    print(op)

if __name__ == "__main__":
    main()
