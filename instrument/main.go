// Command instrument rewrites a scratch copy of mangos so that every source of
// scheduling nondeterminism goes through the verifsim seam packages. It is
// purely syntactic, idempotent, keeps every original line on its original
// line number (all edits are same-line text splices at AST-determined
// offsets), and removes or reorders nothing.
//
//	instrument <scratch-root>
//
// Edits:
//   - import "sync" -> sync ".../verifsim/ssync"; "math/rand" -> srand;
//     "crypto/rand" -> scrand (internal/core only); "net" -> snet in
//     transport/{tcp,ipc,tlstcp}; "crypto/tls" -> stls in transport/tlstcp
//   - go f(a...)  -> { verifF, verifA0 := f, a; simrt.Go(site, func(){ verifF(verifA0) }) }
//   - time.AfterFunc( -> simrt.AfterFunc(site, ; time.Sleep( -> simrt.Sleep(
//   - simrt.Yield() as first statement of every select clause, after every
//     stand-alone channel send/receive statement, at the top of range-over-
//     channel bodies
//   - message.go: ledger hook calls (verifNew/verifFree/verifClone/verifDup/verifUnique)
//
// A JSON report goes to stdout.
package main

import (
	"encoding/json"
	"fmt"
	"go/ast"
	"go/parser"
	"go/token"
	"os"
	"path/filepath"
	"sort"
	"strings"
)

const modPath = "go.nanomsg.org/mangos/v3"
const marker = "// verif:instrumented\n"

type edit struct {
	off, del int
	ins      string
}

type report struct {
	Files       int      `json:"files"`
	GoStmts     int      `json:"go_stmts"`
	AfterFuncs  int      `json:"afterfuncs"`
	Sleeps      int      `json:"sleeps"`
	SelectYield int      `json:"select_clause_yields"`
	ChanYield   int      `json:"chan_stmt_yields"`
	AtomicYield int      `json:"atomic_stmt_yields"`
	RangeYield  int      `json:"range_chan_yields"`
	Imports     int      `json:"import_rewrites"`
	Ledger      int      `json:"ledger_hooks"`
	Unhandled   []string `json:"uninstrumented_channel_ops"`
	Skipped     []string `json:"skipped"`
}

var rep report

// inlineArgs: "relative/file.go:line:argindex" of go-statement arguments that
// must not be hoisted into a temporary.
var inlineArgs = map[string]bool{}

func main() {
	root := os.Args[1]
	for _, e := range strings.Split(os.Getenv("VERIF_INLINE_ARGS"), ",") {
		if e != "" {
			inlineArgs[e] = true
		}
	}
	skipDirs := map[string]bool{"test": true, "examples": true, "perf": true, "verifsim": true, ".git": true}
	var files []string
	filepath.Walk(root, func(p string, info os.FileInfo, err error) error {
		if err != nil {
			return nil
		}
		rel, _ := filepath.Rel(root, p)
		if info.IsDir() {
			if skipDirs[rel] || rel == "internal/test" {
				return filepath.SkipDir
			}
			return nil
		}
		if strings.HasSuffix(p, ".go") && !strings.HasSuffix(p, "_test.go") {
			files = append(files, p)
		}
		return nil
	})
	sort.Strings(files)
	for _, f := range files {
		rel, _ := filepath.Rel(root, f)
		if err := doFile(f, rel); err != nil {
			rep.Skipped = append(rep.Skipped, rel+": "+err.Error())
		}
	}
	b, _ := json.MarshalIndent(rep, "", " ")
	fmt.Println(string(b))
}

// netShimDir: the transports whose use of package net goes through verifsim/snet
func netShimDir(rel string) bool {
	if os.Getenv("VERIF_NO_NETSHIM") != "" {
		return false
	}
	return strings.HasPrefix(rel, "transport/tcp/") || strings.HasPrefix(rel, "transport/ipc/") || strings.HasPrefix(rel, "transport/tlstcp/") ||
		strings.HasPrefix(rel, "transport/ws/") || strings.HasPrefix(rel, "transport/wss/")
}

func doFile(path, rel string) error {
	src, err := os.ReadFile(path)
	if err != nil {
		return err
	}
	if strings.HasPrefix(string(src), marker) {
		return nil
	}
	fset := token.NewFileSet()
	f, err := parser.ParseFile(fset, path, src, parser.ParseComments)
	if err != nil {
		return err
	}
	tf := fset.File(f.Pos())
	off := func(p token.Pos) int { return tf.Offset(p) }
	text := func(a, b token.Pos) string { return string(src[off(a):off(b)]) }
	site := func(p token.Pos) string {
		return fmt.Sprintf("%s:%d", rel, tf.Line(p))
	}

	var edits []edit
	usesSimrt := false
	timeName := ""
	hasTime := false

	// imports
	for _, im := range f.Imports {
		p := strings.Trim(im.Path.Value, "\"")
		repl := ""
		name := ""
		switch p {
		case "sync":
			repl, name = modPath+"/verifsim/ssync", "sync"
		case "math/rand":
			repl, name = modPath+"/verifsim/srand", "rand"
		case "crypto/rand":
			if strings.HasPrefix(rel, "internal/core/") {
				repl, name = modPath+"/verifsim/scrand", "rand"
			}
		case "net":
			if netShimDir(rel) {
				repl, name = modPath+"/verifsim/snet", "net"
			}
		case "crypto/tls":
			if netShimDir(rel) && strings.HasPrefix(rel, "transport/tlstcp/") {
				repl, name = modPath+"/verifsim/stls", "tls"
			}
		case "github.com/gorilla/websocket":
			if netShimDir(rel) {
				repl, name = modPath+"/verifsim/swebsocket", "websocket"
			}
		case "time":
			hasTime = true
			timeName = "time"
			if im.Name != nil {
				timeName = im.Name.Name
			}
		}
		if repl != "" {
			ins := fmt.Sprintf("%q", repl)
			if im.Name == nil {
				ins = name + " " + ins
			}
			edits = append(edits, edit{off(im.Path.Pos()), len(im.Path.Value), ins})
			rep.Imports++
		}
	}

	// regions wholly replaced (inner edits are dropped)
	type region struct{ a, b int }
	var replaced []region

	isRecv := func(e ast.Expr) bool {
		for {
			if p, ok := e.(*ast.ParenExpr); ok {
				e = p.X
				continue
			}
			break
		}
		u, ok := e.(*ast.UnaryExpr)
		return ok && u.Op == token.ARROW
	}

	handledRecv := map[ast.Node]bool{}

	// hasAtomic: the statement's own expressions (not nested blocks or function
	// literals) call into sync/atomic. An atomic operation is a point where
	// another goroutine may run in between - "load, compute, store" and
	// "count, then test" sequences are only as atomic as each single call -,
	// so it becomes a scheduling point like a lock acquisition.
	hasAtomic := func(st ast.Stmt) bool {
		if strings.HasSuffix(rel, "_verif.go") || strings.HasSuffix(rel, "verif_hooks.go") || strings.HasSuffix(rel, "_noverif.go") {
			return false // the injected hook files are the harness's, not the library's
		}
		found := false
		ast.Inspect(st, func(n ast.Node) bool {
			switch x := n.(type) {
			case *ast.BlockStmt, *ast.FuncLit:
				return false
			case *ast.CallExpr:
				if se, ok := x.Fun.(*ast.SelectorExpr); ok {
					if id, ok := se.X.(*ast.Ident); ok && id.Name == "atomic" {
						found = true
					}
				}
			}
			return !found
		})
		return found
	}

	var stmtList func(list []ast.Stmt)
	stmtList = func(list []ast.Stmt) {
		for _, s := range list {
			if ls, ok := s.(*ast.LabeledStmt); ok {
				s = ls.Stmt
			} else {
				switch s.(type) {
				case *ast.ExprStmt, *ast.AssignStmt, *ast.IfStmt, *ast.ReturnStmt, *ast.IncDecStmt:
					if hasAtomic(s) {
						edits = append(edits, edit{off(s.Pos()), 0, "simrt.Yield(); "})
						usesSimrt = true
						rep.AtomicYield++
					}
				}
			}
			switch st := s.(type) {
			case *ast.SendStmt:
				edits = append(edits, edit{off(st.End()), 0, "; simrt.Yield()"})
				usesSimrt = true
				rep.ChanYield++
			case *ast.ExprStmt:
				if isRecv(st.X) {
					handledRecv[st.X] = true
					edits = append(edits, edit{off(st.End()), 0, "; simrt.Yield()"})
					usesSimrt = true
					rep.ChanYield++
				}
			case *ast.AssignStmt:
				if len(st.Rhs) == 1 && isRecv(st.Rhs[0]) {
					handledRecv[st.Rhs[0]] = true
					edits = append(edits, edit{off(st.End()), 0, "; simrt.Yield()"})
					usesSimrt = true
					rep.ChanYield++
				}
			}
		}
	}

	chanish := func(e ast.Expr) bool {
		var n string
		switch x := e.(type) {
		case *ast.Ident:
			n = x.Name
		case *ast.SelectorExpr:
			n = x.Sel.Name
		default:
			return false
		}
		l := strings.ToLower(n)
		return strings.HasSuffix(l, "q") || strings.HasSuffix(l, "ch") || strings.HasSuffix(l, "chan") || strings.HasSuffix(l, "queue")
	}

	inMessageGo := rel == "message.go"

	ast.Inspect(f, func(n ast.Node) bool {
		switch x := n.(type) {
		case *ast.BlockStmt:
			stmtList(x.List)
		case *ast.CaseClause:
			stmtList(x.Body)
		case *ast.CommClause:
			stmtList(x.Body)
			if x.Comm != nil {
				// the comm statement itself is handled by the clause yield
				switch c := x.Comm.(type) {
				case *ast.ExprStmt:
					handledRecv[c.X] = true
				case *ast.AssignStmt:
					if len(c.Rhs) == 1 {
						handledRecv[c.Rhs[0]] = true
					}
				}
			}
			edits = append(edits, edit{off(x.Colon) + 1, 0, " simrt.Yield();"})
			usesSimrt = true
			rep.SelectYield++
		case *ast.RangeStmt:
			if x.Value == nil && chanish(x.X) {
				edits = append(edits, edit{off(x.Body.Lbrace) + 1, 0, " simrt.Yield();"})
				usesSimrt = true
				rep.RangeYield++
			}
		case *ast.UnaryExpr:
			if x.Op == token.ARROW && !handledRecv[x] {
				// might be handled through a ParenExpr wrapper; check later
				rep.Unhandled = append(rep.Unhandled, site(x.Pos()))
			}
		case *ast.GoStmt:
			call := x.Call
			st := site(x.Pos())
			usesSimrt = true
			rep.GoStmts++
			if fl, ok := call.Fun.(*ast.FuncLit); ok && len(call.Args) == 0 {
				// go func(){...}()  ->  simrt.Go(site, func(){...})
				edits = append(edits, edit{off(x.Pos()), off(fl.Pos()) - off(x.Pos()), fmt.Sprintf("simrt.Go(%q, ", st)})
				edits = append(edits, edit{off(call.Lparen), off(call.Rparen) + 1 - off(call.Lparen), ")"})
				return true
			}
			var pre strings.Builder
			var args []string
			pre.WriteString("{ ")
			for i, a := range call.Args {
				simple := false
				switch v := a.(type) {
				case *ast.BasicLit:
					simple = true
				case *ast.Ident:
					simple = v.Name == "nil" || v.Name == "true" || v.Name == "false"
				}
				// an argument the compiler told us is an untyped constant (see
				// build_harness: "cannot use verifA<i> ..."): a temporary would
				// give it its default type; a constant can stay where it is
				if inlineArgs[fmt.Sprintf("%s:%d", st, i)] {
					simple = true
				}
				if simple {
					args = append(args, text(a.Pos(), a.End()))
				} else {
					fmt.Fprintf(&pre, "verifA%d := %s; ", i, text(a.Pos(), a.End()))
					args = append(args, fmt.Sprintf("verifA%d", i))
				}
			}
			if call.Ellipsis.IsValid() && len(args) > 0 {
				args[len(args)-1] += "..."
			}
			if fl, ok := call.Fun.(*ast.FuncLit); ok {
				// go func(x T){...}(a) -> { verifA0 := a; simrt.Go(site, func(){ func(x T){...}(verifA0) }) }
				edits = append(edits, edit{off(x.Pos()), off(fl.Pos()) - off(x.Pos()), pre.String() + fmt.Sprintf("simrt.Go(%q, func() { ", st)})
				edits = append(edits, edit{off(call.Lparen), off(call.Rparen) + 1 - off(call.Lparen), "(" + strings.Join(args, ", ") + ") }) }"})
				replaced = append(replaced, region{off(call.Lparen), off(call.Rparen) + 1})
				return true
			}
			// evaluation order of a go statement: function value, then arguments
			full := "{ verifF := " + text(call.Fun.Pos(), call.Fun.End()) + "; " + pre.String()[2:] +
				fmt.Sprintf("simrt.Go(%q, func() { verifF(%s) }) }", st, strings.Join(args, ", "))
			edits = append(edits, edit{off(x.Pos()), off(x.End()) - off(x.Pos()), full})
			replaced = append(replaced, region{off(x.Pos()), off(x.End())})
			return true
		case *ast.CallExpr:
			if sel, ok := x.Fun.(*ast.SelectorExpr); ok && hasTime {
				if id, ok := sel.X.(*ast.Ident); ok && id.Name == timeName && id.Obj == nil {
					switch sel.Sel.Name {
					case "AfterFunc":
						edits = append(edits, edit{off(x.Pos()), off(x.Lparen) + 1 - off(x.Pos()), fmt.Sprintf("simrt.AfterFunc(%q, ", site(x.Pos()))})
						usesSimrt = true
						rep.AfterFuncs++
					case "Sleep":
						edits = append(edits, edit{off(x.Pos()), off(x.Lparen) + 1 - off(x.Pos()), "simrt.Sleep("})
						usesSimrt = true
						rep.Sleeps++
					}
				}
			}
		case *ast.FuncDecl:
			if inMessageGo && x.Body != nil {
				recv := ""
				if x.Recv != nil && len(x.Recv.List) == 1 && len(x.Recv.List[0].Names) == 1 {
					recv = x.Recv.List[0].Names[0].Name
				}
				hook := ""
				switch {
				case x.Name.Name == "Free" && recv != "":
					hook = "verifFree"
				case x.Name.Name == "Clone" && recv != "":
					hook = "verifClone"
				case x.Name.Name == "Dup" && recv != "":
					hook = "verifDup"
				case x.Name.Name == "MakeUnique" && recv != "":
					hook = "verifUnique"
				}
				if hook != "" {
					edits = append(edits, edit{off(x.Body.Lbrace) + 1, 0, fmt.Sprintf(" %s(%s);", hook, recv)})
					rep.Ledger++
				}
				if x.Name.Name == "NewMessage" && x.Recv == nil && len(x.Type.Params.List) == 1 && len(x.Type.Params.List[0].Names) == 1 {
					pn := x.Type.Params.List[0].Names[0].Name
					ast.Inspect(x.Body, func(m ast.Node) bool {
						if _, ok := m.(*ast.FuncLit); ok {
							return false
						}
						if r, ok := m.(*ast.ReturnStmt); ok && len(r.Results) == 1 {
							edits = append(edits, edit{off(r.Results[0].Pos()), 0, "verifNew("})
							edits = append(edits, edit{off(r.Results[0].End()), 0, ", " + pn + ")"})
							rep.Ledger++
						}
						return true
					})
				}
			}
		}
		return true
	})

	if len(edits) == 0 {
		return nil
	}

	if usesSimrt {
		imp := fmt.Sprintf("import simrt %q; ", modPath+"/verifsim/simrt")
		if len(f.Decls) > 0 {
			if gd, ok := f.Decls[0].(*ast.GenDecl); ok && gd.Tok == token.IMPORT {
				edits = append(edits, edit{off(gd.Pos()), 0, imp})
			} else {
				edits = append(edits, edit{off(f.Name.End()), 0, "; " + strings.TrimSuffix(imp, "; ")})
			}
		} else {
			edits = append(edits, edit{off(f.Name.End()), 0, "; " + strings.TrimSuffix(imp, "; ")})
		}
	}

	// drop edits inside replaced regions (except the replacing edit itself)
	var kept []edit
	for _, e := range edits {
		drop := false
		for _, r := range replaced {
			if e.off > r.a && e.off < r.b && !(e.off == r.a) {
				drop = true
			}
			if e.off == r.a && e.del == 0 && false {
				drop = true
			}
		}
		if !drop {
			kept = append(kept, e)
		}
	}
	sort.SliceStable(kept, func(i, j int) bool { return kept[i].off < kept[j].off })
	var out strings.Builder
	out.WriteString(marker)
	pos := 0
	for _, e := range kept {
		if e.off < pos {
			return fmt.Errorf("overlapping edits at offset %d", e.off)
		}
		out.Write(src[pos:e.off])
		out.WriteString(e.ins)
		pos = e.off + e.del
	}
	out.Write(src[pos:])
	if hasTime {
		fmt.Fprintf(&out, "\nvar _ %s.Duration // verif: keep the import used\n", timeName)
	}
	rep.Files++
	// The marker adds one line at the top: compensate with a //line directive
	// so that reported positions are the original ones.
	res := out.String()
	abs, _ := filepath.Abs(path)
	res = marker + "//line " + abs + ":1\n" + strings.TrimPrefix(res, marker)
	return os.WriteFile(path, []byte(res), 0o644)
}
