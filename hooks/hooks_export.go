// Package hooks re-exports the core windows for the harness (which lives in
// another module and cannot import internal/).
package hooks

import (
	"go.nanomsg.org/mangos/v3"
	"go.nanomsg.org/mangos/v3/internal/core"
)

func PipeIDsInUse() []uint32          { return core.VerifPipeIDsInUse() }
func ResetPipeIDs(next uint32)        { core.VerifResetPipeIDs(next) }
func SocketPipes(s mangos.Socket) int { return core.VerifSocketPipes(s) }

// SocketClosed reports whether Close has been called on the socket.
func SocketClosed(s mangos.Socket) bool { return core.VerifSocketClosed(s) }

// SetNextPipeID moves the id allocator's counter; ids in use stay in use.
func SetNextPipeID(next uint32) { core.VerifSetNextPipeID(next) }
