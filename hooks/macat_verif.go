package macat

import "io"

// VerifSetStdout redirects the records printed by the application (added to
// the scratch copy by /verif; not part of mangos).
func (a *App) VerifSetStdout(w io.Writer) { a.stdOut = w }
