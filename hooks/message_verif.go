//go:build verifsim

package mangos

// Message ledger (added to the scratch copy by /verif; not part of mangos).
// The instrumenter inserts calls to these hooks at the entry of Free, Clone,
// Dup and MakeUnique and around the result of NewMessage.

import (
	"fmt"
	"sync"
	"sync/atomic"
	"unsafe"
)

// verifOverlap: the backing arrays of a and b (up to their capacities) share
// at least one byte.
func verifOverlap(a, b []byte) bool {
	a, b = a[:cap(a)], b[:cap(b)]
	if len(a) == 0 || len(b) == 0 {
		return false
	}
	pa, pb := uintptr(unsafe.Pointer(&a[0])), uintptr(unsafe.Pointer(&b[0]))
	return pa < pb+uintptr(len(b)) && pb < pa+uintptr(len(a))
}

const verifPoison = 0xDD

type verifLedgerT struct {
	mu       sync.Mutex
	released map[*Message]bool // currently released (refcnt reached 0) and poisoned
	maxAlloc int
	news     int64
	frees    int64
	releases int64
	reuses   int64
	fail     func(key, msg string)
	on       bool
}

var verifLedger = verifLedgerT{released: map[*Message]bool{}}

// VerifLedgerReset starts a new run: fail receives violations.
func VerifLedgerReset(fail func(key, msg string)) {
	l := &verifLedger
	l.mu.Lock()
	l.released = map[*Message]bool{}
	l.maxAlloc = 0
	l.news, l.frees, l.releases, l.reuses = 0, 0, 0, 0
	l.fail = fail
	l.on = fail != nil
	l.mu.Unlock()
}

// VerifLedgerStats: largest NewMessage request, and counters.
func VerifLedgerStats() (maxAlloc int, news, frees, releases, reuses int64) {
	l := &verifLedger
	l.mu.Lock()
	defer l.mu.Unlock()
	return l.maxAlloc, l.news, l.frees, l.releases, l.reuses
}

// VerifRefcnt exposes the owner count of a message to the harness.
func VerifRefcnt(m *Message) int32 { return atomic.LoadInt32(&m.refcnt) }

func (l *verifLedgerT) report(key, msg string) {
	if f := l.fail; f != nil {
		f(key, msg)
	}
}

func verifFill(b []byte) {
	b = b[:cap(b)]
	for i := range b {
		b[i] = verifPoison
	}
}

func verifIntact(b []byte) bool {
	b = b[:cap(b)]
	for i := range b {
		if b[i] != verifPoison {
			return false
		}
	}
	return true
}

func verifNew(m *Message, sz int) *Message {
	l := &verifLedger
	if !l.on {
		return m
	}
	l.mu.Lock()
	defer l.mu.Unlock()
	l.news++
	if sz > l.maxAlloc {
		l.maxAlloc = sz
	}
	if l.released[m] {
		l.reuses++
		delete(l.released, m)
		if !verifIntact(m.bbuf) || !verifIntact(m.hbuf) {
			l.report("C17/write-after-release", "a message buffer was written after its last owner released it (poison damaged when the pool handed it out again)")
		}
	}
	if len(m.Body) != 0 || len(m.Header) != 0 {
		l.report("C17/new-message-not-empty", fmt.Sprintf("NewMessage(%d) returned len(Body)=%d len(Header)=%d", sz, len(m.Body), len(m.Header)))
	}
	if verifOverlap(m.Header, m.Body) {
		// "a new message ... starts empty with enough capacity": capacity that
		// header and body share is capacity neither of them has
		l.report("C17/new-message-header-shares-storage-with-body", fmt.Sprintf("NewMessage(%d) returned a message whose header space (cap %d) and body space (cap %d) overlap: appending to one writes into the other", sz, cap(m.Header), cap(m.Body)))
	}
	if cap(m.Body) < sz {
		l.report("C17/new-message-capacity", fmt.Sprintf("NewMessage(%d) returned cap(Body)=%d", sz, cap(m.Body)))
	}
	if atomic.LoadInt32(&m.refcnt) != 1 {
		l.report("C17/new-message-refcnt", fmt.Sprintf("NewMessage(%d) returned refcnt=%d", sz, m.refcnt))
	}
	return m
}

func verifFree(m *Message) {
	l := &verifLedger
	if m == nil || !l.on {
		return
	}
	l.mu.Lock()
	defer l.mu.Unlock()
	l.frees++
	rc := atomic.LoadInt32(&m.refcnt)
	if rc <= 0 || l.released[m] {
		l.report("C17/double-release", fmt.Sprintf("Free of a message whose owner count is already %d", rc))
		return
	}
	if rc == 1 {
		l.releases++
		l.released[m] = true
		verifFill(m.bbuf)
		verifFill(m.hbuf)
		// (only the message's own buffers: Body and Header are public fields
		// and may point at a slice the application put there and keeps)
	}
}

func verifUse(m *Message, what string) {
	l := &verifLedger
	if m == nil || !l.on {
		return
	}
	l.mu.Lock()
	defer l.mu.Unlock()
	if rc := atomic.LoadInt32(&m.refcnt); rc <= 0 || l.released[m] {
		l.report("C17/use-after-release:"+what, fmt.Sprintf("%s of a message that has been released (owner count %d)", what, rc))
	}
}

func verifClone(m *Message)  { verifUse(m, "Clone") }
func verifDup(m *Message)    { verifUse(m, "Dup") }
func verifUnique(m *Message) { verifUse(m, "MakeUnique") }
