//go:build !verifsim

package mangos

func verifNew(m *Message, sz int) *Message { return m }
func verifFree(m *Message)                 {}
func verifClone(m *Message)                {}
func verifDup(m *Message)                  {}
func verifUnique(m *Message)               {}
