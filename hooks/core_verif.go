package core

// Read-only windows into unexported core state (added to the scratch copy by
// /verif; not part of mangos).

import (
	"sort"

	"go.nanomsg.org/mangos/v3"
)

// VerifPipeIDsInUse lists the pipe ids currently allocated in this process.
func VerifPipeIDsInUse() []uint32 {
	pipeIDs.lock.Lock()
	defer pipeIDs.lock.Unlock()
	var out []uint32
	for id := range pipeIDs.used {
		out = append(out, id)
	}
	sort.Slice(out, func(i, j int) bool { return out[i] < out[j] })
	return out
}

// VerifResetPipeIDs empties the allocator and makes it start at next.
func VerifResetPipeIDs(next uint32) {
	pipeIDs.lock.Lock()
	pipeIDs.used = make(map[uint32]struct{})
	pipeIDs.next = next
	pipeIDs.lock.Unlock()
}

// VerifSocketPipes returns the number of pipes on a socket's pipe list
// (-1 if s is not a core socket).
func VerifSocketPipes(s mangos.Socket) int {
	cs, ok := s.(*socket)
	if !ok {
		return -1
	}
	cs.pipes.lock.Lock()
	defer cs.pipes.lock.Unlock()
	return len(cs.pipes.pipes)
}

// VerifSocketClosed reports whether Close has been called on a core socket
// (false if s is not one).
func VerifSocketClosed(s mangos.Socket) bool {
	cs, ok := s.(*socket)
	if !ok {
		return false
	}
	cs.Lock()
	defer cs.Unlock()
	return cs.closed
}

// VerifSetNextPipeID moves the allocator's counter (as if it had come round
// after 2^31 allocations) without touching the set of ids in use.
func VerifSetNextPipeID(next uint32) {
	pipeIDs.lock.Lock()
	if pipeIDs.used != nil {
		pipeIDs.next = next
	}
	pipeIDs.lock.Unlock()
}
