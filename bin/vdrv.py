#!/usr/bin/env python3
"""Shared driver code for /verif checks: scratch build, worker fan-out,
aggregation, minimisation, evidence, known findings."""
import glob, hashlib, json, os, shutil, subprocess, sys, tempfile, time

VERIF = os.path.dirname(os.path.dirname(os.path.abspath(__file__)))
REPO = os.environ.get("VERIF_REPO", "/repo")
GO = "go1.26.8"
NCPU = int(os.environ.get("VERIF_WORKERS", str(os.cpu_count() or 4)))

def goenv():
    e = dict(os.environ)
    e.update(GOFLAGS="-mod=mod", GOPROXY="off", GOSUMDB="off", GOTOOLCHAIN="local",
             GONOSUMCHECK="1", GONOSUMDB="*", GOFLAGS_EXTRA="")
    e.pop("GOFLAGS_EXTRA", None)
    return e

class BuildError(Exception):
    pass

def run(cmd, **kw):
    return subprocess.run(cmd, stdout=subprocess.PIPE, stderr=subprocess.STDOUT, text=True, **kw)

def ensure_instrumenter():
    out = os.path.join(VERIF, ".build", "instrument")
    src = os.path.join(VERIF, "instrument", "main.go")
    if os.path.exists(out) and os.path.getmtime(out) >= os.path.getmtime(src):
        return out
    os.makedirs(os.path.dirname(out), exist_ok=True)
    r = run([GO, "build", "-o", out, src], env=goenv(), cwd=os.path.join(VERIF, "instrument"))
    if r.returncode != 0:
        raise BuildError("building instrumenter failed:\n" + r.stdout)
    return out

def make_scratch():
    base = os.environ.get("VERIF_TMP") or tempfile.gettempdir()
    return tempfile.mkdtemp(prefix="verif-scratch-", dir=base)

# go-statement arguments that turned out to be untyped constants (found from the
# compiler's complaint about the temporary that held them): not hoisted
INLINE_ARGS = set()

# set when the tree did not build with package net behind verifsim/snet in
# transport/{tcp,ipc,tlstcp} (it uses something the shim does not export): the
# tree is then instrumented without that rewrite and the scenarios fall back to
# the stand-in stream transports
NO_NETSHIM = [False]

def prepare_tree(scratch, instrument=True):
    """copy /repo's working tree, add the seam packages and hook files, instrument."""
    dst = os.path.join(scratch, "repo")
    r = run(["rsync", "-a", "--delete", "--exclude", ".git", REPO + "/", dst + "/"])
    if r.returncode != 0:
        raise BuildError("rsync failed:\n" + r.stdout)
    shutil.copytree(os.path.join(VERIF, "verifsim"), os.path.join(dst, "verifsim"), dirs_exist_ok=True)
    for line in open(os.path.join(VERIF, "hooks", "MAP")):
        line = line.strip()
        if not line:
            continue
        a, b = line.split()
        os.makedirs(os.path.dirname(os.path.join(dst, b)) or dst, exist_ok=True)
        shutil.copy(os.path.join(VERIF, "hooks", a), os.path.join(dst, b))
    rep = {}
    if instrument:
        ins = ensure_instrumenter()
        r = subprocess.run([ins, dst], stdout=subprocess.PIPE, stderr=subprocess.PIPE, text=True,
                           env=dict(os.environ, VERIF_INLINE_ARGS=",".join(sorted(INLINE_ARGS)),
                                    VERIF_NO_NETSHIM="1" if NO_NETSHIM[0] else ""))
        if r.returncode != 0:
            raise BuildError("instrumenter failed:\n" + r.stdout + r.stderr)
        try:
            rep = json.loads(r.stdout)
        except Exception:
            raise BuildError("instrumenter output not JSON:\n" + r.stdout[:2000])
        if rep.get("skipped"):
            raise BuildError("instrumenter could not process: %s" % rep["skipped"])
    return dst, rep

def build_harness(scratch, race=False, tags="verifsim"):
    """build the harness test binary against the instrumented scratch copy."""
    dst = os.path.join(scratch, "repo")
    ovdir = os.path.join(scratch, "overlay")
    r = run([sys.executable, os.path.join(VERIF, "rtoverlay", "gen.py"), ovdir], env=goenv())
    if r.returncode != 0:
        raise BuildError("runtime overlay generation failed:\n" + r.stdout)
    overlay = os.path.join(ovdir, "overlay.json")
    mod = open(os.path.join(VERIF, "harness", "go.mod.tmpl")).read().replace("@SCRATCH@", dst)
    modfile = os.path.join(scratch, "harness.mod")
    open(modfile, "w").write(mod)
    with open(os.path.join(scratch, "harness.sum"), "w") as f:
        f.write(open(os.path.join(REPO, "go.sum")).read())
        extra = os.path.join(VERIF, "harness", "extra.sum")
        if os.path.exists(extra):
            f.write(open(extra).read())
    binp = os.path.join(scratch, "harness.test" + (".race" if race else ""))
    cmd = [GO, "test", "-c", "-tags", tags, "-overlay", overlay, "-modfile", modfile, "-o", binp]
    if race:
        cmd.append("-race")
    cmd.append(".")
    env = goenv()
    r = run(cmd, env=env, cwd=os.path.join(VERIF, "harness"))
    if r.returncode != 0:
        # `go f(Const)` was rewritten to `verifA0 := Const; ... verifF(verifA0)`: for an
        # untyped constant the temporary has the default type and may not fit
        # the parameter. Re-instrument those sites with the constant left in place.
        import re as _re
        new = set()
        for m in _re.finditer(r"/repo/(\S+?\.go):(\d+)(?::\d+)?: [^\n]*\bverifA(\d+)\b", r.stdout):
            new.add("%s:%s:%s" % (m.group(1), m.group(2), m.group(3)))
        new -= INLINE_ARGS
        if new and len(INLINE_ARGS) < 200:
            INLINE_ARGS.update(new)
            prepare_tree(scratch)
            return build_harness(scratch, race=race, tags=tags)
        if not NO_NETSHIM[0] and _re.search(r"verifsim/(snet|stls|swebsocket)|/repo/transport/(tcp|ipc|tlstcp|ws|wss)/", r.stdout):
            NO_NETSHIM[0] = True
            sys.stderr.write("note: the tree does not build with package net behind verifsim/snet; falling back to the stand-in stream transports\n")
            prepare_tree(scratch)
            return build_harness(scratch, race=race, tags=tags)
        raise BuildError("harness build failed:\n" + r.stdout[-6000:])
    return binp

def run_worker(binp, env_extra, outfile, timeout=None):
    env = goenv()
    env.update(env_extra)
    env["VERIF_OUT"] = outfile
    if NO_NETSHIM[0]:
        env["VERIF_NO_NETSHIM"] = "1"
    # the worker's stdout/stderr go to a file, never to a pipe: a goroutine dump
    # (watchdog, fatal error) is larger than a pipe buffer and nobody reads
    # the pipe before the process has exited
    logf = open(outfile + ".log", "w+", errors="replace")
    pr = subprocess.Popen([binp, "-test.run", "^TestWorker$", "-test.timeout", "0", "-test.cpu", "1"],
                          env=env, stdout=logf, stderr=subprocess.STDOUT)
    return Worker(pr, logf)

class _Log:
    def __init__(self, f):
        self.f = f
    def read(self):
        self.f.flush()
        self.f.seek(0)
        t = self.f.read()
        if len(t) > 4 << 20:
            t = t[:2 << 20] + "\n[...]\n" + t[-(2 << 20):]
        return t

class Worker:
    """a worker process whose output is collected in a file"""
    def __init__(self, pr, logf):
        self.pr, self.stdout = pr, _Log(logf)
    def poll(self):
        return self.pr.poll()
    def kill(self):
        return self.pr.kill()
    def wait(self, timeout=None):
        return self.pr.wait(timeout)
    @property
    def returncode(self):
        return self.pr.returncode
    @property
    def pid(self):
        return self.pr.pid
    def communicate(self, timeout=None):
        self.pr.wait(timeout)
        return (self.stdout.read(), None)

def read_results(path):
    out = []
    if not os.path.exists(path):
        return out
    for line in open(path):
        line = line.strip()
        if not line:
            continue
        try:
            out.append(json.loads(line))
        except Exception:
            pass
    return out
