package harness

import (
	"fmt"
	"time"

	"go.nanomsg.org/mangos/v3"
	"go.nanomsg.org/mangos/v3/verifsim/simrt"
)

// C03: "a new Send abandons the previous request, whose pending Recv fails
// with a cancellation error" - when the previous request has not even been
// transmitted: its Send is still waiting for a peer (none connected, or the
// only one stalled), a Recv already waits behind it on the same context, and
// the newer Send arrives. Every waiter of the abandoned request must come
// back: the Recv with the cancellation error, the parked Send with whatever
// it reports - and other contexts' calls are left alone. The main history of
// C03 always has a ready peer, so nothing there ever parks in Send.
func c03ParkedSend(w *W) {
	useCtx := w.Choose(simrt.SShape, 2) == 0
	withDeadline := w.Choose(simrt.SShape, 2) == 0 // a receive deadline far in the future on the context
	peerLater := w.Choose(simrt.SShape, 2) == 0
	other := w.Choose(simrt.SShape, 2) == 0 // another context parked in the same state, not superseded
	w.SetShape("ctx", useCtx)
	w.SetShape("recv_deadline", withDeadline)
	w.SetShape("peer_connects_afterwards", peerLater)
	w.SetShape("bystander_context", other)
	mn := w.UseMsgNet()
	addr := w.Addr("msg")
	s := w.Sock("req")
	defer s.Close()
	mustSet(w, s, mangos.OptionRetryTime, time.Hour)
	if err := w.ListenOn(s, addr); err != nil {
		w.Failf("HARNESS/listen", "%v", err)
		return
	}
	var obj ioObj = s
	if useCtx {
		c, err := s.OpenContext()
		if err != nil {
			w.Failf("HARNESS/ctx", "%v", err)
			return
		}
		obj = c.(ioObj)
	}
	if withDeadline {
		mustSet(w, obj, mangos.OptionRecvDeadline, 10*time.Minute)
	}
	var by ioObj
	var bySend, byRecv *Call
	if other {
		c, err := s.OpenContext()
		if err != nil {
			w.Failf("HARNESS/ctx", "%v", err)
			return
		}
		by = c.(ioObj)
		bySend = w.Do("bystander.Send(b1)", func() (interface{}, error) { return nil, by.Send([]byte("b1")) })
		w.Settle()
		byRecv = w.Do("bystander.Recv", func() (interface{}, error) { return by.Recv() })
		w.Settle()
	}
	send1 := w.Do("Send(q1)", func() (interface{}, error) { return nil, obj.Send([]byte("q1")) })
	w.Sleep(time.Duration(w.Choose(simrt.SProg, 3)) * time.Millisecond)
	w.Settle()
	if send1.Returned() {
		w.Failf("HARNESS/not-parked", "Send without a peer returned %v", send1.Err)
		return
	}
	recv1 := w.Do("Recv(for q1)", func() (interface{}, error) { return obj.Recv() })
	w.Sleep(time.Duration(w.Choose(simrt.SProg, 3)) * time.Millisecond)
	w.Settle()
	if recv1.Returned() {
		// (a Recv refused while the request is not yet on the wire would be a
		// legitimate design; this code lets it wait)
		w.Probe("recv-behind-parked-send-refused")
		return
	}
	w.Probe("recv-waiting-behind-parked-send")
	// the newer request: best effort, so that it does not park as well
	mustSet(w, obj, mangos.OptionBestEffort, true)
	w.Op("Send(q2) supersedes q1 (Send parked, Recv waiting)")
	send2 := w.Do("Send(q2)", func() (interface{}, error) { return nil, obj.Send([]byte("q2")) })
	w.Settle()
	if !send2.Returned() {
		w.WedgeCheck("C12")
		w.Failf("C03/send-stuck", "a best-effort Send superseding a parked request did not return")
		return
	}
	if !recv1.Returned() {
		w.WedgeCheck("C12")
		w.Failf("C03/abandoned-recv-not-cancelled", "q1's Send was still waiting for a peer and a Recv waited behind it; Send(q2) on the same context returned %v at %v, the Recv for q1 is still pending%s", errName(send2.Err), w.Now(), w.BlockedReport())
		return
	}
	if recv1.Err != mangos.ErrCanceled {
		w.Failf("C03/abandoned-recv-wrong-result", "the Recv pending for the abandoned q1 returned (%v, %v), want the cancellation error", recv1.Val, errName(recv1.Err))
		return
	}
	if !send1.Returned() {
		w.WedgeCheck("C12")
		w.Failf("C03/send-stuck", "the Send of the abandoned request q1 is still parked after Send(q2) returned")
		return
	}
	if other {
		if bySend.Returned() || byRecv.Returned() {
			w.Failf("C03/other-context-disturbed", "another context had a Send waiting for a peer and a Recv behind it; the new Send on a different context ended them: Send returned=%v (%v), Recv returned=%v (%v)", bySend.Returned(), errName(bySend.Err), byRecv.Returned(), errName(byRecv.Err))
			return
		}
	}
	w.Delivery++
	if peerLater {
		// a peer shows up: q1 must never be transmitted; the bystander's
		// request goes out and its reply is delivered
		p := mn.Connect(addr)
		w.Settle()
		for _, m := range p.Sent() {
			if len(m.Body) >= 2 && string(m.Body[len(m.Body)-2:]) == "q1" {
				w.Failf("C04/transmitted-after-cancel", "the abandoned request q1 was transmitted once a peer connected")
				return
			}
		}
		if other {
			var id []byte
			for _, m := range p.Sent() {
				b := m.Bytes()
				if len(b) >= 6 && string(b[len(b)-2:]) == "b1" {
					id = b[:4]
				}
			}
			if id == nil {
				w.Failf("C04/no-answer-after-faults", "the bystander context's request b1 was not transmitted when a peer connected (its Send returned=%v)", bySend.Returned())
				return
			}
			p.Inject(append(append([]byte(nil), id...), "rb1"...))
			w.Settle()
			if !byRecv.Returned() || byRecv.Err != nil || string(byRecv.Val.([]byte)) != "rb1" {
				w.Failf("C03/reply-not-delivered", "the bystander context's Recv: returned=%v (%v, %v) after the reply to b1 arrived", byRecv.Returned(), fmt.Sprint(byRecv.Val), errName(byRecv.Err))
				return
			}
			w.Delivery++
		}
	}
}

func init() {
	register(&Scenario{Name: "req-new-send-abandons-parked-request", Prop: "C03", Horizon: time.Hour, Weight: 3, Run: c03ParkedSend})
}
