package harness

import (
	"bytes"
	"fmt"
	"sort"
	"strings"
	"time"

	"go.nanomsg.org/mangos/v3"
	"go.nanomsg.org/mangos/v3/verifsim/simrt"
)

// C03/C04 bench: one REQ socket (listening on msg://) with 1..3 contexts and
// 1..3 scripted REP peers.

type reqTx struct {
	at   time.Duration
	step int64
	pipe *MsgPipe
	raw  []byte
	lost bool // handed to a pipe that was already closing: never reached the peer
}

type reqReq struct {
	ctx     int
	n       int
	tag     string
	R       time.Duration
	send    *Call
	recv    *Call
	txs     []reqTx
	done    bool
	doneAt  time.Duration
	doneWhy string
	replied string // tag of the reply we injected as the answer
}

type reqCtx struct {
	idx    int
	c      mangos.Context // nil for the socket itself
	s      mangos.Socket
	cur    *reqReq
	closed bool
	n      int
	R      time.Duration
	// every other reply is taken with RecvMsg and its Message kept for the
	// next request of this context
	nrecv   int
	lastMsg *mangos.Message
}

// Send hands the request over in a buffer of the caller's, which the caller
// overwrites as soon as Send has returned (Send([]byte) copies: what is
// retransmitted later is what was sent, not what the buffer holds by then).
func (c *reqCtx) Send(b []byte) error {
	if m := c.lastMsg; m != nil {
		// the ping-pong idiom: the next request goes out in the Message the
		// last reply came in (whatever header that one still carries: a
		// request gets an id of its own)
		c.lastMsg = nil
		m.Body = append(m.Body[:0], b...)
		var err error
		if c.c != nil {
			err = c.c.SendMsg(m)
		} else {
			err = c.s.SendMsg(m)
		}
		if err != nil {
			m.Free()
		}
		return err
	}
	scratch := append(make([]byte, 0, len(b)+16), b...)
	var err error
	if c.c != nil {
		err = c.c.Send(scratch)
	} else {
		err = c.s.Send(scratch)
	}
	for i := range scratch {
		scratch[i] = '#'
	}
	return err
}
func (c *reqCtx) Recv() ([]byte, error) {
	c.nrecv++
	if c.nrecv%2 == 0 {
		var m *mangos.Message
		var err error
		if c.c != nil {
			m, err = c.c.RecvMsg()
		} else {
			m, err = c.s.RecvMsg()
		}
		if err != nil {
			return nil, err
		}
		b := append([]byte{}, m.Body...)
		if c.lastMsg != nil {
			c.lastMsg.Free()
		}
		c.lastMsg = m
		return b, nil
	}
	if c.c != nil {
		return c.c.Recv()
	}
	return c.s.Recv()
}

type reqBench struct {
	w       *W
	mn      *MsgNet
	addr    string
	s       mangos.Socket
	ctxs    []*reqCtx
	pipes   []*MsgPipe
	connAt  map[*MsgPipe]time.Duration
	reqs    []*reqReq
	byTag   map[string]*reqReq
	bounded bool
	stray   []string
}

func newReqBench(w *W, R time.Duration, nctx, npipes int, bounded bool) *reqBench {
	b := &reqBench{w: w, byTag: map[string]*reqReq{}, connAt: map[*MsgPipe]time.Duration{}, bounded: bounded}
	b.mn = w.UseMsgNet()
	b.addr = w.Addr("msg")
	b.s = w.Sock("req")
	mustSet(w, b.s, mangos.OptionRetryTime, R)
	if bounded {
		b.mn.Endpoint(b.addr).SendCap = 1
	}
	if w.Choose(simrt.SShape, 4) == 0 {
		// an application hook that takes its time on Detached: what the
		// protocol does about a lost connection must not wait for it
		slow := R
		if slow < 50*time.Millisecond {
			slow = 50 * time.Millisecond
		}
		if slow > time.Second {
			slow = time.Second // (the callback must be back before the end-of-run census)
		}
		b.s.SetPipeEventHook(func(ev mangos.PipeEvent, p mangos.Pipe) {
			if ev == mangos.PipeEventDetached {
				simrt.Sleep(3 * slow)
			}
		})
		w.SetShape("slow_detached_hook", true)
		w.Probe("slow-detached-hook")
	}
	if err := b.s.Listen(b.addr); err != nil {
		w.Failf("HARNESS/listen", "%v", err)
	}
	b.ctxs = append(b.ctxs, &reqCtx{idx: 0, s: b.s, R: R})
	for i := 1; i < nctx; i++ {
		c, err := b.s.OpenContext()
		if err != nil {
			w.Failf("HARNESS/ctx", "%v", err)
			break
		}
		b.ctxs = append(b.ctxs, &reqCtx{idx: i, c: c, s: b.s, R: R})
	}
	for i := 0; i < npipes; i++ {
		b.addPipe()
	}
	w.Settle()
	return b
}

func (b *reqBench) addPipe() *MsgPipe {
	p := b.mn.ConnectWith(b.addr, func(p *MsgPipe) {
		p.OnSend = b.onSend
		p.OnLost = b.onSend
		b.connAt[p] = b.w.Now()
		b.pipes = append(b.pipes, p)
	})
	if p == nil {
		b.w.Failf("HARNESS/connect", "nobody listens on %s", b.addr)
		return nil
	}
	return p
}

func (b *reqBench) onSend(m WireMsg) {
	tag := string(m.Body)
	if i := strings.IndexByte(tag, '|'); i >= 0 {
		tag = tag[:i]
	}
	q := b.byTag[tag]
	if q == nil {
		b.stray = append(b.stray, fmt.Sprintf("%q on %s", m.Body, m.Pipe.Name))
		return
	}
	q.txs = append(q.txs, reqTx{at: m.HandAt, step: m.HandStep, pipe: m.Pipe, raw: m.Bytes(), lost: m.Lost})
	if m.Lost {
		b.w.Probe("handed-to-dying-pipe")
	} else {
		b.w.Delivery++
	}
}

func (b *reqBench) openPipes(at time.Duration, except *MsgPipe) []*MsgPipe {
	var out []*MsgPipe
	for _, p := range b.pipes {
		if p == except {
			continue
		}
		if b.connAt[p] <= at && (p.PeerClosedAt < 0 || p.PeerClosedAt > at) && (p.ClosedAt < 0 || p.ClosedAt > at) {
			out = append(out, p)
		}
	}
	return out
}

// firstAvail: first instant >= tau at which some pipe (other than except) is
// attached and open; -1 if none so far.
func (b *reqBench) firstAvail(tau time.Duration, except *MsgPipe) time.Duration {
	if len(b.openPipes(tau, except)) > 0 {
		return tau
	}
	best := time.Duration(-1)
	for _, p := range b.pipes {
		if p == except {
			continue
		}
		c := b.connAt[p]
		if c >= tau && (p.PeerClosedAt < 0 || p.PeerClosedAt > c) {
			if best < 0 || c < best {
				best = c
			}
		}
	}
	return best
}

func (b *reqBench) newReq(c *reqCtx) *reqReq {
	c.n++
	q := &reqReq{ctx: c.idx, n: c.n, tag: fmt.Sprintf("c%d-n%d", c.idx, c.n), R: c.R}
	b.reqs = append(b.reqs, q)
	b.byTag[q.tag] = q
	if old := c.cur; old != nil && !old.done {
		old.done, old.doneAt, old.doneWhy = true, b.w.Now(), "superseded"
	}
	c.cur = q
	body := []byte(q.tag + "|" + strings.Repeat("x", b.w.Choose(simrt.SProg, 40)))
	q.send = b.w.Do("Send "+q.tag, func() (interface{}, error) { return nil, c.Send(body) })
	return q
}

func (b *reqBench) startRecv(c *reqCtx) {
	q := c.cur
	if q == nil || q.recv != nil || q.send == nil || !q.send.Returned() || q.send.Err != nil {
		return
	}
	q.recv = b.w.Do("Recv "+q.tag, func() (interface{}, error) { return c.Recv() })
}

// check runs the C04 oracle over everything recorded so far. Must be called
// right after a Settle.
func (b *reqBench) check(final bool) {
	w := b.w
	now := w.Now()
	if len(b.stray) > 0 {
		w.Failf("C04/invented-transmission", "REQ transmitted something that is no request of this run: %v", b.stray)
	}
	for _, q := range b.reqs {
		// order by hand-off (instant, then step); recording order can differ
		// under back-pressure
		sort.SliceStable(q.txs, func(i, j int) bool {
			if q.txs[i].at != q.txs[j].at {
				return q.txs[i].at < q.txs[j].at
			}
			return q.txs[i].step < q.txs[j].step
		})
		for j, tx := range q.txs {
			// (a) byte-identical
			if j > 0 && !bytes.Equal(tx.raw, q.txs[0].raw) {
				w.Failf("C04/retransmission-differs", "request %s: transmission %d differs from the first (%x vs %x)", q.tag, j, tx.raw, q.txs[0].raw)
			}
			// (d) nothing after completion
			if q.done && tx.at > q.doneAt {
				w.Failf("C04/resend-after-"+q.doneWhy, "request %s was %s at %v but transmitted again at %v on %s", q.tag, q.doneWhy, q.doneAt, tx.at, tx.pipe.Name)
			}
			if j == 0 {
				continue
			}
			// (b)+(e) every retransmission needs its own trigger: a retry
			// interval elapsed since some earlier transmission, or a pipe that
			// carried the request closed.
			trig := 0
			for k := 0; k < j; k++ {
				if q.R > 0 && q.txs[k].at+q.R <= tx.at {
					trig++
				}
			}
			seen := map[*MsgPipe]bool{}
			for k := 0; k < j; k++ {
				p := q.txs[k].pipe
				if !seen[p] && p.PeerClosedAt >= 0 && p.PeerClosedAt <= tx.at && q.R > 0 {
					trig++
				}
				seen[p] = true
			}
			if trig < j {
				why := "C04/resend-too-soon"
				w.Failf(why, "request %s (retry %v): transmission %d at %v on %s has no trigger: earlier transmissions at %s, pipe closures %s", q.tag, q.R, j, tx.at, tx.pipe.Name, txTimes(q.txs[:j]), pipeCloses(q.txs[:j]))
			}
			// (f) "each time the retry interval elapses (never sooner)": the
			// interval runs from the latest transmission. A retransmission that
			// follows the previous one by less than the interval is the answer
			// to the loss of the connection that carried the previous one -
			// nothing else (a timer left over from an earlier transmission of
			// the same request would fire here).
			if prev := q.txs[j-1]; q.R > 0 && tx.at-prev.at < q.R {
				pc := prev.pipe
				closed := (pc.PeerClosedAt >= 0 && pc.PeerClosedAt <= tx.at) || (pc.ClosedAt >= 0 && pc.ClosedAt <= tx.at)
				if !closed {
					w.Failf("C04/resend-sooner-than-interval-after-latest", "request %s (retry %v): transmission %d at %v on %s follows transmission %d (at %v on %s) by %v, and %s has not closed: earlier transmissions at %s, pipe closures %s", q.tag, q.R, j, tx.at, tx.pipe.Name, j-1, prev.at, pc.Name, tx.at-prev.at, pc.Name, txTimes(q.txs[:j]), pipeCloses(q.txs[:j]))
				}
			}
		}
		if len(q.txs) == 0 || b.bounded {
			continue
		}
		// (c) liveness: interval elapsed / carrier lost => retransmitted at
		// that instant if a pipe is available.
		doneBefore := func(t time.Duration) bool { return q.done && q.doneAt <= t }
		if q.R > 0 {
			for k, tx := range q.txs {
				due := tx.at + q.R
				if due > now || doneBefore(due) {
					continue
				}
				T := b.firstAvail(due, nil)
				if T < 0 || T > now || doneBefore(T) {
					continue
				}
				ok := false
				for _, l := range q.txs[k+1:] {
					if l.at <= T {
						ok = true
					}
				}
				if !ok {
					w.Failf("C04/no-resend-after-interval", "request %s transmitted at %v, retry %v elapsed at %v, a pipe was available at %v, but no retransmission by then (now %v; transmissions %s)", q.tag, tx.at, q.R, due, T, now, txTimes(q.txs))
				}
			}
			// carrier loss
			last := q.txs[len(q.txs)-1]
			_ = last
			for k, tx := range q.txs {
				p := tx.pipe
				tau := p.PeerClosedAt
				if tau < 0 || tau < tx.at || tau > now || doneBefore(tau) {
					continue
				}
				// was tx the latest transmission when p closed? (Several
				// hand-offs at one instant cannot be ordered from outside:
				// then the rule is not applied.)
				latest := true
				for i, l := range q.txs {
					if i == k {
						continue
					}
					if (i > k && (l.at < tau || (l.at == tau && l.pipe == p))) || (l.at == tx.at && l.pipe != p) {
						latest = false
					}
				}
				if !latest {
					continue
				}
				T := b.firstAvail(tau, p)
				if T < 0 || T > now || doneBefore(T) {
					continue
				}
				ok := false
				for _, l := range q.txs[k+1:] {
					if l.at >= tau && l.at <= T {
						ok = true
					}
				}
				if !ok {
					w.Failf("C04/no-resend-after-pipe-loss", "request %s: its carrier %s closed at %v, another pipe was available at %v, but no retransmission then (now %v; transmissions %s)", q.tag, p.Name, tau, T, now, txTimes(q.txs))
				}
			}
		} else {
			// (f) retries disabled: losing the carrier cancels.
			last := q.txs[len(q.txs)-1]
			tau := last.pipe.PeerClosedAt
			if tau >= 0 && tau <= now && !doneBefore(tau) {
				if len(q.txs) > 1 {
					w.Failf("C04/resend-with-retry-disabled", "request %s re-sent although retry time is 0", q.tag)
				}
				if q.recv != nil {
					if !q.recv.Returned() {
						w.Failf("C04/no-cancel-on-loss", "request %s: retry disabled, carrier lost at %v, but Recv is still pending at %v", q.tag, tau, now)
					} else if q.recv.Err != mangos.ErrCanceled && q.recv.RetTime >= tau {
						w.Failf("C04/no-cancel-on-loss", "request %s: retry disabled, carrier lost, Recv returned %v instead of ErrCanceled", q.tag, errName(q.recv.Err))
					}
				}
				if !q.done {
					q.done, q.doneAt, q.doneWhy = true, tau, "cancelled-by-loss"
				}
			}
		}
	}
}

func txTimes(txs []reqTx) string {
	var s []string
	for _, t := range txs {
		s = append(s, fmt.Sprintf("%v@%s", t.at, t.pipe.Name))
	}
	return "[" + strings.Join(s, " ") + "]"
}

func pipeCloses(txs []reqTx) string {
	var s []string
	seen := map[*MsgPipe]bool{}
	for _, t := range txs {
		if !seen[t.pipe] && t.pipe.PeerClosedAt >= 0 {
			s = append(s, fmt.Sprintf("%s@%v", t.pipe.Name, t.pipe.PeerClosedAt))
		}
		seen[t.pipe] = true
	}
	return "[" + strings.Join(s, " ") + "]"
}

// reply makes the peer that received q's latest transmission answer it.
func (b *reqBench) reply(q *reqReq, body string) bool {
	if len(q.txs) == 0 {
		return false
	}
	for i := len(q.txs) - 1; i >= 0; i-- {
		tx := q.txs[i]
		if tx.pipe.Open() {
			tx.pipe.Inject(append(append([]byte(nil), tx.raw[:4]...), body...))
			return true
		}
	}
	return false
}

var c04Retries = []time.Duration{0, time.Millisecond, 10 * time.Millisecond, 100 * time.Millisecond, time.Second, time.Minute}

func c04Run(w *W) {
	R := c04Retries[w.Choose(simrt.SShape, len(c04Retries))]
	nctx := 1 + w.Choose(simrt.SShape, 3)
	npipes := 1 + w.Choose(simrt.SShape, 3)
	bounded := w.Choose(simrt.SShape, 4) == 0
	nops := 3 + w.Choose(simrt.SShape, 10)
	w.SetShape("retry", R.String())
	w.SetShape("ctxs", nctx)
	w.SetShape("pipes", npipes)
	w.SetShape("bounded", bounded)
	if w.Choose(simrt.SShape, 6) == 0 {
		w.AlignIDSeed(uint32(w.Choose(simrt.SShape, 4)))
		w.SetShape("ids_cross_wrap", true)
	}
	b := newReqBench(w, R, nctx, npipes, bounded)
	defer b.s.Close()
	unit := R
	if unit == 0 {
		unit = 10 * time.Millisecond
	}
	for op := 0; op < nops && !w.Failed(); op++ {
		kind := w.Choose(simrt.SProg, 10)
		arg := w.Choose(simrt.SProg, 16)
		c := b.ctxs[arg%len(b.ctxs)]
		switch {
		case kind <= 2: // new request
			if c.closed || (c.cur != nil && c.cur.send != nil && !c.cur.send.Returned()) {
				continue
			}
			if c.cur != nil && c.cur.recv != nil && !c.cur.recv.Returned() {
				w.Probe("new-send-while-recv-pending")
			}
			q := b.newReq(c)
			w.Op("ctx%d Send %s", c.idx, q.tag)
		case kind <= 4: // advance time
			ds := []time.Duration{0, unit / 2, unit - 1, unit, unit + 1, 2 * unit, 3*unit + unit/3, time.Millisecond}
			d := ds[arg%len(ds)]
			w.Op("advance %v", d)
			w.Sleep(d)
		case kind == 5: // peer of some pipe goes away
			open := b.openPipes(w.Now(), nil)
			if len(open) == 0 {
				continue
			}
			p := open[arg%len(open)]
			w.Op("peer %s closes", p.Name)
			w.Fault("close")
			p.ClosePeer()
			for _, q := range b.reqs {
				if !q.done && len(q.txs) > 0 && q.txs[len(q.txs)-1].pipe == p {
					w.Probe("carrier-lost-while-outstanding")
				}
			}
		case kind == 6: // new peer
			if len(b.pipes) >= 6 {
				continue
			}
			p := b.addPipe()
			if p != nil {
				w.Op("peer %s connects", p.Name)
			}
		case kind == 7: // peer answers the current request of ctx
			q := c.cur
			if q == nil || q.done || len(q.txs) == 0 {
				continue
			}
			rb := "re:" + q.tag
			if arg >= 12 {
				rb = "" // an empty answer is an answer
				w.Probe("empty-reply")
			}
			if b.reply(q, rb) {
				w.Op("peer answers %s", q.tag)
				q.replied = rb
				q.done, q.doneAt, q.doneWhy = true, w.Now(), "reply"
			}
		case kind == 8 && !b.bounded:
			// the retry time is set again to the value it has (on the context
			// or, for the default context, on the socket): nothing changes for
			// the request outstanding - no transmission now, the next one when
			// it was due anyway
			if c.closed {
				continue
			}
			var err error
			if c.c != nil {
				err = c.c.SetOption(mangos.OptionRetryTime, R)
			} else {
				err = b.s.SetOption(mangos.OptionRetryTime, R)
			}
			if err != nil {
				w.Failf("C19/retrytime-rejected", "SetOption(RetryTime, %v): %v", R, err)
				return
			}
			w.Op("ctx%d SetOption(RetryTime, %v) again", c.idx, R)
			w.Probe("retry-time-set-again-while-outstanding")
		case kind == 8: // stalled peer frees one slot (bounded mode)
			if !b.bounded {
				continue
			}
			open := b.openPipes(w.Now(), nil)
			if len(open) == 0 {
				continue
			}
			p := open[arg%len(open)]
			if _, ok := p.Take(); ok {
				w.Op("peer %s reads one message", p.Name)
			}
		case kind == 9 && c.c == nil && len(b.ctxs) < nctx+2:
			// a context opened in the middle of the history (requests of the
			// socket and of the other contexts outstanding): it has nothing to
			// do with their requests and retransmissions, now or when it is used
			nc, err := b.s.OpenContext()
			if err != nil {
				w.Failf("HARNESS/ctx", "%v", err)
				return
			}
			b.ctxs = append(b.ctxs, &reqCtx{idx: len(b.ctxs), c: nc, s: b.s, R: R})
			w.Op("ctx%d opened", len(b.ctxs)-1)
			w.Probe("context-opened-mid-history")
		case kind == 9: // close a context
			if c.c == nil || c.closed {
				continue
			}
			w.Op("ctx%d Close", c.idx)
			c.closed = true
			if q := c.cur; q != nil && !q.done {
				q.done, q.doneAt, q.doneWhy = true, w.Now(), "context-close"
			}
			w.Here("ctx.Close", func() (interface{}, error) { return nil, c.c.Close() })
		}
		w.Settle()
		for _, c := range b.ctxs {
			if !c.closed {
				b.startRecv(c)
			}
		}
		w.Settle()
		b.check(false)
		b.checkRecvs()
	}
	if w.Failed() {
		return
	}
	// faults stop: make sure a pipe exists, let one retry interval pass, answer
	// whatever is outstanding, and expect every Recv to complete.
	if b.bounded {
		for _, p := range b.pipes {
			for {
				if _, ok := p.Take(); !ok {
					break
				}
			}
			p.mu.Lock()
			p.SendCap = 0
			p.cv.Broadcast()
			p.mu.Unlock()
		}
	}
	b.mn.Endpoint(b.addr).SendCap = 0
	if len(b.openPipes(w.Now(), nil)) == 0 {
		b.addPipe()
		w.Op("final: peer connects")
	}
	w.Settle()
	for _, c := range b.ctxs {
		if !c.closed {
			b.startRecv(c)
		}
	}
	w.Sleep(unit)
	w.Settle()
	b.check(false)
	for _, c := range b.ctxs {
		q := c.cur
		if c.closed || q == nil || q.done || q.recv == nil {
			continue
		}
		if len(q.txs) == 0 {
			w.Failf("C04/never-transmitted", "request %s: a pipe is available and faults stopped, but it was never transmitted", q.tag)
			continue
		}
		rb := "re:" + q.tag
		if !b.reply(q, rb) {
			// every pipe that carried it is gone and (R==0) it was cancelled, or it is waiting for the retry
			continue
		}
		w.Op("final: peer answers %s", q.tag)
		q.replied = rb
		q.done, q.doneAt, q.doneWhy = true, w.Now(), "reply"
	}
	w.Settle()
	b.checkRecvs()
	// (d) judged at the horizon: nothing more is ever transmitted
	w.Sleep(3*unit + time.Second)
	w.Settle()
	b.check(true)
	for _, q := range b.reqs {
		if !q.done && !b.bounded && q.R > 0 && q.send != nil && q.send.Returned() && q.send.Err == nil {
			// an outstanding, unanswered request with a pipe available must keep being re-sent
			if len(b.openPipes(w.Now(), nil)) > 0 && len(q.txs) > 0 && w.Now()-q.txs[len(q.txs)-1].at > q.R {
				w.Failf("C04/no-resend-after-interval", "request %s still outstanding, last transmitted %v, now %v, retry %v", q.tag, q.txs[len(q.txs)-1].at, w.Now(), q.R)
			}
		}
	}
}

// checkRecvs: a Recv whose request we answered must have returned that answer
// at the instant of the answer (after the settle).
func (b *reqBench) checkRecvs() {
	w := b.w
	for _, q := range b.reqs {
		if q.recv == nil {
			continue
		}
		if q.doneWhy == "reply" && q.doneAt <= w.Now() {
			if !q.recv.Returned() {
				w.Failf("C04/reply-not-delivered", "request %s answered at %v but Recv still pending at %v", q.tag, q.doneAt, w.Now())
			} else if q.recv.Err != nil {
				// a Recv cancelled by a later Send is fine (superseded requests never get here)
				w.Failf("C04/reply-not-delivered", "request %s answered at %v but Recv returned %v", q.tag, q.doneAt, errName(q.recv.Err))
			} else if string(q.recv.Val.([]byte)) != q.replied {
				w.Failf("C03/wrong-reply", "request %s: Recv returned %q, the answer was %q", q.tag, q.recv.Val, q.replied)
			}
		}
	}
}

func init() {
	register(&Scenario{Name: "req-retry", Prop: "C04", Horizon: 6 * time.Hour, Weight: 30, Run: c04Run})
}
