package harness

// wirecodec: the SP stream mappings written from the RFC texts
// (sp-tcp-mapping-01, sp-ipc-mapping-01, sp-tls-mapping-01), sharing no code
// with mangos.
//
//   connection header (both directions, sent first):
//       0x00 'S' 'P' 0x00 <protocol number, 16 bit big endian> 0x00 0x00
//   message on TCP/TLS:  <length, 64 bit big endian> <payload>
//   message on IPC:      0x01 <length, 64 bit big endian> <payload>
//   payload = protocol header followed by body.

import (
	"errors"
	"io"
)

var protoNumbers = map[string]uint16{
	"pair": 0x10, "pair1": 0x11, "pub": 0x20, "sub": 0x21, "req": 0x30, "rep": 0x31,
	"push": 0x50, "pull": 0x51, "surveyor": 0x62, "respondent": 0x63, "bus": 0x70, "star": 0x640,
}

func protoOf(kind string) uint16 {
	if kind[0] == 'x' {
		kind = kind[1:]
	}
	return protoNumbers[kind]
}

func wcHeader(proto uint16) []byte {
	return []byte{0x00, 0x53, 0x50, 0x00, byte(proto >> 8), byte(proto), 0x00, 0x00}
}

func wcFrame(ipc bool, payload []byte) []byte {
	var out []byte
	if ipc {
		out = append(out, 0x01)
	}
	n := uint64(len(payload))
	for i := 7; i >= 0; i-- {
		out = append(out, byte(n>>(8*uint(i))))
	}
	return append(out, payload...)
}

var errWCBadHeader = errors.New("wirecodec: malformed connection header")

// wcReadHeader reads and validates a peer's connection header, returning its
// protocol number.
func wcReadHeader(r io.Reader) (uint16, []byte, error) {
	b := make([]byte, 8)
	if _, err := io.ReadFull(r, b); err != nil {
		return 0, b, err
	}
	if b[0] != 0 || b[1] != 'S' || b[2] != 'P' || b[3] != 0 || b[6] != 0 || b[7] != 0 {
		return 0, b, errWCBadHeader
	}
	return uint16(b[4])<<8 | uint16(b[5]), b, nil
}

var errWCFrame = errors.New("wirecodec: malformed frame")

// wcReadFrame reads one message.
func wcReadFrame(r io.Reader, ipc bool, max uint64) ([]byte, error) {
	if ipc {
		one := make([]byte, 1)
		if _, err := io.ReadFull(r, one); err != nil {
			return nil, err
		}
		if one[0] != 0x01 {
			return nil, errWCFrame
		}
	}
	lb := make([]byte, 8)
	if _, err := io.ReadFull(r, lb); err != nil {
		return nil, err
	}
	var n uint64
	for _, x := range lb {
		n = n<<8 | uint64(x)
	}
	if n > max {
		return nil, errWCFrame
	}
	p := make([]byte, n)
	if _, err := io.ReadFull(r, p); err != nil {
		return nil, err
	}
	return p, nil
}
