package harness

import (
	"crypto/ecdsa"
	"crypto/elliptic"
	"crypto/rand"
	"crypto/tls"
	"crypto/x509"
	"crypto/x509/pkix"
	"fmt"
	"math/big"
	"net"
	"os"
	"sync"
	"time"
)

var (
	tlsOnce        sync.Once
	tlsSrv, tlsCli *tls.Config
)

// loopIP is the loopback address engine R binds to: one per worker process
// (all of 127.0.0.0/8 is local on Linux). Port numbers are allocated per
// address, so neither another worker nor an unrelated process on 127.0.0.1 can
// take a port this process has just released - which the "address was freed,
// the retry must work" and "nobody listens there" steps rely on.
var loopIP = func() string {
	pid := os.Getpid()
	return fmt.Sprintf("127.%d.%d.1", 1+(pid/250)%250, 1+pid%250)
}()

// tlsConfigs returns a server and a client config sharing one self-signed
// ECDSA certificate for loopIP and 127.0.0.1 (generated once per process).
func tlsConfigs() (*tls.Config, *tls.Config) {
	tlsOnce.Do(func() {
		key, err := ecdsa.GenerateKey(elliptic.P256(), rand.Reader)
		if err != nil {
			panic(err)
		}
		tmpl := &x509.Certificate{
			SerialNumber:          big.NewInt(1),
			Subject:               pkix.Name{CommonName: "verif"},
			NotBefore:             time.Unix(0, 0),
			NotAfter:              time.Date(2090, 1, 1, 0, 0, 0, 0, time.UTC),
			KeyUsage:              x509.KeyUsageDigitalSignature | x509.KeyUsageCertSign,
			ExtKeyUsage:           []x509.ExtKeyUsage{x509.ExtKeyUsageServerAuth},
			BasicConstraintsValid: true,
			IsCA:                  true,
			IPAddresses:           []net.IP{net.ParseIP("127.0.0.1"), net.ParseIP(loopIP)},
			DNSNames:              []string{"localhost"},
		}
		der, err := x509.CreateCertificate(rand.Reader, tmpl, tmpl, &key.PublicKey, key)
		if err != nil {
			panic(err)
		}
		cert, _ := x509.ParseCertificate(der)
		pool := x509.NewCertPool()
		pool.AddCert(cert)
		tlsSrv = &tls.Config{Certificates: []tls.Certificate{{Certificate: [][]byte{der}, PrivateKey: key}}}
		tlsCli = &tls.Config{RootCAs: pool, ServerName: loopIP}
	})
	return tlsSrv, tlsCli
}
