package harness

import (
	"encoding/binary"
	"fmt"
	"time"

	"go.nanomsg.org/mangos/v3"
	"go.nanomsg.org/mangos/v3/protocol/bus"
	"go.nanomsg.org/mangos/v3/protocol/pair"
	"go.nanomsg.org/mangos/v3/protocol/pair1"
	"go.nanomsg.org/mangos/v3/protocol/pub"
	"go.nanomsg.org/mangos/v3/protocol/pull"
	"go.nanomsg.org/mangos/v3/protocol/push"
	"go.nanomsg.org/mangos/v3/protocol/rep"
	"go.nanomsg.org/mangos/v3/protocol/req"
	"go.nanomsg.org/mangos/v3/protocol/respondent"
	"go.nanomsg.org/mangos/v3/protocol/star"
	"go.nanomsg.org/mangos/v3/protocol/sub"
	"go.nanomsg.org/mangos/v3/protocol/surveyor"
	"go.nanomsg.org/mangos/v3/protocol/xbus"
	"go.nanomsg.org/mangos/v3/protocol/xpair"
	"go.nanomsg.org/mangos/v3/protocol/xpair1"
	"go.nanomsg.org/mangos/v3/protocol/xpub"
	"go.nanomsg.org/mangos/v3/protocol/xpull"
	"go.nanomsg.org/mangos/v3/protocol/xpush"
	"go.nanomsg.org/mangos/v3/protocol/xrep"
	"go.nanomsg.org/mangos/v3/protocol/xreq"
	"go.nanomsg.org/mangos/v3/protocol/xrespondent"
	"go.nanomsg.org/mangos/v3/protocol/xstar"
	"go.nanomsg.org/mangos/v3/protocol/xsub"
	"go.nanomsg.org/mangos/v3/protocol/xsurveyor"
	_ "go.nanomsg.org/mangos/v3/transport/inproc"
)

var sockCtors = map[string]func() (mangos.Socket, error){
	"bus": bus.NewSocket, "pair": pair.NewSocket, "pair1": pair1.NewSocket, "pub": pub.NewSocket,
	"pull": pull.NewSocket, "push": push.NewSocket, "rep": rep.NewSocket, "req": req.NewSocket,
	"respondent": respondent.NewSocket, "star": star.NewSocket, "sub": sub.NewSocket,
	"surveyor": surveyor.NewSocket, "xbus": xbus.NewSocket, "xpair": xpair.NewSocket,
	"xpair1": xpair1.NewSocket, "xpub": xpub.NewSocket, "xpull": xpull.NewSocket,
	"xpush": xpush.NewSocket, "xrep": xrep.NewSocket, "xreq": xreq.NewSocket,
	"xrespondent": xrespondent.NewSocket, "xstar": xstar.NewSocket, "xsub": xsub.NewSocket,
	"xsurveyor": xsurveyor.NewSocket,
}

var allKinds = []string{"bus", "pair", "pair1", "pub", "pull", "push", "rep", "req", "respondent", "star", "sub",
	"surveyor", "xbus", "xpair", "xpair1", "xpub", "xpull", "xpush", "xrep", "xreq", "xrespondent", "xstar", "xsub", "xsurveyor"}

// peerKind: the kind of socket that talks to kind (cooked form).
var peerKind = map[string]string{
	"bus": "bus", "xbus": "bus", "pair": "pair", "xpair": "pair", "pair1": "pair1", "xpair1": "pair1",
	"pub": "sub", "xpub": "sub", "sub": "pub", "xsub": "pub", "push": "pull", "xpush": "pull",
	"pull": "push", "xpull": "push", "req": "rep", "xreq": "rep", "rep": "req", "xrep": "req",
	"surveyor": "respondent", "xsurveyor": "respondent", "respondent": "surveyor", "xrespondent": "surveyor",
	"star": "star", "xstar": "star",
}

func (w *W) Sock(kind string) mangos.Socket {
	s, err := sockCtors[kind]()
	if err != nil {
		panic(fmt.Sprintf("NewSocket(%s): %v", kind, err))
	}
	w.socks = append(w.socks, s)
	return s
}

func u32(v uint32) []byte {
	b := make([]byte, 4)
	binary.BigEndian.PutUint32(b, v)
	return b
}

func mustSet(w *W, o interface {
	SetOption(string, interface{}) error
}, name string, v interface{}) {
	if err := o.SetOption(name, v); err != nil {
		w.Failf("HARNESS/setoption", "SetOption(%s,%v): %v", name, v, err)
	}
}

func dur(ns int64) time.Duration { return time.Duration(ns) }

var protoCtors = map[string]func() mangos.ProtocolBase{
	"bus":         func() mangos.ProtocolBase { return bus.NewProtocol() },
	"pair":        func() mangos.ProtocolBase { return pair.NewProtocol() },
	"pair1":       func() mangos.ProtocolBase { return pair1.NewProtocol() },
	"pub":         func() mangos.ProtocolBase { return pub.NewProtocol() },
	"pull":        func() mangos.ProtocolBase { return pull.NewProtocol() },
	"push":        func() mangos.ProtocolBase { return push.NewProtocol() },
	"rep":         func() mangos.ProtocolBase { return rep.NewProtocol() },
	"req":         func() mangos.ProtocolBase { return req.NewProtocol() },
	"respondent":  func() mangos.ProtocolBase { return respondent.NewProtocol() },
	"star":        func() mangos.ProtocolBase { return star.NewProtocol() },
	"sub":         func() mangos.ProtocolBase { return sub.NewProtocol() },
	"surveyor":    func() mangos.ProtocolBase { return surveyor.NewProtocol() },
	"xbus":        func() mangos.ProtocolBase { return xbus.NewProtocol() },
	"xpair":       func() mangos.ProtocolBase { return xpair.NewProtocol() },
	"xpair1":      func() mangos.ProtocolBase { return xpair1.NewProtocol() },
	"xpub":        func() mangos.ProtocolBase { return xpub.NewProtocol() },
	"xpull":       func() mangos.ProtocolBase { return xpull.NewProtocol() },
	"xpush":       func() mangos.ProtocolBase { return xpush.NewProtocol() },
	"xrep":        func() mangos.ProtocolBase { return xrep.NewProtocol() },
	"xreq":        func() mangos.ProtocolBase { return xreq.NewProtocol() },
	"xrespondent": func() mangos.ProtocolBase { return xrespondent.NewProtocol() },
	"xstar":       func() mangos.ProtocolBase { return xstar.NewProtocol() },
	"xsub":        func() mangos.ProtocolBase { return xsub.NewProtocol() },
	"xsurveyor":   func() mangos.ProtocolBase { return xsurveyor.NewProtocol() },
}

// SendBody sends body on s; raw sockets get a well-formed header.
// SendOwn is Socket.Send from a buffer of the caller's that the caller
// overwrites as soon as the call has returned: Send([]byte) copies, so nothing
// sent, queued or retained by the library may depend on that buffer afterwards.
func SendOwn(s interface{ Send([]byte) error }, body []byte) error {
	scratch := append(make([]byte, 0, len(body)+16), body...)
	err := s.Send(scratch)
	for i := range scratch {
		scratch[i] = '#'
	}
	return err
}

func SendBody(s mangos.Socket, kind string, body []byte) error {
	if !isRaw(kind) {
		return SendOwn(s, body)
	}
	m := mangos.NewMessage(len(body))
	m.Body = append(m.Body, body...)
	m.Header = append(m.Header, rawHeader(kind, 1, 1)...)
	err := s.SendMsg(m)
	if err != nil {
		m.Free()
	}
	return err
}
