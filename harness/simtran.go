package harness

// sim:// and simipc:// — stream transports over simnet. They are stand-ins
// for transport/tcp and transport/ipc: the endpoint plumbing (dial, listen,
// accept loop, option get/set) mirrors tcp.go's structure around the same
// transport.NewConnPipe / NewConnPipeIPC / NewConnHandshaker calls, so the
// real SP handshake and framing code (transport/conn.go, connipc_posix.go,
// handshaker) runs over the simulated net.Conn.

import (
	"strings"
	"time"

	"go.nanomsg.org/mangos/v3"
	"go.nanomsg.org/mangos/v3/transport"
	sync "go.nanomsg.org/mangos/v3/verifsim/ssync"

	"go.nanomsg.org/mangos/v3/verifsim/simrt"
	"go.nanomsg.org/mangos/v3/verifsim/snet"
)

// curNet is the network of the current run (one run at a time per process).
var curNet *Net

func (w *W) UseNet(cfg NetCfg) *Net {
	n := NewNet(w)
	n.Cfg = cfg
	curNet = n
	if !w.Real {
		snet.SetBackend(netBackend{n})
	}
	return n
}

type simTran struct {
	scheme string
	ipc    bool
}

func init() {
	transport.RegisterTransport(simTran{"sim", false})
	transport.RegisterTransport(simTran{"simipc", true})
}

func (t simTran) Scheme() string { return t.scheme }

type simDialer struct {
	t           simTran
	addr        string
	proto       transport.ProtocolInfo
	hs          transport.Handshaker
	maxRecvSize int
	lock        sync.Mutex
	net         *Net
}

func (t simTran) newPipe(c *NetConn, proto transport.ProtocolInfo) transport.ConnPipe {
	if t.ipc {
		return transport.NewConnPipeIPC(c, proto)
	}
	return transport.NewConnPipe(c, proto)
}

func (d *simDialer) Dial() (transport.Pipe, error) {
	conn, err := d.net.Dial(d.addr)
	if err != nil {
		return nil, err
	}
	p := d.t.newPipe(conn, d.proto)
	d.lock.Lock()
	p.SetOption(mangos.OptionMaxRecvSize, d.maxRecvSize)
	d.lock.Unlock()
	d.hs.Start(p)
	return d.hs.Wait()
}

func (d *simDialer) SetOption(n string, v interface{}) error {
	d.lock.Lock()
	defer d.lock.Unlock()
	switch n {
	case mangos.OptionMaxRecvSize:
		if b, ok := v.(int); ok && b >= 0 {
			d.maxRecvSize = b
			return nil
		}
		return mangos.ErrBadValue
	}
	return mangos.ErrBadOption
}

func (d *simDialer) GetOption(n string) (interface{}, error) {
	d.lock.Lock()
	defer d.lock.Unlock()
	switch n {
	case mangos.OptionMaxRecvSize:
		return d.maxRecvSize, nil
	}
	return nil, mangos.ErrBadOption
}

type simListener struct {
	t           simTran
	addr        string
	proto       transport.ProtocolInfo
	l           *NetListener
	maxRecvSize int
	handshaker  transport.Handshaker
	closeq      chan struct{}
	once        sync.Once
	lock        sync.Mutex
	net         *Net
}

func (l *simListener) Accept() (transport.Pipe, error) {
	if l.l == nil {
		return nil, mangos.ErrClosed
	}
	return l.handshaker.Wait()
}

func (l *simListener) Listen() (err error) {
	select {
	case <-l.closeq:
		return mangos.ErrClosed
	default:
	}
	l.l, err = l.net.Listen(l.addr)
	if err != nil {
		return
	}
	simrt.Go("H:tran:sim-accept", func() {
		for {
			conn, err := l.l.AcceptSim()
			if err != nil {
				select {
				case <-l.closeq:
					return
				default:
					simrt.Sleep(time.Millisecond)
					continue
				}
			}
			p := l.t.newPipe(conn, l.proto)
			l.lock.Lock()
			p.SetOption(mangos.OptionMaxRecvSize, l.maxRecvSize)
			l.lock.Unlock()
			l.handshaker.Start(p)
		}
	})
	return
}

func (l *simListener) Address() string { return l.t.scheme + "://" + l.addr }

func (l *simListener) Close() error {
	l.once.Do(func() {
		close(l.closeq)
		if l.l != nil {
			_ = l.l.Close()
		}
		l.handshaker.Close()
	})
	return nil
}

func (l *simListener) SetOption(n string, v interface{}) error {
	l.lock.Lock()
	defer l.lock.Unlock()
	switch n {
	case mangos.OptionMaxRecvSize:
		if b, ok := v.(int); ok && b >= 0 {
			l.maxRecvSize = b
			return nil
		}
		return mangos.ErrBadValue
	}
	return mangos.ErrBadOption
}

func (l *simListener) GetOption(n string) (interface{}, error) {
	l.lock.Lock()
	defer l.lock.Unlock()
	switch n {
	case mangos.OptionMaxRecvSize:
		return l.maxRecvSize, nil
	}
	return nil, mangos.ErrBadOption
}

func (t simTran) NewDialer(addr string, sock mangos.Socket) (transport.Dialer, error) {
	if !strings.HasPrefix(addr, t.scheme+"://") {
		return nil, mangos.ErrBadTran
	}
	addr = addr[len(t.scheme)+3:]
	if addr == "" {
		return nil, mangos.ErrBadAddr
	}
	return &simDialer{t: t, addr: addr, proto: sock.Info(), hs: transport.NewConnHandshaker(), net: curNet}, nil
}

func (t simTran) NewListener(addr string, sock mangos.Socket) (transport.Listener, error) {
	if !strings.HasPrefix(addr, t.scheme+"://") {
		return nil, mangos.ErrBadTran
	}
	addr = addr[len(t.scheme)+3:]
	if addr == "" {
		return nil, mangos.ErrBadAddr
	}
	l := &simListener{t: t, addr: addr, proto: sock.Info(), closeq: make(chan struct{}), net: curNet}
	l.handshaker = transport.NewConnHandshaker()
	return l, nil
}
