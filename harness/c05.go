package harness

import (
	"bytes"
	"fmt"
	"strings"
	"time"

	"go.nanomsg.org/mangos/v3"
	"go.nanomsg.org/mangos/v3/verifsim/simrt"
)

// C05: replies go back along the path of their request.

type c5Req struct {
	n              int
	tag            string
	pipe           *MsgPipe
	bt             []byte // backtrace as injected
	depth          int
	at             time.Duration
	taken          bool // delivered to the application
	sent           bool // the application replied
	sendAt         time.Duration
	pipeOpenAtSend bool
}

type c5Ctx struct {
	idx       int
	c         mangos.Context
	pending   *c5Req
	maybeNone bool // respondent-style: a failed Recv may have dropped pending
	rawHdr    []byte
}

func c05Run(w *W) {
	kind := []string{"rep", "xrep", "respondent", "xrespondent"}[w.Choose(simrt.SShape, 4)]
	raw := isRaw(kind)
	npipes := 1 + w.Choose(simrt.SShape, 3)
	nctx := 1
	if !raw {
		nctx = 1 + w.Choose(simrt.SShape, 3)
	}
	nops := 4 + w.Choose(simrt.SShape, 14)
	w.SetShape("kind", kind)
	w.SetShape("pipes", npipes)
	w.SetShape("ctxs", nctx)
	// the hop limit: the default (8), or one the application set - requests
	// come with backtraces up to that depth and their replies carry all of it
	ttl := 8
	mn := w.UseMsgNet()
	addr := w.Addr("msg")
	s := w.Sock(kind)
	defer s.Close()
	if t := []int{0, 0, 3, 9, 12, 40, 255}[w.Choose(simrt.SShape, 7)]; t > 0 {
		mustSet(w, s, mangos.OptionTTL, t)
		ttl = t
		w.SetShape("ttl", t)
		if t > 8 {
			w.Probe("hop-limit-above-default")
		}
	}
	mustSet(w, s, mangos.OptionRecvDeadline, 10*time.Millisecond)
	mustSet(w, s, mangos.OptionSendDeadline, 10*time.Millisecond)
	if err := s.Listen(addr); err != nil {
		w.Failf("HARNESS/listen", "%v", err)
		return
	}
	var pipes []*MsgPipe
	byTag := map[string]*c5Req{}
	var reqs []*c5Req
	var wire []WireMsg
	for i := 0; i < npipes; i++ {
		mn.ConnectWith(addr, func(p *MsgPipe) {
			pipes = append(pipes, p)
			p.OnSend = func(m WireMsg) { wire = append(wire, m) }
		})
	}
	w.Settle()
	ctxs := []*c5Ctx{{idx: 0}}
	for i := 1; i < nctx; i++ {
		c, err := s.OpenContext()
		if err != nil {
			w.Failf("HARNESS/ctx", "%v", err)
			return
		}
		_ = c.SetOption(mangos.OptionRecvDeadline, 10*time.Millisecond)
		_ = c.SetOption(mangos.OptionSendDeadline, 10*time.Millisecond)
		ctxs = append(ctxs, &c5Ctx{idx: i, c: c})
	}
	recvMsg := func(c *c5Ctx) (*mangos.Message, error) {
		if c.c != nil {
			return c.c.RecvMsg()
		}
		return s.RecvMsg()
	}
	sendMsg := func(c *c5Ctx, m *mangos.Message) error {
		if c.c != nil {
			return c.c.SendMsg(m)
		}
		return s.SendMsg(m)
	}
	wireSeen := 0
	checkWire := func() {
		for ; wireSeen < len(wire); wireSeen++ {
			m := wire[wireSeen]
			raw := m.Bytes()
			i := bytes.LastIndex(raw, []byte("re:")) // the last one: random backtrace words may spell "re:" too
			if i < 0 {
				w.Failf("C05/invented-transmission", "%s transmitted %x on %s, which is no reply the application sent", kind, raw, m.Pipe.Name)
				return
			}
			tag := string(raw[i+3:])
			q := byTag[tag]
			if q == nil || !q.sent {
				w.Failf("C05/invented-transmission", "%s transmitted a reply %q on %s that the application never sent", kind, tag, m.Pipe.Name)
				return
			}
			if m.Pipe != q.pipe {
				w.Failf("C05/reply-on-wrong-pipe", "%s: the reply to request %s (arrived on %s) was transmitted on %s", kind, q.tag, q.pipe.Name, m.Pipe.Name)
				return
			}
			if !bytes.Equal(raw[:i], q.bt) {
				w.Failf("C05/wrong-routing-header", "%s: the reply to request %s carries header %x, the request carried %x", kind, q.tag, raw[:i], q.bt)
				return
			}
			q.sent = false // at most one transmission per application reply
			w.Delivery++
		}
	}
	nreq := 0
	for op := 0; op < nops && !w.Failed(); op++ {
		k := w.Choose(simrt.SProg, 11)
		a := w.Choose(simrt.SProg, 64)
		c := ctxs[a%len(ctxs)]
		switch {
		case k == 10:
			// a new client connects (possibly right after another one left,
			// while replies to the one that left are still to be sent)
			if len(pipes) < 8 {
				np := mn.ConnectWith(addr, func(p *MsgPipe) {
					pipes = append(pipes, p)
					p.OnSend = func(m WireMsg) { wire = append(wire, m) }
				})
				if np != nil {
					w.Op("new peer %s connects", np.Name)
					w.Probe("peer-connects-mid-history")
				}
			}
		case k <= 3: // a peer sends a request
			var open []*MsgPipe
			for _, p := range pipes {
				if p.Open() {
					open = append(open, p)
				}
			}
			if len(open) == 0 {
				continue
			}
			p := open[(a/4)%len(open)]
			depth := []int{1, 1, 2, 3, ttl - 1, ttl}[w.Choose(simrt.SProg, 6)]
			if depth < 1 {
				depth = 1
			}
			if depth > ttl {
				depth = ttl
			}
			var bt []byte
			for j := 0; j < depth; j++ {
				word := uint32(w.Choose(simrt.SProg, 1<<30)) & 0x7fffffff
				if j == depth-1 {
					word |= 0x80000000
				}
				bt = append(bt, u32(word)...)
			}
			nreq++
			q := &c5Req{n: nreq, tag: fmt.Sprintf("q%d", nreq), pipe: p, bt: bt, depth: depth, at: w.Now()}
			reqs = append(reqs, q)
			byTag[q.tag] = q
			w.Op("peer %s sends request %s with backtrace depth %d", p.Name, q.tag, depth)
			p.Inject(append(append([]byte(nil), bt...), q.tag...))
		case k <= 5: // the application receives
			call := w.Do(fmt.Sprintf("ctx%d.RecvMsg", c.idx), func() (interface{}, error) { return recvMsg(c) })
			w.Settle()
			if !call.Returned() {
				call.Wait(50 * time.Millisecond)
				w.Settle()
			}
			if !call.Returned() {
				w.Failf("C18/late", "%s RecvMsg with 10ms deadline still pending", kind)
				return
			}
			if call.Err != nil {
				w.Op("ctx%d Recv -> %v", c.idx, call.Err)
				if c.pending != nil {
					c.maybeNone = true
				}
				continue
			}
			m := call.Val.(*mangos.Message)
			tag := string(m.Body)
			q := byTag[tag]
			if q == nil {
				w.Failf("C05/invented-request", "%s delivered a request with body %q that no peer sent", kind, m.Body)
				return
			}
			if q.taken {
				w.Failf("C05/request-delivered-twice", "%s delivered request %s twice", kind, q.tag)
				return
			}
			q.taken = true
			if raw {
				// header = pipe id + backtrace
				if len(m.Header) < 4 || !bytes.Equal(m.Header[4:], q.bt) {
					w.Failf("C05/raw-header", "%s: raw header %x is not <pipe id> + backtrace %x", kind, m.Header, q.bt)
					return
				}
				if m.Pipe == nil || !bytes.Equal(m.Header[:4], u32(m.Pipe.ID())) {
					w.Failf("C05/raw-header", "%s: raw header %x does not start with the id of the arrival pipe", kind, m.Header)
					return
				}
				c.rawHdr = append([]byte(nil), m.Header...)
			} else if len(m.Header) != 0 {
				w.Failf("C05/cooked-header-leak", "%s delivered a request with a non-empty header %x in cooked mode", kind, m.Header)
				return
			}
			c.pending, c.maybeNone = q, false
			w.Op("ctx%d Recv -> %s", c.idx, q.tag)
			m.Free()
			w.Delivery++
		case k <= 7: // the application replies
			q := c.pending
			body := "re:none"
			if q != nil {
				body = "re:" + q.tag
			}
			m := mangos.NewMessage(len(body))
			m.Body = append(m.Body, body...)
			if raw {
				if q == nil {
					continue
				}
				if len(c.rawHdr) >= 4 && w.Choose(simrt.SProg, 6) == 0 {
					// a raw reply whose header has no pipe hop at all: a single
					// word with the top bit set (a request / survey id), whose
					// lower 31 bits happen to equal the id of a connected pipe.
					// It names no connection and is discarded
					m.Free()
					x := mangos.NewMessage(16)
					x.Header = append(x.Header, c.rawHdr[0]|0x80, c.rawHdr[1], c.rawHdr[2], c.rawHdr[3])
					x.Body = append(x.Body, "re:nohop"...)
					before := len(wire)
					w.Fault("msg-malformed")
					xc := w.Do(fmt.Sprintf("ctx%d.SendMsg(header without a pipe hop)", c.idx), func() (interface{}, error) { return nil, sendMsg(c, x) })
					w.Settle()
					if xc.Returned() && xc.Err != nil {
						x.Free()
					}
					if len(wire) != before {
						w.Failf("C05/reply-without-pipe-hop-delivered", "%s: a raw reply with the one-word header %x (top bit set: an id, not a pipe) was transmitted on %s", kind, x.Header, wire[before].Pipe.Name)
						return
					}
					w.Probe("raw-reply-without-pipe-hop-discarded")
					continue
				}
				m.Header = append(m.Header, c.rawHdr...)
			} else if w.Choose(simrt.SProg, 4) == 0 {
				// the reply message still carries a header from wherever the
				// application got it (a message it received on another socket):
				// a cooked socket sends exactly the request's routing header
				m.Header = append(m.Header, u32(0x80000000|uint32(w.Choose(simrt.SProg, 1<<20)))...)
				if w.Choose(simrt.SProg, 2) == 0 {
					m.Header = append(m.Header, u32(uint32(w.Choose(simrt.SProg, 1<<20)))...)
				}
				w.Probe("reply-message-carries-a-foreign-header")
			}
			if q != nil {
				q.pipeOpenAtSend = q.pipe.Open()
			}
			// a server with a dedicated receiving goroutine: a Recv is already
			// waiting on the context (nothing to receive: it ends at its
			// deadline) when the reply to the last received request is sent
			var recvBeside *Call
			if kind == "rep" && q != nil && !c.maybeNone && w.Choose(simrt.SProg, 4) == 0 {
				untaken := 0
				for _, x := range reqs {
					if !x.taken {
						untaken++
					}
				}
				if untaken == 0 {
					recvBeside = w.Do(fmt.Sprintf("ctx%d.RecvMsg(beside the reply)", c.idx), func() (interface{}, error) { return recvMsg(c) })
					for k := w.Choose(simrt.SProg, 6); k > 0; k-- {
						simrt.Yield()
					}
					w.Probe("reply-sent-while-a-recv-waits")
				}
			}
			call := w.Do(fmt.Sprintf("ctx%d.SendMsg", c.idx), func() (interface{}, error) { return nil, sendMsg(c, m) })
			// now and then two goroutines answer the same request at once: in
			// any order of the two, the second one has no request pending
			var call2 *Call
			var m2 *mangos.Message
			if !raw && q != nil && a%4 == 3 {
				m2 = mangos.NewMessage(len(body))
				m2.Body = append(m2.Body, body...)
				call2 = w.Do(fmt.Sprintf("ctx%d.SendMsg(second goroutine)", c.idx), func() (interface{}, error) { return nil, sendMsg(c, m2) })
			}
			w.Settle()
			if recvBeside != nil {
				// (the Recv beside the reply ends at its deadline, before anything else happens)
				recvBeside.Wait(50 * time.Millisecond)
				w.Settle()
				if !recvBeside.Returned() {
					w.Failf("C18/late", "%s RecvMsg with 10ms deadline still pending", kind)
					return
				}
				if recvBeside.Err == nil {
					recvBeside.Val.(*mangos.Message).Free()
				}
			}
			if !call.Returned() || (call2 != nil && !call2.Returned()) {
				call.Wait(50 * time.Millisecond)
				if call2 != nil {
					call2.Wait(50 * time.Millisecond)
				}
				w.Settle()
			}
			if !call.Returned() || (call2 != nil && !call2.Returned()) {
				w.Failf("C18/late", "%s SendMsg with 10ms deadline still pending", kind)
				return
			}
			if call2 != nil {
				w.Op("ctx%d two concurrent Sends of %s -> %v, %v", c.idx, body, errName(call.Err), errName(call2.Err))
				w.Probe("two-goroutines-answer-one-request")
				if call.Err == nil && call2.Err == nil {
					w.Failf("C05/two-replies-to-one-request", "%s ctx%d received request %s once; two goroutines then called Send at the same time and both succeeded - in either order the second had no request pending", kind, c.idx, q.tag)
					return
				}
				// carry on with whichever succeeded
				if call.Err != nil && call2.Err == nil {
					m.Free()
					call, m = call2, m2
				} else {
					m2.Free()
				}
			}
			w.Op("ctx%d Send %s -> %v", c.idx, body, errName(call.Err))
			if q == nil {
				if call.Err != mangos.ErrProtoState {
					w.Failf("C05/send-without-request", "%s: Send with no request pending returned %v", kind, errName(call.Err))
					return
				}
				w.Probe("send-without-request")
				m.Free()
				continue
			}
			if call.Err == mangos.ErrProtoState && c.maybeNone {
				c.pending = nil
				m.Free()
				continue
			}
			if call.Err == mangos.ErrProtoState && call2 == nil {
				w.Failf("C05/reply-refused", "%s ctx%d: request %s was received and not answered yet; Send returned the protocol-state error%s", kind, c.idx, q.tag, map[bool]string{true: " (a Recv on the same context was in progress)", false: ""}[recvBeside != nil])
				return
			}
			if call.Err != nil {
				// a send may fail only with closed/timeouts; the message stays ours
				m.Free()
				c.pending = nil
				continue
			}
			q.sent, q.sendAt = true, w.Now()
			c.pending = nil
			w.Settle()
			before := wireSeen
			checkWire()
			if w.Failed() {
				return
			}
			if q.pipeOpenAtSend && q.pipe.Open() && wireSeen == before && q.sent {
				w.Failf("C05/reply-not-transmitted", "%s: the application replied to %s, its pipe %s is open, but nothing was transmitted", kind, q.tag, q.pipe.Name)
				return
			}
			if !q.pipeOpenAtSend {
				w.Probe("reply-to-gone-pipe-discarded")
			}
		case k == 8: // a requesting connection goes away
			var open []*MsgPipe
			for _, p := range pipes {
				if p.Open() {
					open = append(open, p)
				}
			}
			if len(open) < 1 {
				continue
			}
			p := open[a%len(open)]
			for _, cx := range ctxs {
				if cx.pending != nil && cx.pending.pipe == p {
					w.Probe("pipe-closed-between-recv-and-send")
				}
			}
			w.Op("peer %s goes away", p.Name)
			w.Fault("close")
			p.ClosePeer()
		case k == 9 && !raw && a%2 == 0 && len(ctxs) < 5:
			// a context opened in the middle of the history (other contexts,
			// the socket's own one included, may hold unanswered requests):
			// it starts with no request of its own
			nc, err := s.OpenContext()
			if err != nil {
				w.Failf("C05/open-context", "%s OpenContext: %v", kind, err)
				return
			}
			_ = nc.SetOption(mangos.OptionRecvDeadline, 10*time.Millisecond)
			_ = nc.SetOption(mangos.OptionSendDeadline, 10*time.Millisecond)
			cx := &c5Ctx{idx: len(ctxs), c: nc}
			ctxs = append(ctxs, cx)
			w.Op("open context ctx%d", cx.idx)
			w.Probe("context-opened-mid-history")
			if a&4 != 0 {
				m := mangos.NewMessage(8)
				m.Body = append(m.Body, "re:none"...)
				call := w.Do(fmt.Sprintf("ctx%d.SendMsg", cx.idx), func() (interface{}, error) { return nil, nc.SendMsg(m) })
				call.Wait(50 * time.Millisecond)
				w.Settle()
				if !call.Returned() {
					w.Failf("C18/late", "%s SendMsg with 10ms deadline still pending", kind)
					return
				}
				w.Op("ctx%d Send re:none -> %v", cx.idx, errName(call.Err))
				if call.Err != mangos.ErrProtoState {
					w.Failf("C05/send-without-request", "%s: Send on a context that never received a request returned %v", kind, errName(call.Err))
					return
				}
				m.Free()
			}
		case k == 9:
			w.Sleep(time.Duration(1+a) * time.Millisecond)
		}
		w.Settle()
		checkWire()
	}
	w.Settle()
	checkWire()
	if w.Failed() {
		return
	}
	// every in-limit request whose pipe stayed open must be deliverable
	drained := 0
	for i := 0; i < len(reqs)+2 && drained < 64; i++ {
		call := w.Do("drain.RecvMsg", func() (interface{}, error) { return recvMsg(ctxs[0]) })
		call.Wait(50 * time.Millisecond)
		w.Settle()
		if !call.Returned() || call.Err != nil {
			break
		}
		m := call.Val.(*mangos.Message)
		if q := byTag[string(m.Body)]; q != nil {
			if q.taken {
				w.Failf("C05/request-delivered-twice", "%s delivered request %s twice", kind, q.tag)
				return
			}
			q.taken = true
		} else {
			w.Failf("C05/invented-request", "%s delivered a request with body %q that no peer sent", kind, m.Body)
			return
		}
		m.Free()
		drained++
	}
	for _, q := range reqs {
		if !q.taken && q.pipe.Open() && q.pipe.Pending() == 0 {
			key := "C09/in-limit-dropped:" + kind
			if q.depth < ttl {
				key = "C05/request-lost:" + kind
			}
			w.Failf(key, "%s (TTL %d): request %s with backtrace depth %d (crossed %d connections) on the open pipe %s was never delivered", kind, ttl, q.tag, q.depth, q.depth, q.pipe.Name)
			return
		}
	}
	_ = strings.TrimSpace
}

func init() {
	register(&Scenario{Name: "reply-routing", Prop: "C05", Horizon: time.Hour, Run: c05Run})
}
