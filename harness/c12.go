package harness

import (
	"crypto/tls"
	"fmt"
	"time"

	"go.nanomsg.org/mangos/v3"
	_ "go.nanomsg.org/mangos/v3/transport/all"
	"go.nanomsg.org/mangos/v3/verifsim/simrt"
)

// C12: after any API call returned — with or without an error — every other
// call still completes. Random programs over one socket in which error
// outcomes are provoked on purpose, followed by other calls from other tasks.
// Decided by: the lock-balance invariant at every API return (world.go), the
// wedge report (a task waiting for a sim mutex whose holder's API call has
// returned / has exited / is in a cycle), and "every call with a deadline has
// returned by deadline + settle".

type c12 struct {
	w      *W
	kind   string
	s      mangos.Socket
	mn     *MsgNet
	calls  []*Call
	bound  time.Duration
}

// do issues a call that must return within c.bound of simulated time.
func (c *c12) do(label string, fn func() (interface{}, error)) *Call {
	w := c.w
	call := w.Do(label, fn)
	c.calls = append(c.calls, call)
	w.Settle()
	if !call.Returned() {
		call.Wait(c.bound)
		w.Settle()
	}
	if !call.Returned() && !w.Failed() {
		if w.WedgeCheck("C12") {
			return call
		}
		w.Failf("C12/call-never-returns:"+label, "%s has not returned %v after it was invoked (no documented reason to block)", label, w.Now()-call.InvTime)
	}
	w.Op("%s -> %v", label, errName(call.Err))
	return call
}

func c12Run(w *W) {
	kind := allKinds[w.Choose(simrt.SShape, len(allKinds))]
	w.SetShape("kind", kind)
	c := &c12{w: w, kind: kind, bound: 2 * time.Second}
	c.mn = w.UseMsgNet()
	c.s = w.Sock(kind)
	s := c.s
	_ = s.SetOption(mangos.OptionRecvDeadline, 20*time.Millisecond)
	_ = s.SetOption(mangos.OptionSendDeadline, 20*time.Millisecond)
	nblocks := 2 + w.Choose(simrt.SShape, 5)
	var seen []string
	for bi := 0; bi < nblocks && !w.Failed(); bi++ {
		blk := w.Choose(simrt.SProg, 11)
		seen = append(seen, fmt.Sprint(blk))
		switch blk {
		case 0: // bad scheme
			c.do("Listen(bogus)", func() (interface{}, error) { return nil, s.Listen("bogus://x") })
			c.do("Dial(bogus)", func() (interface{}, error) { return nil, s.Dial("bogus://x") })
			w.Probe("err-bad-transport")
		case 1: // address in use, then corrected retry
			a := w.Addr("msg")
			l1, err := s.NewListener(a, nil)
			if err != nil {
				w.Failf("HARNESS/newlistener", "%v", err)
				return
			}
			c.do("l1.Listen", func() (interface{}, error) { return nil, l1.Listen() })
			r := c.do("l1.Listen(again)", func() (interface{}, error) { return nil, l1.Listen() })
			if r.Err != mangos.ErrAddrInUse && r.Returned() {
				w.Failf("C12/second-listen-accepted", "Listen twice on one listener returned %v", errName(r.Err))
			}
			r2 := c.do("Socket.Listen(same addr)", func() (interface{}, error) { return nil, s.Listen(a) })
			if r2.Returned() && r2.Err == nil {
				w.Failf("C12/second-listen-accepted", "a second listener on the same address was accepted")
			}
			w.Probe("err-addr-in-use")
			c.do("l1.GetOption", func() (interface{}, error) { return l1.GetOption(mangos.OptionMaxRecvSize) })
			c.do("l1.Close", func() (interface{}, error) { return nil, l1.Close() })
			// corrected retry on a fresh address works and accepts
			b := w.Addr("msg")
			r3 := c.do("Socket.Listen(fresh addr)", func() (interface{}, error) { return nil, s.Listen(b) })
			if r3.Returned() && r3.Err != nil {
				w.Failf("C12/retry-failed", "Listen on a fresh address after an address-in-use failure: %v", r3.Err)
			}
			if p := c.mn.Connect(b); p == nil && !w.Failed() {
				w.Failf("C12/retry-failed", "nobody accepts on the fresh address")
			}
		case 2: // refused synchronous dial, then retry when the peer is there
			a := w.Addr("msg")
			ep := c.mn.Endpoint(a)
			ep.Plan = []string{"refuse"}
			ep.OnPipe = func(p *MsgPipe) {}
			d, err := s.NewDialer(a, map[string]interface{}{mangos.OptionDialAsynch: false})
			if err != nil {
				w.Failf("HARNESS/newdialer", "%v", err)
				return
			}
			r := c.do("d.Dial(refused)", func() (interface{}, error) { return nil, d.Dial() })
			if r.Returned() && r.Err == nil {
				w.Failf("HARNESS/plan", "dial was expected to be refused")
			}
			w.Probe("err-conn-refused")
			c.do("d.GetOption", func() (interface{}, error) { return d.GetOption(mangos.OptionReconnectTime) })
			c.do("d.SetOption", func() (interface{}, error) { return nil, d.SetOption(mangos.OptionReconnectTime, 5*time.Millisecond) })
			r2 := c.do("d.Dial(retry)", func() (interface{}, error) { return nil, d.Dial() })
			if r2.Returned() && r2.Err != nil {
				w.Failf("C12/dial-retry-refused", "the peer is reachable now but retrying Dial on the same dialer returned %v", r2.Err)
			}
			c.do("d.Close", func() (interface{}, error) { return nil, d.Close() })
		case 3: // tls+tcp listener without configuration, corrected step by step
			l, err := s.NewListener("tls+tcp://127.0.0.1:0", nil)
			if err != nil {
				w.Failf("HARNESS/newlistener", "tls+tcp: %v", err)
				return
			}
			r := c.do("tls.Listen(no config)", func() (interface{}, error) { return nil, l.Listen() })
			if r.Returned() && r.Err == nil {
				w.Failf("HARNESS/tls", "Listen without TLS config succeeded")
			}
			w.Probe("err-tls-no-config")
			c.do("tls.SetOption(TLSConfig)", func() (interface{}, error) { return nil, l.SetOption(mangos.OptionTLSConfig, &tls.Config{}) })
			c.do("tls.GetOption(TLSConfig)", func() (interface{}, error) { return l.GetOption(mangos.OptionTLSConfig) })
			r2 := c.do("tls.Listen(no cert)", func() (interface{}, error) { return nil, l.Listen() })
			if r2.Returned() && r2.Err == nil {
				w.Failf("HARNESS/tls", "Listen without certificate succeeded")
			}
			w.Probe("err-tls-no-cert")
			c.do("tls.SetOption(MaxRecvSize)", func() (interface{}, error) { return nil, l.SetOption(mangos.OptionMaxRecvSize, 1000) })
			c.do("tls.Close", func() (interface{}, error) { return nil, l.Close() })
		case 4: // wss listener without configuration
			l, err := s.NewListener("wss://127.0.0.1:0/verif", nil)
			if err != nil {
				w.Failf("HARNESS/newlistener", "wss: %v", err)
				return
			}
			c.do("wss.Listen(no config)", func() (interface{}, error) { return nil, l.Listen() })
			c.do("wss.SetOption(TLSConfig)", func() (interface{}, error) { return nil, l.SetOption(mangos.OptionTLSConfig, &tls.Config{}) })
			c.do("wss.Listen(no cert)", func() (interface{}, error) { return nil, l.Listen() })
			c.do("wss.GetOption", func() (interface{}, error) { return l.GetOption(mangos.OptionTLSConfig) })
			c.do("wss.Close", func() (interface{}, error) { return nil, l.Close() })
			w.Probe("err-wss-no-config")
		case 5: // ipc listener on an impossible path; tcp on a bad address
			l, err := s.NewListener("ipc:///nonexistent-verif-dir/x.sock", nil)
			if err == nil {
				c.do("ipc.Listen(bad path)", func() (interface{}, error) { return nil, l.Listen() })
				c.do("ipc.GetOption", func() (interface{}, error) { return l.GetOption(mangos.OptionMaxRecvSize) })
				c.do("ipc.Listen(again)", func() (interface{}, error) { return nil, l.Listen() })
				c.do("ipc.Close", func() (interface{}, error) { return nil, l.Close() })
			}
			c.do("NewListener(tcp bad)", func() (interface{}, error) { _, e := s.NewListener("tcp://127.0.0.1:99999", nil); return nil, e })
			c.do("NewDialer(tcp bad)", func() (interface{}, error) { _, e := s.NewDialer("tcp://127.0.0.1:99999", nil); return nil, e })
			c.do("NewListener(ws bad)", func() (interface{}, error) { _, e := s.NewListener("ws://%zz", nil); return nil, e })
			w.Probe("err-bad-address")
		case 6: // inproc: refused, duplicate listen
			a := w.Addr("inproc")
			c.do("inproc.Dial(no listener)", func() (interface{}, error) {
				return nil, s.DialOptions(a, map[string]interface{}{mangos.OptionDialAsynch: false})
			})
			c.do("inproc.Listen", func() (interface{}, error) { return nil, s.Listen(a) })
			c.do("inproc.Listen(dup)", func() (interface{}, error) { return nil, s.Listen(a) })
			w.Probe("err-inproc")
		case 7: // timeouts / protocol errors on the data path
			if canSend(kind) {
				for i := 0; i < 3; i++ {
					c.do("Send", func() (interface{}, error) { return nil, s.Send([]byte("x")) })
				}
			} else {
				c.do("Send(unsupported)", func() (interface{}, error) { return nil, s.Send([]byte("x")) })
			}
			c.do("Recv", func() (interface{}, error) { return s.Recv() })
			w.Probe("err-data-path")
		case 8: // bad option values
			c.do("SetOption(bad type)", func() (interface{}, error) { return nil, s.SetOption(mangos.OptionRecvDeadline, "soon") })
			c.do("SetOption(unknown)", func() (interface{}, error) { return nil, s.SetOption("NO-SUCH-OPTION", 1) })
			c.do("SetOption(MaxRecvSize -1)", func() (interface{}, error) { return nil, s.SetOption(mangos.OptionMaxRecvSize, -1) })
			c.do("GetOption(unknown)", func() (interface{}, error) { return s.GetOption("NO-SUCH-OPTION") })
			w.Probe("err-bad-option")
		case 9: // contexts
			cx, err := s.OpenContext()
			if err != nil {
				c.do("OpenContext(again)", func() (interface{}, error) { _, e := s.OpenContext(); return nil, e })
				continue
			}
			_ = cx.SetOption(mangos.OptionRecvDeadline, 10*time.Millisecond)
			_ = cx.SetOption(mangos.OptionSendDeadline, 10*time.Millisecond)
			c.do("ctx.Recv", func() (interface{}, error) { return cx.Recv() })
			c.do("ctx.Send", func() (interface{}, error) { return nil, cx.Send([]byte("x")) })
			c.do("ctx.Close", func() (interface{}, error) { return nil, cx.Close() })
			c.do("ctx.Close(again)", func() (interface{}, error) { return nil, cx.Close() })
			c.do("ctx.Recv(closed)", func() (interface{}, error) { return cx.Recv() })
			c.do("ctx.Send(closed)", func() (interface{}, error) { return nil, cx.Send([]byte("x")) })
			w.Probe("err-context")
		case 10: // connections rejected or lost, then the listener must still accept
			a := w.Addr("msg")
			rejectNext := 1 + w.Choose(simrt.SProg, 2)
			n := 0
			old := s.SetPipeEventHook(func(ev mangos.PipeEvent, p mangos.Pipe) {
				if ev == mangos.PipeEventAttaching && n < rejectNext {
					n++
					w.Fault("reject-hook")
					_ = p.Close()
				}
			})
			c.do("Listen", func() (interface{}, error) { return nil, s.Listen(a) })
			for i := 0; i < rejectNext; i++ {
				c.mn.Connect(a)
				w.Settle()
			}
			if w.WedgeCheck("C12") {
				return
			}
			good := c.mn.Connect(a)
			w.Settle()
			if w.WedgeCheck("C12") {
				return
			}
			if good != nil && w.Choose(simrt.SProg, 2) == 0 {
				w.Fault("close")
				good.ClosePeer()
				w.Settle()
			}
			s.SetPipeEventHook(old)
			c.do("GetOption after rejections", func() (interface{}, error) { return s.GetOption(mangos.OptionMaxRecvSize) })
			w.Probe("err-rejected-pipe")
		}
		if w.WedgeCheck("C12") {
			return
		}
	}
	w.SetShape("blocks", fmt.Sprint(seen))
	if w.Failed() {
		return
	}
	// follow-ups from other tasks, all at once, then Close
	var fl []*Call
	fl = append(fl, w.Do("GetOption", func() (interface{}, error) { return s.GetOption(mangos.OptionMaxRecvSize) }))
	fl = append(fl, w.Do("SetOption", func() (interface{}, error) { return nil, s.SetOption(mangos.OptionMaxRecvSize, 4096) }))
	fl = append(fl, w.Do("Recv", func() (interface{}, error) { return s.Recv() }))
	fl = append(fl, w.Do("Send", func() (interface{}, error) { return nil, s.Send([]byte("y")) }))
	w.Sleep(c.bound)
	w.Settle()
	cl := w.Do("Close", func() (interface{}, error) { return nil, s.Close() })
	fl = append(fl, cl)
	w.Sleep(c.bound)
	w.Settle()
	for _, f := range fl {
		if !f.Returned() && !w.Failed() {
			if w.WedgeCheck("C12") {
				return
			}
			w.Failf("C12/call-never-returns:"+f.Label, "%s (issued after the error sequence) is still pending %v later", f.Label, w.Now()-f.InvTime)
		}
	}
	w.Delivery += len(c.calls)
	w.Sleep(5 * time.Second)
	w.Settle()
	w.Census("C12", s)
}

func init() {
	register(&Scenario{Name: "api-errors", Prop: "C12", Horizon: time.Hour, Run: c12Run})
}
