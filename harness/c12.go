package harness

import (
	"crypto/tls"
	"fmt"
	"net"
	"os"
	"time"

	"go.nanomsg.org/mangos/v3"
	_ "go.nanomsg.org/mangos/v3/transport/all"
	"go.nanomsg.org/mangos/v3/verifsim/simrt"
)

// C12: after any API call returned — with or without an error — every other
// call still completes. Random programs over one socket in which error
// outcomes are provoked on purpose, followed by other calls from other tasks.
// Decided by: the lock-balance invariant at every API return (world.go), the
// wedge report (a task waiting for a sim mutex whose holder's API call has
// returned / has exited / is in a cycle), and "every call with a deadline has
// returned by deadline + settle".

type c12 struct {
	w     *W
	kind  string
	s     mangos.Socket
	mn    *MsgNet
	calls []*Call
	bound time.Duration
}

// do issues a call that must return within c.bound of simulated time.
func (c *c12) do(label string, fn func() (interface{}, error)) *Call {
	w := c.w
	call := w.Do(label, fn)
	c.calls = append(c.calls, call)
	w.Settle()
	if !call.Returned() {
		call.Wait(c.bound)
		w.Settle()
	}
	if !call.Returned() && !w.Failed() {
		if w.WedgeCheck("C12") {
			return call
		}
		w.Failf("C12/call-never-returns:"+label, "%s has not returned %v after it was invoked (no documented reason to block)", label, w.Now()-call.InvTime)
	}
	w.Op("%s -> %v", label, errName(call.Err))
	return call
}

func c12Run(w *W) {
	kind := allKinds[w.Choose(simrt.SShape, len(allKinds))]
	w.SetShape("kind", kind)
	c := &c12{w: w, kind: kind, bound: 2 * time.Second}
	c.mn = w.UseMsgNet()
	c.s = w.Sock(kind)
	s := c.s
	_ = s.SetOption(mangos.OptionRecvDeadline, 20*time.Millisecond)
	_ = s.SetOption(mangos.OptionSendDeadline, 20*time.Millisecond)
	nblocks := 2 + w.Choose(simrt.SShape, 5)
	var seen []string
	for bi := 0; bi < nblocks && !w.Failed(); bi++ {
		blk := w.Choose(simrt.SProg, 14)
		seen = append(seen, fmt.Sprint(blk))
		switch blk {
		case 0: // bad scheme
			c.do("Listen(bogus)", func() (interface{}, error) { return nil, s.Listen("bogus://x") })
			c.do("Dial(bogus)", func() (interface{}, error) { return nil, s.Dial("bogus://x") })
			for _, a := range []string{"no-scheme", "", "://", "tcp:/127.0.0.1:1"} {
				a := a
				if r := c.do("Listen(malformed address)", func() (interface{}, error) { return nil, s.Listen(a) }); r.Returned() && r.Err == nil {
					w.Failf("C12/malformed-address-accepted", "Listen(%q) returned nil", a)
				}
				if r := c.do("Dial(malformed address)", func() (interface{}, error) { return nil, s.Dial(a) }); r.Returned() && r.Err == nil {
					w.Failf("C12/malformed-address-accepted", "Dial(%q) returned nil", a)
				}
			}
			w.Probe("err-bad-transport")
		case 1: // address in use, then corrected retry
			a := w.Addr("msg")
			l1, err := s.NewListener(a, nil)
			if err != nil {
				w.Failf("HARNESS/newlistener", "%v", err)
				return
			}
			c.do("l1.Listen", func() (interface{}, error) { return nil, l1.Listen() })
			r := c.do("l1.Listen(again)", func() (interface{}, error) { return nil, l1.Listen() })
			if r.Err != mangos.ErrAddrInUse && r.Returned() {
				w.Failf("C12/second-listen-accepted", "Listen twice on one listener returned %v", errName(r.Err))
			}
			r2 := c.do("Socket.Listen(same addr)", func() (interface{}, error) { return nil, s.Listen(a) })
			if r2.Returned() && r2.Err == nil {
				w.Failf("C12/second-listen-accepted", "a second listener on the same address was accepted")
			}
			w.Probe("err-addr-in-use")
			c.do("l1.GetOption", func() (interface{}, error) { return l1.GetOption(mangos.OptionMaxRecvSize) })
			c.do("l1.Close", func() (interface{}, error) { return nil, l1.Close() })
			// corrected retry on a fresh address works and accepts
			b := w.Addr("msg")
			r3 := c.do("Socket.Listen(fresh addr)", func() (interface{}, error) { return nil, s.Listen(b) })
			if r3.Returned() && r3.Err != nil {
				w.Failf("C12/retry-failed", "Listen on a fresh address after an address-in-use failure: %v", r3.Err)
			}
			if p := c.mn.Connect(b); p == nil && !w.Failed() {
				w.Failf("C12/retry-failed", "nobody accepts on the fresh address")
			}
		case 2: // refused synchronous dial, then retry when the peer is there
			a := w.Addr("msg")
			ep := c.mn.Endpoint(a)
			ep.Plan = []string{"refuse"}
			ep.OnPipe = func(p *MsgPipe) {}
			d, err := s.NewDialer(a, map[string]interface{}{mangos.OptionDialAsynch: false})
			if err != nil {
				w.Failf("HARNESS/newdialer", "%v", err)
				return
			}
			r := c.do("d.Dial(refused)", func() (interface{}, error) { return nil, d.Dial() })
			if r.Returned() && r.Err == nil {
				w.Failf("HARNESS/plan", "dial was expected to be refused")
			}
			w.Probe("err-conn-refused")
			c.do("d.GetOption", func() (interface{}, error) { return d.GetOption(mangos.OptionReconnectTime) })
			c.do("d.SetOption", func() (interface{}, error) { return nil, d.SetOption(mangos.OptionReconnectTime, 5*time.Millisecond) })
			r2 := c.do("d.Dial(retry)", func() (interface{}, error) { return nil, d.Dial() })
			if r2.Returned() && r2.Err != nil {
				w.Failf("C12/dial-retry-refused", "the peer is reachable now but retrying Dial on the same dialer returned %v", r2.Err)
			}
			c.do("d.Close", func() (interface{}, error) { return nil, d.Close() })
		case 3: // tls+tcp listener without configuration, corrected step by step
			l, err := s.NewListener("tls+tcp://127.0.0.1:0", nil)
			if err != nil {
				w.Failf("HARNESS/newlistener", "tls+tcp: %v", err)
				return
			}
			r := c.do("tls.Listen(no config)", func() (interface{}, error) { return nil, l.Listen() })
			if r.Returned() && r.Err == nil {
				w.Failf("HARNESS/tls", "Listen without TLS config succeeded")
			}
			w.Probe("err-tls-no-config")
			c.do("tls.SetOption(TLSConfig)", func() (interface{}, error) { return nil, l.SetOption(mangos.OptionTLSConfig, &tls.Config{}) })
			c.do("tls.GetOption(TLSConfig)", func() (interface{}, error) { return l.GetOption(mangos.OptionTLSConfig) })
			r2 := c.do("tls.Listen(no cert)", func() (interface{}, error) { return nil, l.Listen() })
			if r2.Returned() && r2.Err == nil {
				w.Failf("HARNESS/tls", "Listen without certificate succeeded")
			}
			w.Probe("err-tls-no-cert")
			c.do("tls.SetOption(MaxRecvSize)", func() (interface{}, error) { return nil, l.SetOption(mangos.OptionMaxRecvSize, 1000) })
			c.do("tls.Close", func() (interface{}, error) { return nil, l.Close() })
			c12TLSCorrected(w, c, s, kind, "tls+tcp")
		case 4: // wss listener without configuration
			l, err := s.NewListener("wss://127.0.0.1:0/verif", nil)
			if err != nil {
				w.Failf("HARNESS/newlistener", "wss: %v", err)
				return
			}
			c.do("wss.Listen(no config)", func() (interface{}, error) { return nil, l.Listen() })
			c.do("wss.SetOption(TLSConfig)", func() (interface{}, error) { return nil, l.SetOption(mangos.OptionTLSConfig, &tls.Config{}) })
			c.do("wss.Listen(no cert)", func() (interface{}, error) { return nil, l.Listen() })
			c.do("wss.GetOption", func() (interface{}, error) { return l.GetOption(mangos.OptionTLSConfig) })
			c.do("wss.Close", func() (interface{}, error) { return nil, l.Close() })
			w.Probe("err-wss-no-config")
			c12TLSCorrected(w, c, s, kind, "wss")
		case 5: // ipc listener on an impossible path; tcp on a bad address
			l, err := s.NewListener("ipc:///nonexistent-verif-dir/x.sock", nil)
			if err == nil {
				c.do("ipc.Listen(bad path)", func() (interface{}, error) { return nil, l.Listen() })
				c.do("ipc.GetOption", func() (interface{}, error) { return l.GetOption(mangos.OptionMaxRecvSize) })
				c.do("ipc.Listen(again)", func() (interface{}, error) { return nil, l.Listen() })
				c.do("ipc.Close", func() (interface{}, error) { return nil, l.Close() })
			}
			c.do("NewListener(tcp bad)", func() (interface{}, error) { _, e := s.NewListener("tcp://127.0.0.1:99999", nil); return nil, e })
			c.do("NewDialer(tcp bad)", func() (interface{}, error) { _, e := s.NewDialer("tcp://127.0.0.1:99999", nil); return nil, e })
			c.do("NewListener(ws bad)", func() (interface{}, error) { _, e := s.NewListener("ws://%zz", nil); return nil, e })
			w.Probe("err-bad-address")
		case 6: // inproc: refused, duplicate listen
			a := w.Addr("inproc")
			c.do("inproc.Dial(no listener)", func() (interface{}, error) {
				return nil, s.DialOptions(a, map[string]interface{}{mangos.OptionDialAsynch: false})
			})
			c.do("inproc.Listen", func() (interface{}, error) { return nil, s.Listen(a) })
			c.do("inproc.Listen(dup)", func() (interface{}, error) { return nil, s.Listen(a) })
			// a second listener object that fails for "address in use" and is
			// closed again (ordinary tidy-up) leaves the first one accepting
			if l2, err := s.NewListener(a, nil); err == nil {
				r := c.do("l2.Listen(in use)", func() (interface{}, error) { return nil, l2.Listen() })
				c.do("l2.Close", func() (interface{}, error) { return nil, l2.Close() })
				if r.Returned() && r.Err != nil {
					ps := w.Sock(peerKind[kind])
					dc := c.do("peer.Dial(after the failed listener was closed)", func() (interface{}, error) {
						return nil, ps.DialOptions(a, map[string]interface{}{mangos.OptionDialAsynch: false})
					})
					if dc.Returned() && dc.Err != nil {
						w.Failf("C12/failed-listen-cleanup-broke-listener", "%s listens on %s; a second listener on the same address failed (%v) and was closed; now a peer dialling the address gets %v", kind, a, r.Err, dc.Err)
					}
					c.do("peer.Close", func() (interface{}, error) { return nil, ps.Close() })
				}
			}
			w.Probe("err-inproc")
		case 7: // timeouts / protocol errors on the data path
			if canSend(kind) {
				for i := 0; i < 3; i++ {
					c.do("Send", func() (interface{}, error) { return nil, s.Send([]byte("x")) })
				}
			} else {
				c.do("Send(unsupported)", func() (interface{}, error) { return nil, s.Send([]byte("x")) })
			}
			c.do("Recv", func() (interface{}, error) { return s.Recv() })
			w.Probe("err-data-path")
		case 8: // bad option values
			c.do("SetOption(bad type)", func() (interface{}, error) { return nil, s.SetOption(mangos.OptionRecvDeadline, "soon") })
			c.do("SetOption(unknown)", func() (interface{}, error) { return nil, s.SetOption("NO-SUCH-OPTION", 1) })
			c.do("SetOption(MaxRecvSize -1)", func() (interface{}, error) { return nil, s.SetOption(mangos.OptionMaxRecvSize, -1) })
			c.do("GetOption(unknown)", func() (interface{}, error) { return s.GetOption("NO-SUCH-OPTION") })
			w.Probe("err-bad-option")
		case 9: // contexts
			cx, err := s.OpenContext()
			if err != nil {
				c.do("OpenContext(again)", func() (interface{}, error) { _, e := s.OpenContext(); return nil, e })
				continue
			}
			_ = cx.SetOption(mangos.OptionRecvDeadline, 10*time.Millisecond)
			_ = cx.SetOption(mangos.OptionSendDeadline, 10*time.Millisecond)
			c.do("ctx.Recv", func() (interface{}, error) { return cx.Recv() })
			c.do("ctx.Send", func() (interface{}, error) { return nil, cx.Send([]byte("x")) })
			c.do("ctx.Close", func() (interface{}, error) { return nil, cx.Close() })
			c.do("ctx.Close(again)", func() (interface{}, error) { return nil, cx.Close() })
			c.do("ctx.Recv(closed)", func() (interface{}, error) { return cx.Recv() })
			c.do("ctx.Send(closed)", func() (interface{}, error) { return nil, cx.Send([]byte("x")) })
			w.Probe("err-context")
		case 10: // connections rejected or lost, then the listener must still accept
			a := w.Addr("msg")
			rejectNext := 1 + w.Choose(simrt.SProg, 2)
			n := 0
			old := s.SetPipeEventHook(func(ev mangos.PipeEvent, p mangos.Pipe) {
				if ev == mangos.PipeEventAttaching && n < rejectNext {
					n++
					w.Fault("reject-hook")
					_ = p.Close()
				}
			})
			c.do("Listen", func() (interface{}, error) { return nil, s.Listen(a) })
			for i := 0; i < rejectNext; i++ {
				c.mn.Connect(a)
				w.Settle()
			}
			if w.WedgeCheck("C12") {
				return
			}
			good := c.mn.Connect(a)
			w.Settle()
			if w.WedgeCheck("C12") {
				return
			}
			if good != nil && w.Choose(simrt.SProg, 2) == 0 {
				w.Fault("close")
				good.ClosePeer()
				w.Settle()
			}
			s.SetPipeEventHook(old)
			c.do("GetOption after rejections", func() (interface{}, error) { return s.GetOption(mangos.OptionMaxRecvSize) })
			w.Probe("err-rejected-pipe")
		case 11: // the no-peers outcome, then peers come and go: Send follows the peer set
			// (on a socket of its own: the run's socket may have peers from earlier blocks)
			s2 := w.Sock(kind)
			if err := s2.SetOption(mangos.OptionFailNoPeers, true); err != nil {
				s2.Close()
				continue
			}
			a := w.Addr("msg")
			c.do("s2.Listen", func() (interface{}, error) { return nil, s2.Listen(a) })
			c.do("s2.Send(no peers)", func() (interface{}, error) { return nil, s2.Send([]byte("x")) })
			c18Rejoin(w, c.mn, a, kind, s2)
			c.do("s2.Close", func() (interface{}, error) { return nil, s2.Close() })
			w.Probe("err-no-peers")
		case 12: // the real tcp / ipc / tls+tcp endpoint code on the simulated network
			tran := w.simFallback([]string{"tcp", "ipc", "tls+tcp", "ws", "wss"}[w.Choose(simrt.SProg, 5)])
			nt := curNet
			a := w.Addr(tran)
			// (i) address in use: the failing Listen of a second socket can be retried once the address is free
			l1, err := s.NewListener(a, w.EpOpts(a, true, nil))
			if err != nil {
				w.Failf("HARNESS/newlistener", "%s: %v", a, err)
				return
			}
			r1 := c.do(tran+" l1.Listen", func() (interface{}, error) { return nil, l1.Listen() })
			if r1.Returned() && r1.Err != nil {
				w.Failf("HARNESS/listen", "%s: %v", a, r1.Err)
				return
			}
			s2 := w.Sock(kind)
			l2, err := s2.NewListener(a, w.EpOpts(a, true, nil))
			if err != nil {
				w.Failf("HARNESS/newlistener", "%s: %v", a, err)
				return
			}
			r2 := c.do(tran+" l2.Listen(in use)", func() (interface{}, error) { return nil, l2.Listen() })
			if r2.Returned() && r2.Err == nil {
				w.Failf("C12/second-listen-accepted", "%s: a second socket was allowed to listen on %s", tran, a)
			}
			c.do(tran+" l2.GetOption", func() (interface{}, error) { return l2.GetOption(mangos.OptionMaxRecvSize) })
			// (ii) a peer that connects and stays silent (no TLS hello, no SP
			// header) while calls are made on the listener that accepted it
			stalled, _ := nt.Dial(NetKey(a))
			if stalled != nil {
				w.Fault("hs-stall")
				if (tran == "tcp" || tran == "ipc" || tran == "sim" || tran == "simipc") && w.Choose(simrt.SProg, 2) == 0 {
					stalled.Write([]byte{0, 'S', 'P'})
				}
			}
			w.Settle()
			c.do(tran+" l1.GetOption(peer stalled)", func() (interface{}, error) { return l1.GetOption(mangos.OptionMaxRecvSize) })
			c.do(tran+" l1.SetOption(peer stalled)", func() (interface{}, error) { return nil, l1.SetOption(mangos.OptionMaxRecvSize, 8192) })
			c.do(tran+" l1.Address(peer stalled)", func() (interface{}, error) { return l1.Address(), nil })
			// a conforming peer is served meanwhile
			ps := w.Sock(peerKind[kind])
			dc := c.do(tran+" peer.Dial(while another peer is stalled)", func() (interface{}, error) {
				return nil, ps.DialOptions(a, w.EpOpts(a, false, map[string]interface{}{mangos.OptionDialAsynch: false}))
			})
			if dc.Returned() && dc.Err != nil {
				w.Failf("C12/listener-stopped-accepting", "%s over %s: with one peer stalled in its handshake a conforming peer's Dial returned %v", kind, tran, dc.Err)
			}
			c.do(tran+" l1.Close", func() (interface{}, error) { return nil, l1.Close() })
			c.do(tran+" peer.Close", func() (interface{}, error) { return nil, ps.Close() })
			if stalled != nil {
				stalled.Close()
			}
			w.Settle()
			// (iii) the corrected retry: same listener object, address now free
			r3 := c.do(tran+" l2.Listen(retry, address free)", func() (interface{}, error) { return nil, l2.Listen() })
			if r3.Returned() && r3.Err != nil {
				w.Failf("C12/retry-failed", "%s: Listen failed with %v while %s was in use; after the other listener was closed the retry on the same listener returns %v", tran, r2.Err, a, r3.Err)
			}
			// (iv) refused synchronous dial, then the retry on the same dialer
			// once somebody listens (here: l2)
			b := w.Addr(tran)
			ps2 := w.Sock(peerKind[kind])
			d, err := ps2.NewDialer(b, w.EpOpts(b, false, map[string]interface{}{mangos.OptionDialAsynch: false}))
			if err != nil {
				w.Failf("HARNESS/newdialer", "%s: %v", b, err)
				return
			}
			r4 := c.do(tran+" d.Dial(nobody listens)", func() (interface{}, error) { return nil, d.Dial() })
			if r4.Returned() && r4.Err == nil {
				w.Failf("HARNESS/plan", "dial to %s was expected to be refused", b)
			}
			c.do(tran+" d.GetOption", func() (interface{}, error) { return d.GetOption(mangos.OptionMaxRecvSize) })
			r5 := c.do(tran+" s2.Listen(b)", func() (interface{}, error) { return nil, s2.ListenOptions(b, w.EpOpts(b, true, nil)) })
			if r5.Returned() && r5.Err == nil {
				r6 := c.do(tran+" d.Dial(retry)", func() (interface{}, error) { return nil, d.Dial() })
				if r6.Returned() && r6.Err != nil {
					w.Failf("C12/dial-retry-refused", "%s: the peer listens on %s now but retrying Dial on the same dialer returned %v", tran, b, r6.Err)
				}
			}
			c.do(tran+" ps2.Close", func() (interface{}, error) { return nil, ps2.Close() })
			c.do(tran+" s2.Close", func() (interface{}, error) { return nil, s2.Close() })
			// (v) a bind that fails for good (not an address of this host), with a
			// fixed port or with port 0: every other call on the listener still works
			na := fmt.Sprintf("%s://203.0.113.7:%d", tran, []int{0, 5555}[w.Choose(simrt.SProg, 2)])
			if tran == "ws" || tran == "wss" {
				na += "/sp"
			}
			if tran != "ipc" && tran != "simipc" && tran != "sim" {
				if l3, err := s.NewListener(na, w.EpOpts(na, true, nil)); err == nil {
					r7 := c.do(tran+" l3.Listen(not a local address)", func() (interface{}, error) { return nil, l3.Listen() })
					if r7.Returned() && r7.Err == nil {
						w.Failf("HARNESS/plan", "listen on %s was expected to fail", na)
					}
					c.do(tran+" l3.Address(after failed Listen)", func() (interface{}, error) { return l3.Address(), nil })
					c.do(tran+" l3.GetOption(after failed Listen)", func() (interface{}, error) { return l3.GetOption(mangos.OptionMaxRecvSize) })
					c.do(tran+" l3.Listen(again)", func() (interface{}, error) { return nil, l3.Listen() })
					c.do(tran+" l3.Close", func() (interface{}, error) { return nil, l3.Close() })
				}
			}
			w.Probe("real-stream-endpoints-in-simulation")
		case 13: // a second Dial on a started dialer; endpoints whose construction is refused for a bad option
			tran := w.simFallback([]string{"tcp", "ipc", "tls+tcp", "ws", "wss", "inproc"}[w.Choose(simrt.SProg, 6)])
			a := w.Addr(tran)
			ps := w.Sock(peerKind[kind])
			if r := c.do(tran+" peer.Listen", func() (interface{}, error) { return nil, ps.ListenOptions(a, w.EpOpts(a, true, nil)) }); !r.Returned() || r.Err != nil {
				ps.Close()
				continue
			}
			d, err := s.NewDialer(a, w.EpOpts(a, false, map[string]interface{}{mangos.OptionDialAsynch: w.Choose(simrt.SProg, 2) == 0}))
			if err != nil {
				w.Failf("HARNESS/newdialer", "%s: %v", a, err)
				return
			}
			c.do(tran+" d.Dial", func() (interface{}, error) { return nil, d.Dial() })
			r2 := c.do(tran+" d.Dial(already started)", func() (interface{}, error) { return nil, d.Dial() })
			if r2.Returned() && r2.Err == nil {
				w.Failf("C12/second-dial-accepted", "%s: Dial on a dialer that is already started returned nil (two dial cycles on one dialer)", tran)
			}
			c.do(tran+" d.GetOption", func() (interface{}, error) { return d.GetOption(mangos.OptionReconnectTime) })
			c.do(tran+" d.SetOption", func() (interface{}, error) { return nil, d.SetOption(mangos.OptionMaxReconnectTime, time.Second) })
			c.do(tran+" d.Address", func() (interface{}, error) { return d.Address(), nil })
			w.Probe("err-dial-on-started-dialer")
			if tran == "tcp" || tran == "ipc" {
				// ... and while a synchronous Dial is still in its handshake (the
				// peer is slow with its header): a second Dial on that dialer is
				// refused, and only one connection is ever made
				slow := w.Addr(tran)
				if hl, err := curNet.Listen(NetKey(slow)); err == nil {
					release := w.NewEvent()
					accepted := 0
					w.Go("slow peer", func() {
						for {
							cn, err := hl.AcceptSim()
							if err != nil {
								return
							}
							accepted++
							w.Go("slow peer conn", func() {
								release.Wait(time.Hour)
								cn.Write(wcHeader(protoOf(peerKind[kind])))
								wcReadHeader(cn)
							})
						}
					})
					ds, err := s.NewDialer(slow, map[string]interface{}{mangos.OptionDialAsynch: false})
					if err == nil {
						first := w.Do(tran+" ds.Dial(synchronous, slow peer)", func() (interface{}, error) { return nil, ds.Dial() })
						w.Settle()
						if !first.Returned() {
							second := c.do(tran+" ds.Dial(second, first in flight)", func() (interface{}, error) { return nil, ds.Dial() })
							if second.Returned() && second.Err == nil {
								w.Failf("C12/second-dial-accepted", "%s: a synchronous Dial was waiting for the peer's header; a second Dial on the same dialer returned nil", tran)
							}
							w.Settle()
							if accepted > 1 {
								w.Failf("C12/second-dial-accepted", "%s: one dialer, a synchronous Dial in flight and a second Dial call: the peer has accepted %d connections", tran, accepted)
							}
							w.Probe("second-dial-while-first-in-handshake")
						}
						release.Set()
						first.Wait(2 * time.Second)
						c.do(tran+" ds.Close", func() (interface{}, error) { return nil, ds.Close() })
					}
					hl.Close()
				}
			}
			// construction refused: an option of the wrong type, an unknown
			// option, a value out of range - nothing of the endpoint may stay
			// behind (the address is still free, the socket still works)
			b := w.Addr(tran)
			bad := []map[string]interface{}{
				{mangos.OptionReconnectTime: "soon"},
				{"NO-SUCH-OPTION": 1},
				{mangos.OptionMaxRecvSize: "big"},
				{mangos.OptionDialAsynch: 7},
			}[w.Choose(simrt.SProg, 4)]
			r3 := c.do(tran+" DialOptions(bad option)", func() (interface{}, error) { return nil, s.DialOptions(a, w.EpOpts(a, false, bad)) })
			if r3.Returned() && r3.Err == nil {
				w.Failf("C19/bad-endpoint-option-accepted", "%s: DialOptions with %v returned nil", tran, bad)
			}
			lbad := []map[string]interface{}{
				{mangos.OptionMaxRecvSize: "big"},
				{"NO-SUCH-OPTION": 1},
				{mangos.OptionMaxRecvSize: -5},
			}[w.Choose(simrt.SProg, 3)]
			if tran == "inproc" {
				lbad = map[string]interface{}{"NO-SUCH-OPTION": 1}
			}
			r4 := c.do(tran+" ListenOptions(bad option)", func() (interface{}, error) { return nil, s.ListenOptions(b, w.EpOpts(b, true, lbad)) })
			if r4.Returned() && r4.Err == nil {
				w.Failf("C19/bad-endpoint-option-accepted", "%s: ListenOptions with %v returned nil", tran, lbad)
			}
			r5 := c.do(tran+" ListenOptions(corrected)", func() (interface{}, error) { return nil, s.ListenOptions(b, w.EpOpts(b, true, nil)) })
			if r5.Returned() && r5.Err != nil {
				w.Failf("C12/retry-failed", "%s: ListenOptions on %s failed for a bad option (%v); the corrected call on the same address returns %v", tran, b, r4.Err, r5.Err)
			}
			c.do(tran+" d.Close", func() (interface{}, error) { return nil, d.Close() })
			c.do(tran+" peer.Close", func() (interface{}, error) { return nil, ps.Close() })
			w.Probe("err-endpoint-construction-refused")
		}
		if w.WedgeCheck("C12") {
			return
		}
	}
	w.SetShape("blocks", fmt.Sprint(seen))
	if w.Failed() {
		return
	}
	// follow-ups from other tasks, all at once, then Close
	var fl []*Call
	fl = append(fl, w.Do("GetOption", func() (interface{}, error) { return s.GetOption(mangos.OptionMaxRecvSize) }))
	fl = append(fl, w.Do("SetOption", func() (interface{}, error) { return nil, s.SetOption(mangos.OptionMaxRecvSize, 4096) }))
	fl = append(fl, w.Do("Recv", func() (interface{}, error) { return s.Recv() }))
	fl = append(fl, w.Do("Send", func() (interface{}, error) { return nil, s.Send([]byte("y")) }))
	w.Sleep(c.bound)
	w.Settle()
	cl := w.Do("Close", func() (interface{}, error) { return nil, s.Close() })
	fl = append(fl, cl)
	w.Sleep(c.bound)
	w.Settle()
	for _, f := range fl {
		if !f.Returned() && !w.Failed() {
			if w.WedgeCheck("C12") {
				return
			}
			w.Failf("C12/call-never-returns:"+f.Label, "%s (issued after the error sequence) is still pending %v later", f.Label, w.Now()-f.InvTime)
		}
	}
	w.Delivery += len(c.calls)
	w.Sleep(5 * time.Second)
	w.Settle()
	w.Census("C12", s)
}

func init() {
	register(&Scenario{Name: "api-errors", Prop: "C12", Horizon: time.Hour, Weight: 15, Run: c12Run})
}

// c12Real: "a Listen or Dial that fails for configuration or network reasons
// can be corrected and retried" on the real OS transports (engine R): the
// failure is provoked, corrected, and the retried endpoint must carry traffic.
func c12Real(w *W) {
	tran := w.simFallback([]string{"tcp", "tls+tcp", "ipc", "ws", "wss"}[w.Choose(simrt.SShape, 5)])
	side := []string{"listen-config", "listen-inuse", "dial-refused"}[w.Choose(simrt.SShape, 3)]
	if tran == "ipc" && w.Real && w.Choose(simrt.SShape, 2) == 0 {
		side = "ipc-leftover-file"
	}
	w.SetShape("tran", tran)
	w.SetShape("case", side)
	srv, cli := tlsConfigs()
	a, b := w.Sock("pair"), w.Sock("pair")
	defer a.Close()
	defer b.Close()
	mustSet(w, a, mangos.OptionRecvDeadline, 20*time.Second)
	mustSet(w, b, mangos.OptionRecvDeadline, 20*time.Second)
	needTLS := tran == "tls+tcp" || tran == "wss"
	url := tran + "://" + loopIP + ":0"
	sockPath := ""
	switch tran {
	case "ipc":
		sockPath = fmt.Sprintf("%s/verif-c12-%d-%d.sock", os.TempDir(), os.Getpid(), w.RunIdx)
		os.Remove(sockPath)
		w.OnCleanup(func() { os.Remove(sockPath) })
		url = "ipc://" + sockPath
	case "ws", "wss":
		url += "/sp"
	}
	bound := func(d time.Duration, label string, fn func() error) (error, bool) {
		c := w.Do(label, func() (interface{}, error) { return nil, fn() })
		if !c.Wait(d) {
			w.Failf("C12/call-never-returns:"+label, "%s over %s did not return within %v", label, tran, d)
			return nil, false
		}
		w.Op("%s -> %v", label, errName(c.Err))
		return c.Err, true
	}
	l, err := a.NewListener(url, nil)
	if err != nil {
		w.Failf("HARNESS/newlistener", "%v", err)
		return
	}
	switch side {
	case "listen-config":
		if !needTLS {
			return
		}
		e1, ok := bound(10*time.Second, "Listen(no TLS config)", l.Listen)
		if !ok {
			return
		}
		if e1 == nil {
			w.Failf("HARNESS/tls", "Listen without config succeeded")
			return
		}
		if _, ok := bound(10*time.Second, "SetOption(TLSConfig)", func() error { return l.SetOption(mangos.OptionTLSConfig, srv) }); !ok {
			return
		}
		e2, ok := bound(10*time.Second, "Listen(corrected)", l.Listen)
		if !ok {
			return
		}
		if e2 != nil {
			w.Failf("C12/retry-failed:"+tran, "%s: Listen failed for lack of a TLS config (%v); after SetOption(TLSConfig) the retry returned %v", tran, e1, e2)
			return
		}
		w.Probe("corrected-tls-listen")
	case "listen-inuse":
		// somebody else holds the address first
		var blocker interface{ Close() error }
		blockedAddr := ""
		if tran == "ipc" {
			bl, err := net.Listen("unix", sockPath)
			if err != nil {
				return
			}
			blocker = bl
		} else {
			bl, err := net.Listen("tcp", loopIP+":0")
			if err != nil {
				return
			}
			blocker = bl
			blockedAddr = bl.Addr().String()
			url = tran + "://" + bl.Addr().String()
			if tran == "ws" || tran == "wss" {
				url += "/sp"
			}
			l, err = a.NewListener(url, nil)
			if err != nil {
				w.Failf("HARNESS/newlistener", "%v", err)
				return
			}
		}
		if needTLS {
			_ = l.SetOption(mangos.OptionTLSConfig, srv)
		}
		e1, ok := bound(10*time.Second, "Listen(address in use)", l.Listen)
		if !ok {
			return
		}
		if e1 == nil {
			if tran == "ipc" {
				// ipc removes what it takes for a stale socket file; not a failure case then
				blocker.Close()
				break
			}
			w.Failf("HARNESS/inuse", "Listen on a bound address succeeded")
			return
		}
		blocker.Close()
		if tran == "ipc" {
			os.Remove(sockPath)
		}
		time.Sleep(20 * time.Millisecond)
		e2, ok := bound(10*time.Second, "Listen(retry, address free)", l.Listen)
		if !ok {
			return
		}
		for round := 0; e2 != nil && tran != "ipc"; round++ {
			// is the address really free? (an unrelated process may have taken
			// the port meanwhile: then there is nothing to judge)
			pl, perr := net.Listen("tcp", blockedAddr)
			if perr != nil {
				w.Probe("freed-port-taken-by-someone-else")
				return
			}
			pl.Close()
			if round == 3 {
				break
			}
			time.Sleep(20 * time.Millisecond)
			if e2, ok = bound(10*time.Second, "Listen(retry, address free)", l.Listen); !ok {
				return
			}
		}
		if e2 != nil {
			w.Failf("C12/retry-failed:"+tran, "%s: Listen failed while the address was in use (%v); after it was freed (an independent bind of the same address succeeds) the retry on the same listener keeps returning %v", tran, e1, e2)
			return
		}
		w.Probe("corrected-address-in-use")
	case "ipc-leftover-file":
		// the one piece of durable state mangos has: the socket file of an ipc
		// listener. What a process that died left behind must not keep its
		// successor from listening; what is not a dead socket must be left alone.
		what := []string{"dead-socket", "regular-file", "live-listener"}[w.Choose(simrt.SShape, 3)]
		w.SetShape("leftover", what)
		var live net.Listener
		switch what {
		case "dead-socket":
			ul, err := net.ListenUnix("unix", &net.UnixAddr{Name: sockPath, Net: "unix"})
			if err != nil {
				return
			}
			ul.SetUnlinkOnClose(false) // the owner dies without cleaning up
			ul.Close()
			if st, err := os.Stat(sockPath); err != nil || st.Mode()&os.ModeSocket == 0 {
				return
			}
		case "regular-file":
			if err := os.WriteFile(sockPath, []byte("precious data"), 0600); err != nil {
				return
			}
		case "live-listener":
			ul, err := net.Listen("unix", sockPath)
			if err != nil {
				return
			}
			live = ul
			defer ul.Close()
			go func() {
				for {
					c, err := ul.Accept()
					if err != nil {
						return
					}
					c.Close()
				}
			}()
		}
		e1, ok := bound(10*time.Second, "Listen("+what+" at the path)", l.Listen)
		if !ok {
			return
		}
		switch what {
		case "dead-socket":
			if e1 != nil {
				w.Failf("C12/stale-socket-file-blocks-listen", "ipc: a socket file left behind by a dead process is at the path; Listen returns %v", e1)
				return
			}
			w.Probe("ipc-dead-socket-file-replaced")
		case "regular-file":
			if e1 == nil {
				w.Failf("C12/listen-over-foreign-file", "ipc: the path holds a regular file, Listen returned nil")
				return
			}
			if b, err := os.ReadFile(sockPath); err != nil || string(b) != "precious data" {
				w.Failf("C12/listen-removed-foreign-file", "ipc: the path held a regular file (not a socket); after the failed Listen (%v) the file reads (%q, %v)", e1, b, err)
				return
			}
			// corrected: the application moves the file away and retries on the same listener
			os.Remove(sockPath)
			e2, ok := bound(10*time.Second, "Listen(retry, file removed)", l.Listen)
			if !ok {
				return
			}
			if e2 != nil {
				w.Failf("C12/retry-failed:ipc", "ipc: Listen failed while a regular file occupied the path (%v); after it was removed the retry on the same listener returns %v", e1, e2)
				return
			}
			w.Probe("ipc-foreign-file-left-alone")
		case "live-listener":
			if e1 == nil {
				w.Failf("C12/listen-over-live-listener", "ipc: another listener is serving the path, Listen returned nil")
				return
			}
			// the live owner is undisturbed: it still accepts at that path
			c, err := net.DialTimeout("unix", sockPath, 5*time.Second)
			if err != nil {
				w.Failf("C12/listen-disturbed-live-listener", "ipc: after a Listen that failed with %v, the listener that owns the path no longer accepts: %v", e1, err)
				return
			}
			c.Close()
			live.Close()
			os.Remove(sockPath)
			e2, ok := bound(10*time.Second, "Listen(retry, owner gone)", l.Listen)
			if !ok {
				return
			}
			if e2 != nil {
				w.Failf("C12/retry-failed:ipc", "ipc: Listen failed while another listener owned the path (%v); after that one went away the retry on the same listener returns %v", e1, e2)
				return
			}
			w.Probe("ipc-live-listener-left-alone")
		}
	case "dial-refused":
		// nobody listens yet: a synchronous Dial fails and can be retried once the listener is up
		probe, err := net.Listen("tcp", loopIP+":0")
		if err != nil {
			return
		}
		target := probe.Addr().String()
		probe.Close()
		if tran == "ipc" {
			target = sockPath
		}
		durl := tran + "://" + target
		if tran == "ws" || tran == "wss" {
			durl += "/sp"
		}
		dopts := map[string]interface{}{mangos.OptionDialAsynch: false}
		if needTLS {
			dopts[mangos.OptionTLSConfig] = cli
		}
		d, err := b.NewDialer(durl, dopts)
		if err != nil {
			w.Failf("HARNESS/newdialer", "%v", err)
			return
		}
		e1, ok := bound(20*time.Second, "Dial(nobody listens)", d.Dial)
		if !ok {
			return
		}
		if e1 == nil {
			return
		}
		lopts := map[string]interface{}{}
		if needTLS {
			lopts[mangos.OptionTLSConfig] = srv
		}
		if e, ok := bound(10*time.Second, "peer Listen", func() error { return a.ListenOptions(durl, lopts) }); !ok || e != nil {
			return // the port may have been taken meanwhile: nothing to judge
		}
		e2, ok := bound(20*time.Second, "Dial(retry)", d.Dial)
		if !ok {
			return
		}
		if e2 != nil {
			w.Failf("C12/dial-retry-refused", "%s: a synchronous Dial failed (%v); the listener is up now, the retry on the same dialer returned %v", tran, e1, e2)
			return
		}
		w.Probe("corrected-refused-dial")
		// traffic b -> a
		time.Sleep(50 * time.Millisecond)
		if err := b.Send([]byte("after-retry")); err != nil {
			w.Failf("C12/retry-carries-no-traffic:"+tran, "Send after the corrected Dial: %v", err)
			return
		}
		if m, err := a.Recv(); err != nil || string(m) != "after-retry" {
			w.Failf("C12/retry-carries-no-traffic:"+tran, "%s: the corrected Dial attached nothing usable: Recv (%q, %v)", tran, m, err)
			return
		}
		w.Delivery++
		return
	}
	// the corrected listener must carry traffic
	dopts := map[string]interface{}{}
	if needTLS {
		dopts[mangos.OptionTLSConfig] = cli
	}
	if e, ok := bound(20*time.Second, "peer Dial", func() error { return b.DialOptions(l.Address(), dopts) }); !ok || e != nil {
		if ok {
			w.Failf("C12/retry-carries-no-traffic:"+tran, "%s: a peer cannot dial the corrected listener at %s: %v", tran, l.Address(), e)
		}
		return
	}
	time.Sleep(50 * time.Millisecond)
	if err := b.Send([]byte("after-retry")); err != nil {
		w.Failf("C12/retry-carries-no-traffic:"+tran, "Send: %v", err)
		return
	}
	if m, err := a.Recv(); err != nil || string(m) != "after-retry" {
		w.Failf("C12/retry-carries-no-traffic:"+tran, "%s: the corrected listener carries no traffic: Recv (%q, %v)", tran, m, err)
		return
	}
	w.Delivery++
}

func init() {
	register(&Scenario{Name: "corrected-retry-real-transports", Prop: "C12", Engine: "R", Weight: 1, Run: c12Real})
}

// c12TLSCorrected: a TLS listener on a fixed address goes through the whole
// correction - no configuration, a configuration without certificate, the
// proper one - on the same listener object; each failed Listen must leave the
// address free (a second listener object can take it), and after the last
// correction a peer attaches.
func c12TLSCorrected(w *W, c *c12, s mangos.Socket, kind, tran string) {
	if w.simFallback(tran) != tran || w.Failed() {
		return
	}
	a := w.Addr(tran)
	srv, cli := simTLS()
	l, err := s.NewListener(a, nil)
	if err != nil {
		w.Failf("HARNESS/newlistener", "%s: %v", a, err)
		return
	}
	r1 := c.do(tran+" Listen(no config, fixed port)", func() (interface{}, error) { return nil, l.Listen() })
	c.do(tran+" SetOption(TLSConfig without certificate)", func() (interface{}, error) { return nil, l.SetOption(mangos.OptionTLSConfig, &tls.Config{}) })
	r2 := c.do(tran+" Listen(no certificate, fixed port)", func() (interface{}, error) { return nil, l.Listen() })
	if (r1.Returned() && r1.Err == nil) || (r2.Returned() && r2.Err == nil) {
		w.Failf("HARNESS/tls", "%s: Listen without a usable TLS configuration succeeded", tran)
		return
	}
	if w.Choose(simrt.SProg, 2) == 0 {
		// another listener object takes the address meanwhile: the failed attempts hold nothing
		s2 := w.Sock(kind)
		r := c.do(tran+" other socket Listen(same address)", func() (interface{}, error) { return nil, s2.ListenOptions(a, w.EpOpts(a, true, nil)) })
		if r.Returned() && r.Err != nil {
			w.Failf("C12/failed-listen-holds-address:"+tran, "%s: Listen on %s failed twice for its TLS configuration (%v, %v); another socket's Listen on that address now returns %v", tran, a, r1.Err, r2.Err, r.Err)
		}
		c.do(tran+" other socket Close", func() (interface{}, error) { return nil, s2.Close() })
		w.Settle()
	}
	c.do(tran+" SetOption(TLSConfig, corrected)", func() (interface{}, error) { return nil, l.SetOption(mangos.OptionTLSConfig, srv) })
	r3 := c.do(tran+" Listen(corrected)", func() (interface{}, error) { return nil, l.Listen() })
	if r3.Returned() && r3.Err != nil {
		w.Failf("C12/retry-failed", "%s: Listen on %s failed for its TLS configuration (%v, then %v); with the configuration corrected the retry on the same listener returns %v", tran, a, r1.Err, r2.Err, r3.Err)
		return
	}
	ps := w.Sock(peerKind[kind])
	// the dialling side goes through its own correction: no TLS configuration
	// (or one that does not trust the server) on the first attempt, the proper
	// one set on the same dialer for the retry
	var first interface{}
	if w.Choose(simrt.SProg, 2) == 0 {
		first = &tls.Config{ServerName: "not-the-server.invalid", MinVersion: tls.VersionTLS12}
	}
	dopts := map[string]interface{}{mangos.OptionDialAsynch: false}
	if first != nil {
		dopts[mangos.OptionTLSConfig] = first
	}
	d, err := ps.NewDialer(a, dopts)
	if err != nil {
		w.Failf("HARNESS/newdialer", "%s: %v", a, err)
		return
	}
	d1 := c.do(tran+" d.Dial(TLS configuration missing or wrong)", func() (interface{}, error) { return nil, d.Dial() })
	if d1.Returned() && d1.Err == nil {
		w.Failf("HARNESS/tls", "%s: a Dial without a TLS configuration that trusts the server succeeded", tran)
		return
	}
	c.do(tran+" d.SetOption(TLSConfig, corrected)", func() (interface{}, error) { return nil, d.SetOption(mangos.OptionTLSConfig, cli) })
	dc := c.do(tran+" d.Dial(corrected)", func() (interface{}, error) { return nil, d.Dial() })
	if dc.Returned() && dc.Err != nil {
		w.Failf("C12/dial-retry-refused", "%s: Dial to %s failed for its TLS configuration (%v); with the configuration corrected on the same dialer the retry returns %v", tran, a, d1.Err, dc.Err)
	}
	c.do(tran+" peer.Close", func() (interface{}, error) { return nil, ps.Close() })
	c.do(tran+" Listener.Close", func() (interface{}, error) { return nil, l.Close() })
	w.Probe("tls-listener-corrected-step-by-step")
}
