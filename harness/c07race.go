package harness

import (
	"encoding/binary"
	"fmt"
	"strings"
	"time"

	"go.nanomsg.org/mangos/v3"
	"go.nanomsg.org/mangos/v3/verifsim/simrt"
)

// c07Racing: responses in flight while their survey is being replaced, expires
// or the context is closed. Scripted respondents answer every survey they are
// sent with a burst of 1-6 responses after tape-chosen delays, so responses
// arrive at every phase of the next Send / of the expiry timer / of Close. The
// application task is sequential (Send, a few Recvs, next Send ...), which
// makes "the current survey" unambiguous at every Recv: whatever Recv returns
// is an answer to the latest survey this context sent, or one of the errors
// the statement allows - never an answer to an earlier survey, and never a crash.
func c07Racing(w *W) {
	nresp := 1 + w.Choose(simrt.SShape, 3)
	nctx := 1 + w.Choose(simrt.SShape, 2)
	T := []time.Duration{300 * time.Microsecond, time.Millisecond, 5 * time.Millisecond, time.Second}[w.Choose(simrt.SShape, 4)]
	nsurv := 2 + w.Choose(simrt.SShape, 6)
	rq := []int{0, 1, 2, 128}[w.Choose(simrt.SShape, 4)]
	w.SetShape("respondents", nresp)
	w.SetShape("ctxs", nctx)
	w.SetShape("T", T.String())
	w.SetShape("rq", rq)
	mn := w.UseMsgNet()
	addr := w.Addr("msg")
	s := w.Sock("surveyor")
	defer s.Close()
	mustSet(w, s, mangos.OptionSurveyTime, T)
	mustSet(w, s, mangos.OptionReadQLen, rq)
	mustSet(w, s, mangos.OptionRecvDeadline, 2*time.Millisecond)
	if err := s.Listen(addr); err != nil {
		w.Failf("HARNESS/listen", "%v", err)
		return
	}
	// delays of the bursts are drawn up front: the tape must not be read from
	// callbacks whose order depends on the schedule
	delays := make([]time.Duration, 256)
	for i := range delays {
		delays[i] = time.Duration(w.Choose(simrt.SProg, 12)) * 100 * time.Microsecond
	}
	bursts := make([]int, 64)
	for i := range bursts {
		bursts[i] = 1 + w.Choose(simrt.SProg, 6)
	}
	nb := 0
	for i := 0; i < nresp; i++ {
		i := i
		mn.ConnectWith(addr, func(p *MsgPipe) {
			p.OnSend = func(m WireMsg) {
				if len(m.Header) != 4 {
					return
				}
				hdr := append([]byte(nil), m.Header...)
				body := "re:" + string(m.Body)
				k := nb
				nb++
				n := bursts[k%len(bursts)]
				w.Go("respondent", func() {
					for j := 0; j < n; j++ {
						simrt.Sleep(delays[(k*7+j)%len(delays)])
						if !p.Open() {
							return
						}
						p.Inject(append(append([]byte(nil), hdr...), fmt.Sprintf("%s#%d.%d", body, i, j)...))
					}
				})
			}
		})
	}
	w.Settle()
	type cx struct {
		c mangos.Context
	}
	ctxs := []cx{{}}
	for i := 1; i < nctx; i++ {
		c, err := s.OpenContext()
		if err != nil {
			w.Failf("HARNESS/ctx", "%v", err)
			return
		}
		_ = c.SetOption(mangos.OptionRecvDeadline, 2*time.Millisecond)
		ctxs = append(ctxs, cx{c})
	}
	// the application programs, drawn up front
	type step struct {
		recvs int
		pause time.Duration
		close bool
	}
	progs := make([][]step, nctx)
	for ci := range progs {
		for k := 0; k < nsurv; k++ {
			progs[ci] = append(progs[ci], step{recvs: w.Choose(simrt.SProg, 5), pause: time.Duration(w.Choose(simrt.SProg, 8)) * 150 * time.Microsecond})
		}
		if ci > 0 && w.Choose(simrt.SProg, 2) == 0 {
			progs[ci][len(progs[ci])-1].close = true
		}
	}
	var calls []*Call
	for ci, c := range ctxs {
		ci, c := ci, c
		calls = append(calls, w.Do(fmt.Sprintf("ctx%d", ci), func() (interface{}, error) {
			for k, st := range progs[ci] {
				tag := fmt.Sprintf("s%d-%d", ci, k)
				var err error
				if c.c != nil {
					err = c.c.Send([]byte(tag))
				} else {
					err = s.Send([]byte(tag))
				}
				if err != nil {
					return nil, fmt.Errorf("Send %s: %w", tag, err)
				}
				for r := 0; r < st.recvs; r++ {
					var b []byte
					if c.c != nil {
						b, err = c.c.Recv()
					} else {
						b, err = s.Recv()
					}
					if err != nil {
						if err != mangos.ErrProtoState && err != mangos.ErrRecvTimeout && err != mangos.ErrCanceled {
							w.Failf("C07/recv-result", "ctx%d: Recv during survey %s returned %v", ci, tag, err)
						}
						continue
					}
					if !strings.HasPrefix(string(b), "re:"+tag+"#") {
						w.Failf("C07/stale-response-delivered", "ctx%d: the current survey is %s (sent before this Recv was called, nothing sent since); Recv returned %q", ci, tag, b)
						return nil, nil
					}
					w.Delivery++
					w.Probe("racing-response-delivered")
				}
				simrt.Sleep(st.pause)
				if st.close && c.c != nil {
					_ = c.c.Close()
					return nil, nil
				}
			}
			return nil, nil
		}))
	}
	for _, c := range calls {
		if !c.Wait(10 * time.Second) {
			if w.WedgeCheck("C07") {
				return
			}
			w.Failf("C07/recv-blocks-after-expiry", "%s: every call is bounded by the survey time or a 2ms receive deadline, yet the task has not finished after 10s%s", c.Label, w.BlockedReport())
			return
		}
		if c.Err != nil {
			w.Failf("C07/survey-send", "%s: %v", c.Label, c.Err)
			return
		}
	}
	_ = binary.BigEndian
}

func init() {
	register(&Scenario{Name: "responses-racing-cancel", Prop: "C07", Horizon: time.Hour, Weight: 4, Run: c07Racing})
}
