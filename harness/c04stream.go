package harness

import (
	"bytes"
	"fmt"
	"strings"
	"time"

	"go.nanomsg.org/mangos/v3"
	"go.nanomsg.org/mangos/v3/verifsim/simrt"
)

// C04, end to end over the stream mapping: a real REQ socket, real REP
// sockets as peers, the real SP framing (transport/conn.go) over simnet, and
// the faults a stream transport meets: a connection reset while the request
// is being written or read, silent repliers, repliers coming back.
//
// What is judged here (the trigger-counting rules live in c04Run, where the
// peers are scripted and every hand-off is stamped):
//   - every copy of a request that a REP application receives is byte-identical
//     to what the REQ application sent;
//   - the request completes with the answer to *it* within (losses + 1) retry
//     intervals after the last fault;
//   - once answered it is not transmitted again.
// The message ledger (C17) is active as in every run: a retransmission built
// from a released message is reported there.

type c4sCopy struct {
	rep  int
	body []byte
	at   time.Duration
}

// resetSomeConn resets one open simulated connection (tape-chosen).
func resetSomeConn(w *W, prefix string) bool {
	var open []*NetConn
	for _, c := range curNet.conns {
		if !c.IsClosed() && strings.HasPrefix(c.local.String(), prefix) {
			open = append(open, c)
		}
	}
	if len(open) == 0 {
		return false
	}
	c := open[w.Choose(simrt.SNet, len(open))]
	w.Op("connection %s -> %s is reset", c.local, c.remote)
	w.Fault("reset")
	c.Reset()
	return true
}

func c04Stream(w *W) {
	tran := w.simFallback([]string{"sim", "simipc", "tcp", "inproc", "ipc", "tls+tcp", "ws", "wss"}[w.Choose(simrt.SShape, 8)])
	R := []time.Duration{20 * time.Millisecond, 100 * time.Millisecond, time.Second}[w.Choose(simrt.SShape, 3)]
	nrep := 1 + w.Choose(simrt.SShape, 3)
	nreq := 1 + w.Choose(simrt.SShape, 5)
	w.SetShape("tran", tran)
	w.SetShape("retry", R.String())
	w.SetShape("reps", nrep)
	w.UseNet(NetCfg{Segment: w.Choose(simrt.SShape, 2) == 0, BufCap: []int{0, 64, 300}[w.Choose(simrt.SShape, 3)],
		Latency: []time.Duration{0, 0, 200 * time.Microsecond}[w.Choose(simrt.SShape, 3)], WriteChunk: w.Choose(simrt.SShape, 2) == 0})
	req := w.Sock("req")
	defer req.Close()
	mustSet(w, req, mangos.OptionRetryTime, R)
	mustSet(w, req, mangos.OptionSendDeadline, 2*time.Second)
	addr := w.Addr(tran)
	if err := w.ListenOn(req, addr); err != nil {
		w.Failf("HARNESS/listen", "%v", err)
		return
	}
	want := map[string][]byte{} // tag -> body as sent
	var copies []c4sCopy
	silent := 0 // how many more received copies repliers may ignore
	stop := false
	var reps []mangos.Socket
	for i := 0; i < nrep; i++ {
		i := i
		r := w.Sock("rep")
		defer r.Close()
		mustSet(w, r, mangos.OptionReconnectTime, 5*time.Millisecond)
		mustSet(w, r, mangos.OptionMaxReconnectTime, 5*time.Millisecond)
		mustSet(w, r, mangos.OptionRecvDeadline, 3*time.Millisecond)
		mustSet(w, r, mangos.OptionSendDeadline, 50*time.Millisecond)
		mustSet(w, r, mangos.OptionDialAsynch, true)
		if err := w.DialOn(r, addr); err != nil {
			w.Failf("HARNESS/dial", "%v", err)
			return
		}
		reps = append(reps, r)
		w.Do(fmt.Sprintf("replier%d", i), func() (interface{}, error) {
			for !stop {
				m, err := r.RecvMsg()
				if err != nil {
					if err == mangos.ErrClosed {
						return nil, nil
					}
					continue
				}
				cp := append([]byte(nil), m.Body...)
				m.Free()
				copies = append(copies, c4sCopy{i, cp, w.Now()})
				if silent > 0 {
					silent--
					w.Fault("silent-peer")
					continue
				}
				tag := cp
				if k := bytes.IndexByte(cp, '|'); k >= 0 {
					tag = cp[:k]
				}
				_ = r.Send(append([]byte("re:"), tag...))
			}
			return nil, nil
		})
	}
	w.Sleep(10 * time.Millisecond)
	w.Settle()
	seen := 0
	checkCopies := func(answered map[string]time.Duration) bool {
		for ; seen < len(copies); seen++ {
			c := copies[seen]
			tag := string(c.body)
			if k := bytes.IndexByte(c.body, '|'); k >= 0 {
				tag = string(c.body[:k])
			}
			exp, ok := want[tag]
			if !ok || !bytes.Equal(exp, c.body) {
				w.Failf("C04/retransmission-differs", "replier %d received a request of %d bytes %q; the REQ application sent %q (%d bytes): not a byte-identical copy of any request", c.rep, len(c.body), clip(c.body), clip(exp), len(exp))
				return false
			}
			if t, ok := answered[tag]; ok && c.at > t+150*time.Millisecond {
				w.Failf("C04/resent-after-done", "request %s was answered at %v, yet a replier received another copy at %v", tag, t, c.at)
				return false
			}
			w.Delivery++
		}
		return true
	}
	answered := map[string]time.Duration{}
	for i := 0; i < nreq && !w.Failed(); i++ {
		tag := fmt.Sprintf("q%d", i)
		sz := []int{0, 1, 30, 60, 120, 500, 1000, 4000, 9000}[w.Choose(simrt.SProg, 9)]
		body := patBody(tag, sz)
		want[tag] = body
		losses := 0
		silent = w.Choose(simrt.SProg, 3)
		if nrep == 1 && silent > 1 {
			silent = 1
		}
		losses += silent
		w.Op("Send %s (%d bytes), %d copies will be ignored", tag, len(body), silent)
		sc := w.Do("Send "+tag, func() (interface{}, error) { return nil, req.Send(body) })
		nreset := w.Choose(simrt.SProg, 3)
		if tran == "inproc" {
			nreset = 0
		}
		for k := 0; k < nreset; k++ {
			// land the reset inside the write / read of the request
			for y := w.Choose(simrt.SNet, 60); y > 0; y-- {
				simrt.Yield()
			}
			if w.Choose(simrt.SProg, 2) == 0 {
				w.Sleep(time.Duration(w.Choose(simrt.SProg, int(R/time.Microsecond))) * time.Microsecond)
			}
			if resetSomeConn(w, "") {
				losses++
			}
		}
		if !sc.Wait(3 * time.Second) {
			w.WedgeCheck("C12")
			w.Failf("C04/send-stuck", "Send %s did not return within its 2s deadline", tag)
			return
		}
		if sc.Err != nil {
			// no replier connected for 2s: cannot happen, they redial every 5ms
			w.Failf("C04/send-failed", "Send %s: %v although %d repliers redial every 5ms", tag, sc.Err, nrep)
			return
		}
		// faults have stopped: every loss (ignored copy, reset) costs at most one
		// retry interval (plus the 5ms redial)
		bound := time.Duration(losses+2)*(R+80*time.Millisecond) + 200*time.Millisecond
		mustSet(w, req, mangos.OptionRecvDeadline, bound+time.Second)
		rc := w.Do("Recv "+tag, func() (interface{}, error) { return req.Recv() })
		if !rc.Wait(bound) {
			checkCopies(answered)
			if w.Failed() {
				return
			}
			w.WedgeCheck("C12")
			w.Failf("C04/no-answer-after-faults", "request %s: %d losses (ignored copies and resets), retry interval %v, %d repliers redialling every 5ms; no answer %v after the last fault (copies received so far: %d)", tag, losses, R, nrep, bound, len(copies))
			return
		}
		if rc.Err != nil || string(rc.Val.([]byte)) != "re:"+tag {
			w.Failf("C03/wrong-reply", "request %s: Recv returned (%q, %v)", tag, rc.Val, errName(rc.Err))
			return
		}
		answered[tag] = w.Now()
		if !checkCopies(answered) {
			return
		}
		if w.Choose(simrt.SProg, 3) == 0 {
			w.Sleep(2*R + 200*time.Millisecond)
			if !checkCopies(answered) {
				return
			}
		}
		if losses > 0 {
			w.Probe("completed-after-losses")
		}
	}
	w.Sleep(2*R + 200*time.Millisecond)
	w.Settle()
	checkCopies(answered)
	stop = true
}

func init() {
	register(&Scenario{Name: "req-retry-stream", Prop: "C04", Horizon: time.Hour, Weight: 1, Run: c04Stream})
	// the same run judged as a byte-fidelity check: what the far application
	// receives under resets and retransmissions is what was sent (C01)
	register(&Scenario{Name: "retransmission-bytes", Prop: "C01", Horizon: time.Hour, Weight: 1, Run: c04Stream})
}
