package harness

import (
	"encoding/binary"
	"fmt"
	"sort"
	"strings"
	"time"

	"go.nanomsg.org/mangos/v3"
	"go.nanomsg.org/mangos/v3/verifsim/simrt"
)

// C03: REQ returns only the reply to its current request.
//
// Operations are issued in batches of 1..3 without a settle in between (so
// they genuinely overlap under the tape's schedule); after the batch settles,
// the observed outcomes of all Recv calls must be explained by at least one
// serialisation of the batch against the sequential REQ-context model below.
// The set of model states compatible with everything seen so far is carried
// from batch to batch (a small linearizability check specialised to this
// model).

type m3Ctx struct {
	cur       int // request index, -1 none
	id        uint32
	hasAnswer bool
	answer    string
	recv      int // pending Recv call index, -1 none
	closed    bool
}

type m3State struct {
	ctxs     []m3Ctx
	outcomes map[int]string // Recv call index -> outcome
}

func (s m3State) clone() m3State {
	n := m3State{ctxs: append([]m3Ctx(nil), s.ctxs...), outcomes: map[int]string{}}
	for k, v := range s.outcomes {
		n.outcomes[k] = v
	}
	return n
}

func (s m3State) key() string {
	var sb strings.Builder
	for _, c := range s.ctxs {
		fmt.Fprintf(&sb, "%d,%x,%v,%s,%d,%v;", c.cur, c.id, c.hasAnswer, c.answer, c.recv, c.closed)
	}
	ks := make([]int, 0, len(s.outcomes))
	for k := range s.outcomes {
		ks = append(ks, k)
	}
	sort.Ints(ks)
	for _, k := range ks {
		fmt.Fprintf(&sb, "%d=%s;", k, s.outcomes[k])
	}
	return sb.String()
}

type m3Op struct {
	kind  string // send, inject, recv, close
	ctx   int
	req   int
	id    uint32
	tag   string
	short bool
	call  int
	desc  string
}

func (s *m3State) apply(op m3Op) {
	switch op.kind {
	case "send":
		c := &s.ctxs[op.ctx]
		if c.recv >= 0 {
			s.outcomes[c.recv] = "err:" + mangos.ErrCanceled.Error()
			c.recv = -1
		}
		c.cur, c.id, c.hasAnswer, c.answer = op.req, op.id, false, ""
	case "inject":
		if op.short {
			return
		}
		for i := range s.ctxs {
			c := &s.ctxs[i]
			if c.cur >= 0 && !c.closed && c.id == op.id && !c.hasAnswer {
				c.hasAnswer, c.answer = true, op.tag
				if c.recv >= 0 {
					s.outcomes[c.recv] = "val:" + op.tag
					c.recv = -1
					c.cur = -1
					c.hasAnswer = false
				}
				return
			}
		}
	case "recv":
		c := &s.ctxs[op.ctx]
		switch {
		case c.closed:
			s.outcomes[op.call] = "err:" + mangos.ErrClosed.Error()
		case c.recv >= 0 || c.cur < 0:
			s.outcomes[op.call] = "err:" + mangos.ErrProtoState.Error()
		case c.hasAnswer:
			s.outcomes[op.call] = "val:" + c.answer
			c.cur, c.hasAnswer, c.answer = -1, false, ""
		default:
			c.recv = op.call
		}
	case "expire":
		// the receive deadline of this context has passed: a Recv still
		// waiting fails with the timeout error and its request is abandoned
		c := &s.ctxs[op.ctx]
		if c.recv >= 0 {
			s.outcomes[c.recv] = "err:" + mangos.ErrRecvTimeout.Error()
			c.recv = -1
			c.cur, c.hasAnswer, c.answer = -1, false, ""
		}
	case "close":
		c := &s.ctxs[op.ctx]
		c.closed = true
		if c.recv >= 0 {
			s.outcomes[c.recv] = "err:" + mangos.ErrClosed.Error()
			c.recv = -1
		}
		c.cur = -1
	}
}

func permutations(n int) [][]int {
	if n == 1 {
		return [][]int{{0}}
	}
	var out [][]int
	var rec func(cur []int, used int)
	rec = func(cur []int, used int) {
		if len(cur) == n {
			out = append(out, append([]int(nil), cur...))
			return
		}
		for i := 0; i < n; i++ {
			if used&(1<<i) == 0 {
				rec(append(cur, i), used|1<<i)
			}
		}
	}
	rec(nil, 0)
	return out
}

func c03Run(w *W) {
	nctx := 1 + w.Choose(simrt.SShape, 3)
	npipes := 1 + w.Choose(simrt.SShape, 3)
	nbatch := 3 + w.Choose(simrt.SShape, 8)
	w.SetShape("ctxs", nctx)
	w.SetShape("pipes", npipes)
	if w.Choose(simrt.SShape, 5) == 0 {
		w.AlignIDSeed(uint32(w.Choose(simrt.SShape, 6)))
		w.SetShape("ids_cross_wrap", true)
	}
	b := newReqBench(w, time.Hour, nctx, npipes, false)
	defer b.s.Close()
	// up to two more contexts are opened in the middle of the history (while
	// other contexts have requests outstanding or answers waiting): a context
	// starts with no request, whatever the others are doing
	nlate := w.Choose(simrt.SShape, 3)
	live := nctx
	forceRecv := -1

	states := []m3State{{outcomes: map[int]string{}}}
	for i := 0; i < nctx+nlate; i++ {
		states[0].ctxs = append(states[0].ctxs, m3Ctx{cur: -1, recv: -1})
	}
	// in half of the runs some contexts have a receive deadline (10 s, far
	// beyond the pauses between batches); an explicit step lets it pass for
	// every Recv waiting at that moment. A request whose Recv timed out is
	// abandoned like a cancelled one: its late reply is never delivered.
	const c03Deadline = 10 * time.Second
	hasDeadline := map[int]bool{}
	withDeadlines := w.Choose(simrt.SShape, 2) == 0
	setDeadline := func(ci int) {
		if !withDeadlines || b.ctxs[ci].c == nil || w.Choose(simrt.SShape, 2) != 0 {
			return
		}
		if err := b.ctxs[ci].c.SetOption(mangos.OptionRecvDeadline, c03Deadline); err != nil {
			w.Failf("HARNESS/deadline", "%v", err)
			return
		}
		hasDeadline[ci] = true
	}
	for ci := range b.ctxs {
		setDeadline(ci)
	}
	var recvCalls []*Call
	var recvDesc []string
	ids := map[int][]uint32{} // ctx -> ids of its requests, oldest first
	replyN := 0
	sendInFlight := map[int]bool{}
	counted := map[int]bool{}

	for bi := 0; bi < nbatch && !w.Failed(); bi++ {
		k := 1
		switch w.Choose(simrt.SProg, 4) {
		case 0:
			k = 2
		case 1:
			k = 3
		}
		var ops []m3Op
		type pendingSend struct {
			opIdx int
			q     *reqReq
		}
		var sends []pendingSend
		usedCtxSend := map[int]bool{}
		usedCtxClose := map[int]bool{}
		if len(hasDeadline) > 0 && bi > 0 && w.Choose(simrt.SProg, 4) == 0 {
			// the deadline step: nothing else happens in this batch
			k = 0
			w.Sleep(c03Deadline + time.Second)
			w.Op("%v pass: receive deadlines of contexts %v expire", c03Deadline+time.Second, sortedKeys(hasDeadline))
			for _, ci := range sortedKeys(hasDeadline) {
				ops = append(ops, m3Op{kind: "expire", ctx: ci, desc: fmt.Sprintf("ctx%d receive deadline passes", ci)})
			}
			w.Probe("receive-deadline-step")
		}
		for oi := 0; oi < k; oi++ {
			kind := w.Choose(simrt.SProg, 10)
			a := w.Choose(simrt.SProg, 64)
			ci := a % live
			if forceRecv >= 0 && oi == 0 {
				ci, kind = forceRecv, 3
				forceRecv = -1
			}
			c := b.ctxs[ci]
			switch {
			case kind <= 2: // send
				if c.closed || usedCtxSend[ci] || usedCtxClose[ci] || sendInFlight[ci] {
					continue
				}
				usedCtxSend[ci] = true
				q := b.newReq(c)
				ops = append(ops, m3Op{kind: "send", ctx: ci, req: len(b.reqs) - 1, desc: "Send " + q.tag})
				sends = append(sends, pendingSend{len(ops) - 1, q})
				w.Op("ctx%d Send %s", ci, q.tag)
			case kind <= 4: // recv
				if c.closed && w.Choose(simrt.SProg, 2) == 0 {
					continue
				}
				idx := len(recvCalls)
				call := w.Do(fmt.Sprintf("Recv#%d ctx%d", idx, ci), func() (interface{}, error) { return c.Recv() })
				recvCalls = append(recvCalls, call)
				recvDesc = append(recvDesc, fmt.Sprintf("Recv#%d on ctx%d", idx, ci))
				ops = append(ops, m3Op{kind: "recv", ctx: ci, call: idx, desc: recvDesc[idx]})
				w.Op("ctx%d Recv#%d", ci, idx)
			case kind <= 8: // peer injects something
				open := b.openPipes(w.Now(), nil)
				if len(open) == 0 {
					continue
				}
				p := open[(a/4)%len(open)]
				var id uint32
				short := false
				what := ""
				mine := ids[ci]
				prefix := 0
				switch w.Choose(simrt.SProg, 9) {
				case 8: // routing words (no request bit) in front of the current id: a reply's header is the id alone
					if len(mine) == 0 {
						continue
					}
					prefix = 1 + w.Choose(simrt.SProg, 3)
					id, what = uint32(w.Choose(simrt.SProg, 1<<30))&0x7fffffff, fmt.Sprintf("%d words without the request bit, then the current id", prefix)
					w.Fault("msg-malformed")
					w.Probe("reply-with-leading-routing-words")
				case 0, 1, 2: // current id of ctx
					if len(mine) == 0 {
						continue
					}
					id, what = mine[len(mine)-1], "current"
				case 3: // an earlier id of the same ctx
					if len(mine) < 2 {
						continue
					}
					id, what = mine[w.Choose(simrt.SProg, len(mine)-1)], "stale"
					w.Fault("msg-stale")
				case 4: // another context's current id
					oc := (ci + 1) % live
					if oc == ci || len(ids[oc]) == 0 {
						continue
					}
					id, what = ids[oc][len(ids[oc])-1], fmt.Sprintf("ctx%d-current", oc)
					w.Fault("msg-foreign")
				case 5: // current id without the request bit
					if len(mine) == 0 {
						continue
					}
					id, what = mine[len(mine)-1]&0x7fffffff, "no-top-bit"
					w.Fault("msg-malformed")
				case 6: // random id
					id, what = uint32(w.Choose(simrt.SProg, 1<<30))|0x80000000, "random"
					w.Fault("msg-foreign")
				case 7: // short body
					short, what = true, "short"
					w.Fault("msg-malformed")
				}
				replyN++
				tag := fmt.Sprintf("reply%d", replyN)
				if !short && w.Choose(simrt.SProg, 8) == 0 {
					tag = "" // a reply with an empty body: exactly the 4 id bytes on the wire
					w.Probe("empty-reply")
				}
				var wire []byte
				if short {
					wire = []byte("abc")[:w.Choose(simrt.SProg, 4)]
				} else {
					wire = u32(id)
					for k := 1; k < prefix; k++ {
						wire = append(wire, u32(uint32(w.Choose(simrt.SProg, 1<<30))&0x7fffffff)...)
					}
					if prefix > 0 {
						wire = append(wire, u32(mine[len(mine)-1])...)
					}
					wire = append(wire, tag...)
				}
				ops = append(ops, m3Op{kind: "inject", id: id, tag: tag, short: short, desc: fmt.Sprintf("inject %s id=%08x (%s) on %s", tag, id, what, p.Name)})
				w.Op("peer %s injects %s id=%08x (%s)", p.Name, tag, id, what)
				p.Inject(wire)
			case kind == 9: // close a non-default context
				if c.c == nil || c.closed || usedCtxSend[ci] {
					continue
				}
				usedCtxClose[ci] = true
				c.closed = true
				cc := c.c
				w.Do(fmt.Sprintf("ctx%d.Close", ci), func() (interface{}, error) { return nil, cc.Close() })
				ops = append(ops, m3Op{kind: "close", ctx: ci, desc: fmt.Sprintf("ctx%d Close", ci)})
				w.Op("ctx%d Close", ci)
			}
		}
		w.Settle()
		if w.Failed() {
			return
		}
		// learn the ids of the requests sent in this batch
		for _, ps := range sends {
			if !ps.q.send.Returned() {
				// Send has not completed although a pipe is available
				w.Failf("C03/send-stuck", "Send %s did not return although %d pipes are open", ps.q.tag, len(b.openPipes(w.Now(), nil)))
				return
			}
			if ps.q.send.Err != nil {
				w.Failf("C03/send-failed", "Send %s: %v", ps.q.tag, ps.q.send.Err)
				return
			}
			if len(ps.q.txs) == 0 {
				w.Failf("C03/not-transmitted", "Send %s returned but nothing was transmitted", ps.q.tag)
				return
			}
			id := binary.BigEndian.Uint32(ps.q.txs[0].raw)
			if id&0x80000000 == 0 {
				w.Failf("C03/request-id-without-top-bit", "request %s transmitted with id %08x", ps.q.tag, id)
			}
			// every request has an id of its own: a reply to an earlier request
			// of any context can then never pass for the reply to this one
			for cx, old := range ids {
				for _, o := range old {
					if o == id {
						w.Failf("C03/request-id-reused", "request %s of ctx%d was transmitted with id %08x, the id an earlier request (of ctx%d) went out with", ps.q.tag, ps.q.ctx, id, cx)
						return
					}
				}
			}
			ops[ps.opIdx].id = id
			ids[ps.q.ctx] = append(ids[ps.q.ctx], id)
		}
		if len(ops) == 0 {
			continue
		}
		// observed outcomes
		observed := map[int]string{}
		for i, c := range recvCalls {
			if c.Returned() {
				if c.Err != nil {
					observed[i] = "err:" + c.Err.Error()
				} else {
					observed[i] = "val:" + string(c.Val.([]byte))
				}
			}
		}
		// which serialisations explain them?
		next := map[string]m3State{}
		for _, st := range states {
			for _, perm := range permutations(len(ops)) {
				ns := st.clone()
				for _, oi := range perm {
					ns.apply(ops[oi])
				}
				ok := len(ns.outcomes) == len(observed)
				if ok {
					for k, v := range observed {
						if ns.outcomes[k] != v {
							ok = false
							break
						}
					}
				}
				if ok {
					next[ns.key()] = ns
				}
			}
		}
		if len(next) == 0 {
			var descs []string
			for _, o := range ops {
				descs = append(descs, o.desc)
			}
			var obs []string
			for i := range recvCalls {
				if v, ok := observed[i]; ok {
					obs = append(obs, fmt.Sprintf("%s -> %s", recvDesc[i], v))
				} else {
					obs = append(obs, fmt.Sprintf("%s -> pending", recvDesc[i]))
				}
			}
			exp := states[0].clone()
			for _, o := range ops {
				exp.apply(o)
			}
			class := "C03/history-not-explained"
			// sharpen the class key for the common cases
			for i, v := range observed {
				if strings.HasPrefix(v, "val:") {
					legit := false
					for _, st := range states {
						for _, perm := range permutations(len(ops)) {
							ns := st.clone()
							for _, oi := range perm {
								ns.apply(ops[oi])
							}
							if ns.outcomes[i] == v {
								legit = true
							}
						}
					}
					if !legit {
						class = "C03/wrong-reply-delivered"
					}
				}
			}
			w.Failf(class, "no serialisation of the batch {%s} explains the Recv outcomes: %s (one sequential expectation: %v)", strings.Join(descs, " | "), strings.Join(obs, "; "), exp.outcomes)
			return
		}
		states = states[:0]
		keys := make([]string, 0, len(next))
		for k := range next {
			keys = append(keys, k)
		}
		sort.Strings(keys)
		for _, k := range keys {
			states = append(states, next[k])
			if len(states) >= 16 {
				break
			}
		}
		if len(keys) > 1 {
			w.Probe("ambiguous-serialisation")
		}
		w.StateHash(h64(keys[0]))
		for i, v := range observed {
			if counted[i] {
				continue
			}
			counted[i] = true
			if strings.HasPrefix(v, "val:") {
				w.Delivery++
			}
			if v == "err:"+mangos.ErrCanceled.Error() {
				w.Probe("recv-cancelled-by-send")
			}
			if v == "err:"+mangos.ErrProtoState.Error() {
				w.Probe("recv-protostate")
			}
			if v == "err:"+mangos.ErrRecvTimeout.Error() {
				w.Probe("recv-timed-out")
			}
		}
		if w.Choose(simrt.SProg, 4) == 0 {
			w.Sleep(time.Duration(1+w.Choose(simrt.SProg, 50)) * time.Millisecond)
			w.Settle()
		}
		if live < nctx+nlate && w.Choose(simrt.SProg, 3) == 0 {
			c, err := b.s.OpenContext()
			if err != nil {
				w.Failf("HARNESS/ctx", "%v", err)
				return
			}
			b.ctxs = append(b.ctxs, &reqCtx{idx: live, c: c, s: b.s, R: time.Hour})
			setDeadline(live)
			w.Op("ctx%d opened", live)
			if w.Choose(simrt.SProg, 2) == 0 {
				forceRecv = live
			}
			live++
			w.Probe("context-opened-mid-history")
		}
	}
}

func init() {
	register(&Scenario{Name: "req-replies", Prop: "C03", Horizon: 30 * time.Minute, Weight: 40, Run: c03Run})
}

func sortedKeys(m map[int]bool) []int {
	ks := make([]int, 0, len(m))
	for k := range m {
		ks = append(ks, k)
	}
	sort.Ints(ks)
	return ks
}
