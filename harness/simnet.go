package harness

// simnet: an in-memory network owned by the run. Connections implement
// net.Conn faithfully enough for mangos' SP stream code, crypto/tls and
// net/http: partial reads, buffered data before EOF on orderly close, discard
// on reset, Close unblocking pending calls, deadlines, real net.Addr values.
// All blocking goes through ssync, so the scheduler sees it.

import (
	"fmt"
	"io"
	"net"
	"os"
	"path/filepath"
	"strings"
	"syscall"
	"time"

	sync "go.nanomsg.org/mangos/v3/verifsim/ssync"

	"go.nanomsg.org/mangos/v3/verifsim/simrt"
)

type NetCfg struct {
	Segment    bool          // reads return tape-chosen partial amounts
	Latency    time.Duration // max per-segment delivery delay (0 = none)
	BufCap     int           // per-direction buffer capacity (0 = unbounded); never below 64
	WriteChunk bool          // writes are delivered in tape-chosen chunks
}

type Net struct {
	w         *W
	mu        sync.Mutex
	listeners map[string]*NetListener
	conns     []*NetConn
	Cfg       NetCfg
	nextPort  int
	// DialPlan: per address, outcomes consumed one per Dial ("ok", "refuse").
	DialPlan map[string][]string
	// OnDial is told about every Dial attempt (address, simulated time).
	OnDial func(addr string, outcome string)
	// Intercept: per address, connections are not queued to a listener but
	// handed to this function (scripted byte-level peers).
	Intercept map[string]func(c *NetConn)
}

func NewNet(w *W) *Net {
	return &Net{w: w, listeners: map[string]*NetListener{}, DialPlan: map[string][]string{}, Intercept: map[string]func(c *NetConn){}, nextPort: 40000}
}

type simAddr struct{ net, s string }

func (a simAddr) Network() string { return a.net }
func (a simAddr) String() string  { return a.s }

type NetListener struct {
	n       *Net
	addr    string
	naddr   net.Addr // typed address for listeners made through the snet backend
	mu      *sync.Mutex
	cv      *sync.Cond
	backlog []*NetConn
	closed  bool
}

func (n *Net) Listen(addr string) (*NetListener, error) {
	n.mu.Lock()
	defer n.mu.Unlock()
	if _, ok := n.listeners[addr]; ok {
		return nil, &net.OpError{Op: "listen", Net: "sim", Err: os.NewSyscallError("bind", syscall.EADDRINUSE)}
	}
	l := &NetListener{n: n, addr: addr, mu: &sync.Mutex{}}
	l.cv = sync.NewCond(l.mu)
	n.listeners[addr] = l
	return l, nil
}

func (l *NetListener) Accept() (net.Conn, error) {
	c, err := l.AcceptSim()
	if err != nil {
		return nil, err
	}
	return c, nil
}

func (l *NetListener) AcceptSim() (*NetConn, error) {
	l.mu.Lock()
	defer l.mu.Unlock()
	for len(l.backlog) == 0 && !l.closed {
		l.cv.Wait()
	}
	if l.closed {
		return nil, net.ErrClosed
	}
	c := l.backlog[0]
	l.backlog = l.backlog[1:]
	return c, nil
}

func (l *NetListener) Close() error {
	l.n.mu.LockQuiet()
	if l.n.listeners[l.addr] == l {
		delete(l.n.listeners, l.addr)
	}
	l.n.mu.UnlockQuiet()
	l.mu.LockQuiet()
	if l.closed {
		l.mu.UnlockQuiet()
		return net.ErrClosed
	}
	l.closed = true
	bl := l.backlog
	l.backlog = nil
	l.cv.Broadcast()
	l.mu.UnlockQuiet()
	for _, c := range bl {
		c.Reset()
	}
	return nil
}

func (l *NetListener) Addr() net.Addr {
	if l.naddr != nil {
		return l.naddr
	}
	return simAddr{"sim", l.addr}
}

// Listening reports whether addr is bound.
func (n *Net) Listening(addr string) bool {
	n.mu.Lock()
	defer n.mu.Unlock()
	_, ok := n.listeners[addr]
	return ok
}

var errRefused = &net.OpError{Op: "dial", Net: "sim", Err: os.NewSyscallError("connect", syscall.ECONNREFUSED)}

// Dial connects to addr; the returned conn is the client end.
func (n *Net) Dial(addr string) (*NetConn, error) { return n.dial(addr, nil) }

func (n *Net) dial(addr string, typed func(port int) (net.Addr, net.Addr)) (*NetConn, error) {
	n.mu.Lock()
	outcome := "ok"
	if plan := n.DialPlan[addr]; len(plan) > 0 {
		outcome = plan[0]
		n.DialPlan[addr] = plan[1:]
	}
	icpt := n.Intercept[addr]
	l := n.listeners[addr]
	if outcome == "ok" && l == nil && icpt == nil {
		outcome = "refuse-nolistener"
	}
	n.nextPort++
	port := n.nextPort
	n.mu.Unlock()
	if n.OnDial != nil {
		n.OnDial(addr, outcome)
	}
	if outcome != "ok" {
		if outcome == "refuse" {
			n.w.Fault("refuse")
		}
		return nil, errRefused
	}
	var ca, sa net.Addr = simAddr{"sim", fmt.Sprintf("client:%d", port)}, simAddr{"sim", addr}
	if typed != nil {
		ca, sa = typed(port)
	}
	c, s := n.pair(ca, sa)
	if icpt != nil {
		icpt(s)
		return c, nil
	}
	l.mu.Lock()
	if l.closed {
		l.mu.Unlock()
		c.Reset() // the pair never existed as far as either side can tell
		return nil, errRefused
	}
	l.backlog = append(l.backlog, s)
	l.cv.Broadcast()
	l.mu.Unlock()
	return c, nil
}

// ------------------------------------------------------------------ snet backend

// netBackend is what verifsim/snet calls in a simulated run: transport/tcp,
// transport/ipc and transport/tlstcp (import "net" rewritten to snet) open
// their connections and listeners here.
type netBackend struct{ n *Net }

// NetKey is the simulated network's name for a mangos address of a real
// stream transport (tcp://, tls+tcp://, ipc://) or of sim:// / simipc://.
func NetKey(url string) string {
	i := strings.Index(url, "://")
	if i < 0 {
		return url
	}
	scheme, rest := url[:i], url[i+3:]
	switch scheme {
	case "tcp", "tls+tcp":
		if k, _, err := tcpKey(rest); err == nil {
			return k
		}
	case "ws", "wss":
		if j := strings.IndexByte(rest, '/'); j >= 0 {
			rest = rest[:j]
		}
		if k, _, err := tcpKey(rest); err == nil {
			return k
		}
	}
	return rest
}

func tcpKey(address string) (string, *net.TCPAddr, error) {
	ta, err := net.ResolveTCPAddr("tcp", address)
	if err != nil {
		return "", nil, err
	}
	if ta.IP == nil || ta.IP.IsUnspecified() {
		ta.IP = net.IPv4(127, 0, 0, 1)
	}
	return ta.String(), ta, nil
}

func (b netBackend) Listen(network, address string) (net.Listener, error) {
	n := b.n
	switch network {
	case "tcp", "tcp4", "tcp6":
		key, ta, err := tcpKey(address)
		if err != nil {
			return nil, &net.OpError{Op: "listen", Net: network, Err: err}
		}
		// a wildcard listener reports the wildcard as its own address (its
		// connections report the address that was dialled)
		if orig, e2 := net.ResolveTCPAddr("tcp", address); e2 == nil && (orig.IP == nil || orig.IP.IsUnspecified()) {
			if orig.IP == nil {
				orig.IP = net.IPv6unspecified
			}
			ta = &net.TCPAddr{IP: orig.IP, Port: ta.Port}
		}
		// 203.0.113.0/24 (TEST-NET-3) stands for "not an address of this host"
		if ip4 := ta.IP.To4(); ip4 != nil && ip4[0] == 203 && ip4[1] == 0 && ip4[2] == 113 {
			return nil, &net.OpError{Op: "listen", Net: network, Addr: ta, Err: os.NewSyscallError("bind", syscall.EADDRNOTAVAIL)}
		}
		if ta.Port == 0 {
			n.mu.Lock()
			n.nextPort++
			ta.Port = n.nextPort
			n.mu.Unlock()
			key = net.JoinHostPort("127.0.0.1", fmt.Sprint(ta.Port))
			if !ta.IP.IsUnspecified() {
				key = ta.String()
			}
		}
		l, err := n.Listen(key)
		if err != nil {
			return nil, err
		}
		l.naddr = ta
		return l, nil
	case "unix":
		// the socket file is never created, but its directory must exist as
		// it must for a real bind
		if _, err := os.Stat(filepath.Dir(address)); err != nil {
			return nil, &net.OpError{Op: "listen", Net: network, Err: os.NewSyscallError("bind", syscall.ENOENT)}
		}
		l, err := n.Listen(address)
		if err != nil {
			return nil, err
		}
		l.naddr = &net.UnixAddr{Name: address, Net: "unix"}
		return l, nil
	}
	return nil, &net.OpError{Op: "listen", Net: network, Err: net.UnknownNetworkError(network)}
}

func (b netBackend) Dial(network, address string) (net.Conn, error) {
	n := b.n
	switch network {
	case "tcp", "tcp4", "tcp6":
		key, ta, err := tcpKey(address)
		if err != nil {
			return nil, &net.OpError{Op: "dial", Net: network, Err: err}
		}
		c, err := n.dial(key, func(port int) (net.Addr, net.Addr) {
			return &net.TCPAddr{IP: net.IPv4(127, 0, 0, 1), Port: port}, ta
		})
		if err != nil {
			return nil, err
		}
		return c, nil
	case "unix":
		c, err := n.dial(address, func(port int) (net.Addr, net.Addr) {
			return &net.UnixAddr{Name: "", Net: "unix"}, &net.UnixAddr{Name: address, Net: "unix"}
		})
		if err != nil {
			return nil, err
		}
		return c, nil
	}
	return nil, &net.OpError{Op: "dial", Net: network, Err: net.UnknownNetworkError(network)}
}

// ------------------------------------------------------------------ conns

type pendSeg struct {
	rel  time.Duration
	data []byte
}

type half struct {
	pend     []pendSeg
	buf      []byte
	inflight int // bytes written but not yet readable (latency)
	lastRel  time.Duration
	wclosed  bool // writer closed: EOF once drained
	rclosed  bool // reader closed its end
}

type NetConn struct {
	n        *Net
	mu       *sync.Mutex
	cv       *sync.Cond
	rd, wr   *half
	local    net.Addr
	remote   net.Addr
	peer     *NetConn
	closed   bool
	reset    *bool
	rdl, wdl time.Time
	Name     string
	// counters
	BytesRead, BytesWritten int
}

func (n *Net) pair(ca, sa net.Addr) (*NetConn, *NetConn) {
	mu := &sync.Mutex{}
	cv := sync.NewCond(mu)
	a2b, b2a := &half{}, &half{}
	rst := new(bool)
	c := &NetConn{n: n, mu: mu, cv: cv, rd: b2a, wr: a2b, local: ca, remote: sa, reset: rst}
	s := &NetConn{n: n, mu: mu, cv: cv, rd: a2b, wr: b2a, local: sa, remote: ca, reset: rst}
	c.peer, s.peer = s, c
	n.mu.Lock()
	n.conns = append(n.conns, c, s)
	n.mu.Unlock()
	return c, s
}

// Pipe returns a connected pair outside of any listener.
func (n *Net) Pipe() (*NetConn, *NetConn) {
	n.mu.Lock()
	n.nextPort++
	p := n.nextPort
	n.mu.Unlock()
	return n.pair(simAddr{"sim", fmt.Sprintf("a:%d", p)}, simAddr{"sim", fmt.Sprintf("b:%d", p)})
}

func (c *NetConn) cap() int {
	k := c.n.Cfg.BufCap
	if k > 0 && k < 64 {
		k = 64
	}
	return k
}

type timeoutErr struct{}

func (timeoutErr) Error() string     { return "i/o timeout" }
func (timeoutErr) Timeout() bool     { return true }
func (timeoutErr) Temporary() bool   { return true }
func (timeoutErr) Is(err error) bool { return err == os.ErrDeadlineExceeded }

func (c *NetConn) Read(p []byte) (int, error) {
	c.mu.Lock()
	defer c.mu.Unlock()
	for {
		if c.closed {
			return 0, net.ErrClosed
		}
		if *c.reset {
			return 0, &net.OpError{Op: "read", Net: "sim", Err: os.NewSyscallError("read", syscall.ECONNRESET)}
		}
		if len(p) == 0 {
			return 0, nil
		}
		if len(c.rd.buf) > 0 {
			n := len(c.rd.buf)
			if n > len(p) {
				n = len(p)
			}
			if c.n.Cfg.Segment && n > 1 {
				// biased to short reads
				switch c.n.w.Choose(simrt.SNet, 4) {
				case 0:
					n = 1
				case 1:
					n = 1 + c.n.w.Choose(simrt.SNet, n)
				case 2:
					if n > 8 {
						n = 1 + c.n.w.Choose(simrt.SNet, 8)
					}
				}
				c.n.w.Fault("segment")
			}
			copy(p, c.rd.buf[:n])
			c.rd.buf = c.rd.buf[n:]
			c.BytesRead += n
			c.cv.Broadcast()
			return n, nil
		}
		if c.rd.wclosed && c.rd.inflight == 0 {
			return 0, io.EOF
		}
		if !c.rdl.IsZero() && !time.Now().Before(c.rdl) {
			return 0, &net.OpError{Op: "read", Net: "sim", Err: timeoutErr{}}
		}
		c.cv.Wait()
	}
}

func (c *NetConn) Write(p []byte) (int, error) {
	c.mu.Lock()
	defer c.mu.Unlock()
	total := 0
	for {
		if c.closed {
			return total, net.ErrClosed
		}
		if *c.reset {
			return total, &net.OpError{Op: "write", Net: "sim", Err: os.NewSyscallError("write", syscall.ECONNRESET)}
		}
		if c.wr.rclosed {
			return total, &net.OpError{Op: "write", Net: "sim", Err: os.NewSyscallError("write", syscall.EPIPE)}
		}
		if len(p) == 0 {
			return total, nil
		}
		if !c.wdl.IsZero() && !time.Now().Before(c.wdl) {
			return total, &net.OpError{Op: "write", Net: "sim", Err: timeoutErr{}}
		}
		n := len(p)
		if k := c.cap(); k > 0 {
			space := k - len(c.wr.buf) - c.wr.inflight
			if space <= 0 {
				c.n.w.Fault("backpressure")
				c.cv.Wait()
				continue
			}
			if n > space {
				n = space
			}
		}
		if c.n.Cfg.WriteChunk && n > 1 && c.n.w.Choose(simrt.SNet, 3) == 0 {
			n = 1 + c.n.w.Choose(simrt.SNet, n)
		}
		data := append([]byte(nil), p[:n]...)
		p = p[n:]
		total += n
		c.BytesWritten += n
		c.deliver(data)
	}
}

// deliver makes data readable by the peer, now or after a latency. mu held.
func (c *NetConn) deliver(data []byte) {
	h := c.wr
	var d time.Duration
	if c.n.Cfg.Latency > 0 {
		d = time.Duration(c.n.w.Choose(simrt.SNet, int(c.n.Cfg.Latency/time.Microsecond)+1)) * time.Microsecond
	}
	now := c.n.w.Now()
	rel := now + d
	if rel < h.lastRel {
		rel = h.lastRel
	}
	h.lastRel = rel
	if rel <= now && len(h.pend) == 0 {
		h.buf = append(h.buf, data...)
		c.cv.Broadcast()
		return
	}
	c.n.w.Fault("latency")
	h.inflight += len(data)
	h.pend = append(h.pend, pendSeg{rel, data})
	simrt.AfterFunc("H:simnet-deliver", rel-now, func() {
		c.mu.Lock()
		// strictly FIFO: whichever timer task runs first delivers every
		// segment that is due, oldest first
		t := c.n.w.Now()
		for len(h.pend) > 0 && h.pend[0].rel <= t {
			seg := h.pend[0]
			h.pend = h.pend[1:]
			h.inflight -= len(seg.data)
			if !*c.reset {
				h.buf = append(h.buf, seg.data...)
			}
		}
		c.cv.Broadcast()
		c.mu.Unlock()
	})
}

// (Close, Reset and the listener's Close do not yield inside: net/http closes
// its listeners and connections with a sync.Mutex of its own held)
func (c *NetConn) Close() error {
	c.mu.LockQuiet()
	defer c.mu.UnlockQuiet()
	if c.closed {
		return net.ErrClosed
	}
	c.closed = true
	c.wr.wclosed = true
	c.rd.rclosed = true
	c.cv.Broadcast()
	return nil
}

// Reset fails the connection in both directions; unread data is discarded.
func (c *NetConn) Reset() {
	c.mu.LockQuiet()
	*c.reset = true
	c.rd.buf, c.wr.buf = nil, nil
	c.cv.Broadcast()
	c.mu.UnlockQuiet()
}

func (c *NetConn) IsClosed() bool {
	c.mu.Lock()
	defer c.mu.Unlock()
	return c.closed
}

func (c *NetConn) LocalAddr() net.Addr  { return c.local }
func (c *NetConn) RemoteAddr() net.Addr { return c.remote }

func (c *NetConn) armDeadline(t time.Time) {
	if t.IsZero() {
		return
	}
	d := time.Until(t)
	if d <= 0 {
		c.cv.Broadcast()
		return
	}
	simrt.AfterFunc("H:simnet-deadline", d, func() {
		c.mu.Lock()
		c.cv.Broadcast()
		c.mu.Unlock()
	})
}

func (c *NetConn) SetDeadline(t time.Time) error {
	c.mu.LockQuiet() // (net/http calls this with a sync.Mutex of its own held: no yield in here)
	c.rdl, c.wdl = t, t
	c.armDeadline(t)
	c.mu.UnlockQuiet()
	return nil
}
func (c *NetConn) SetReadDeadline(t time.Time) error {
	c.mu.LockQuiet() // (net/http calls this with a sync.Mutex of its own held: no yield in here)
	c.rdl = t
	c.armDeadline(t)
	c.mu.UnlockQuiet()
	return nil
}
func (c *NetConn) SetWriteDeadline(t time.Time) error {
	c.mu.LockQuiet() // (net/http calls this with a sync.Mutex of its own held: no yield in here)
	c.wdl = t
	c.armDeadline(t)
	c.mu.UnlockQuiet()
	return nil
}

// OpenConns lists connections not closed at this end and not reset.
func (n *Net) OpenConns() []string {
	n.mu.Lock()
	cs := append([]*NetConn(nil), n.conns...)
	n.mu.Unlock()
	var out []string
	for _, c := range cs {
		c.mu.Lock()
		if !c.closed && !*c.reset {
			out = append(out, fmt.Sprintf("%s->%s%s", c.local, c.remote, c.Name))
		}
		c.mu.Unlock()
	}
	return out
}
