package harness

import (
	"fmt"
	"runtime"
	"sort"
	"strings"
	"time"

	"go.nanomsg.org/mangos/v3"
	"go.nanomsg.org/mangos/v3/verifsim/hooks"
	"go.nanomsg.org/mangos/v3/verifsim/simrt"
)

// W is the scenario-facing world: the simulator plus the run's bookkeeping.
type W struct {
	*simrt.World
	T         *simrt.Tape
	Prop      string
	Scenario  string
	RunIdx    int
	ScenOrd   int // this is the ScenOrd-th run of its scenario
	Seed      uint64
	addrN     int
	Shape     map[string]interface{} // decoded scenario shape, for evidence
	Prog      []string               // decoded program (operations), for evidence/replay files
	Delivery  int                    // deliveries observed (progress measure)
	States    map[uint64]bool        // abstract model-state hashes at settles
	Incon     map[string]int         // inconclusive counters
	Free      bool                   // engine F
	Real      bool                   // engine R (no bubble, wall clock)
	Known     []string
	cleanup   []func()
	socks     []mangos.Socket // every socket made by Sock, for the end-of-run hygiene
	NoHygiene bool
	// RaceOnly: the scenario runs under engine F for the race detector's benefit
	// only; its own oracle (decided by engine B) is muted, a failure just ends it
	RaceOnly       bool
	raceOnlyFailed bool
}

// Failed reports whether the run has failed (or, race-only, should stop).
func (w *W) Failed() bool { return w.raceOnlyFailed || w.World.Failed() }

func (w *W) Choose(stream string, n int) int { return w.T.Choose(stream, n) }

// Pick returns one of the options (index from the tape).
func Pick[T any](w *W, stream string, opts ...T) T {
	return opts[w.T.Choose(stream, len(opts))]
}

func (w *W) Chance(stream string, permille int) bool {
	return w.T.Choose(stream, 1000) < permille
}

func (w *W) Addr(scheme string) string {
	w.addrN++
	if !w.Real {
		// the real stream transports inside the simulation (verifsim/snet):
		// well-formed addresses of theirs, resolved by the run's simulated network
		switch scheme {
		case "tcp", "tls+tcp":
			return fmt.Sprintf("%s://127.0.0.1:%d", scheme, 10000+w.addrN)
		case "ipc":
			return fmt.Sprintf("ipc:///tmp/vsim-r%d-%d-%d.sock", w.Seed%100000, w.RunIdx, w.addrN)
		case "ws", "wss":
			return fmt.Sprintf("%s://127.0.0.1:%d/sp%d", scheme, 10000+w.addrN, w.addrN)
		}
	}
	return fmt.Sprintf("%s://r%d-%d-%d", scheme, w.Seed%100000, w.RunIdx, w.addrN)
}

func (w *W) Op(format string, a ...interface{}) {
	line := fmt.Sprintf("t=%v ", w.Now()) + fmt.Sprintf(format, a...)
	if len(w.Prog) < 400 {
		w.Prog = append(w.Prog, line)
	}
	w.Note(line)
}

func (w *W) SetShape(k string, v interface{}) { w.Shape[k] = v }

func (w *W) Failf(key, format string, a ...interface{}) {
	if w.RaceOnly {
		w.raceOnlyFailed = true
		return
	}
	w.Fail(key, fmt.Sprintf(format, a...))
}

// Go starts a harness task.
func (w *W) Go(name string, f func()) {
	simrt.Go("H:"+name, f)
}

func (w *W) Sleep(d time.Duration) {
	if w.Real {
		time.Sleep(d)
		return
	}
	w.SleepFor(d)
}

// Settle: engine B/F: nothing more can happen at this instant; engine R (real
// sockets, wall clock): a short real pause - only timing-free oracles are used
// there.
func (w *W) Settle() {
	if w.Real {
		time.Sleep(2 * time.Millisecond)
		return
	}
	w.World.Settle()
}

func (w *W) OnCleanup(f func()) { w.cleanup = append(w.cleanup, f) }

func (w *W) StateHash(h uint64) { w.States[h] = true }

// Call is one harness-level API call executed on its own task.
type Call struct {
	Label     string
	InvStep   int64
	RetStep   int64
	InvTime   time.Duration
	RetTime   time.Duration
	Err       error
	Val       interface{}
	Done      *simrt.Event
	w         *W
	NoLockChk bool
}

// Do runs fn on a new task, recording invoke/return and checking the
// lock-balance invariant at the return.
func (w *W) Do(label string, fn func() (interface{}, error)) *Call {
	c := &Call{Label: label, Done: w.NewEvent(), w: w, InvStep: w.Step(), InvTime: w.Now(), RetStep: -1}
	w.Go("call:"+label, func() {
		simrt.MarkAPI(label)
		c.InvStep = w.Step()
		c.InvTime = w.Now()
		v, err := fn()
		c.Val, c.Err = v, err
		c.RetStep = w.Step()
		c.RetTime = w.Now()
		simrt.MarkAPIDone()
		w.checkLockBalance(label)
		c.Done.Set()
	})
	return c
}

// Here runs fn on the calling task (synchronously), with the same recording.
func (w *W) Here(label string, fn func() (interface{}, error)) *Call {
	c := &Call{Label: label, Done: w.NewEvent(), w: w, InvStep: w.Step(), InvTime: w.Now(), RetStep: -1}
	simrt.MarkAPI(label)
	v, err := fn()
	c.Val, c.Err = v, err
	c.RetStep = w.Step()
	c.RetTime = w.Now()
	simrt.MarkAPIDone()
	w.checkLockBalance(label)
	c.Done.Set()
	return c
}

func (w *W) checkLockBalance(label string) {
	if w.Free {
		return
	}
	if held := w.HeldByCur(); len(held) > 0 {
		w.Failf("C12/mutex-held-after-return:"+held[0], "API call %s returned while its task still holds the mutex taken at %s", label, strings.Join(held, ", "))
	}
}

func (c *Call) Returned() bool { return c.Done.IsSet() }

// Wait waits up to d (simulated) for the call to return.
func (c *Call) Wait(d time.Duration) bool { return c.Done.Wait(d) }

// ------------------------------------------------------------ wedge report

// Wedges lists tasks blocked on a sim mutex whose owner is not itself about
// to release it: owner dead, owner's API call already returned, or a cycle.
func (w *W) Wedges() []string {
	ts := w.Tasks()
	byID := map[string]simrt.TaskInfo{}
	for _, t := range ts {
		byID[t.ID] = t
	}
	var out []string
	for _, t := range ts {
		if t.State != "blocked-mutex" {
			continue
		}
		o := t.BlockedOnOwner
		if o == "" {
			continue
		}
		reason := ""
		if t.OwnerDead {
			reason = "owner task has exited"
		} else if t.OwnerAPIDone {
			reason = "owner's API call has returned"
		} else if o == t.ID {
			reason = "self-deadlock"
		} else {
			// follow the chain looking for a cycle
			seen := map[string]bool{t.ID: true}
			cur := o
			for cur != "" && !seen[cur] {
				seen[cur] = true
				nt, ok := byID[cur]
				if !ok || nt.State != "blocked-mutex" {
					cur = ""
					break
				}
				cur = nt.BlockedOnOwner
			}
			if cur != "" {
				reason = "lock-wait cycle"
			}
		}
		if reason != "" {
			out = append(out, fmt.Sprintf("%s (%s, api=%q) waits at %s for the mutex taken at %s by %s: %s", t.ID, t.Site, t.API, t.ParkSite, t.BlockedOnOwnerSite, o, reason))
		}
	}
	sort.Strings(out)
	return out
}

// WedgeSite returns the acquisition site of the first wedge ("" if none).
func (w *W) WedgeCheck(prop string) bool {
	ws := w.Wedges()
	if len(ws) == 0 {
		return false
	}
	// class key: acquisition site of the stuck mutex
	site := "?"
	if i := strings.Index(ws[0], "mutex taken at "); i >= 0 {
		rest := ws[0][i+len("mutex taken at "):]
		if j := strings.Index(rest, " by "); j >= 0 {
			site = rest[:j]
		}
	}
	w.Failf(prop+"/wedged-mutex:"+site, "%s", strings.Join(ws, "\n"))
	return true
}

// LibTasks lists live tasks that belong to the library or to simulated
// transports (not harness bookkeeping tasks).
func (w *W) LibTasks() []simrt.TaskInfo {
	var out []simrt.TaskInfo
	for _, t := range w.Tasks() {
		if strings.HasPrefix(t.Site, "H:") && !strings.HasPrefix(t.Site, "H:tran:") {
			continue
		}
		// a goroutine of net/http / gorilla / crypto/tls adopted inside the
		// simulation counts when library code is on its stack (the rule of the
		// engine-R census): otherwise it is the dependency's own housekeeping
		if t.Adopted && !hasLibraryFrame(t.Stack) {
			continue
		}
		out = append(out, t)
	}
	return out
}

// Hygiene runs after every engine-B scenario of every check: whatever the
// scenario was about, once all its sockets are closed nothing of the library
// may stay behind (C10) - no task, no pipe id, no pipe on a socket's list, no
// timer that fires later. Sockets the scenario left open are closed here,
// each exactly once (a second Close would sweep up what the first one
// missed, and hide it).
func (w *W) Hygiene() {
	if w.Real && !w.Failed() && !w.NoHygiene && len(w.socks) > 0 {
		w.realCensus()
		return
	}
	if w.Free || w.Failed() || w.NoHygiene || len(w.socks) == 0 {
		return
	}
	if w.Choose(simrt.SMisc, 2) != 0 {
		return // every other run: the scenarios' own oracles keep most of the budget
	}
	if w.World.Horizon-w.Now() < 5*time.Minute {
		return
	}
	var open []mangos.Socket
	for _, s := range w.socks {
		if !hooks.SocketClosed(s) {
			open = append(open, s)
		}
	}
	var calls []*Call
	for _, s := range open {
		s := s
		calls = append(calls, w.Do("Close(end of run)", func() (interface{}, error) { return nil, s.Close() }))
	}
	w.Sleep(30 * time.Second)
	w.Settle()
	for _, c := range calls {
		if !c.Returned() {
			w.WedgeCheck("C12")
			w.Failf("C10/close-did-not-return:end-of-run", "Close of a socket at the end of the run has not returned 30s later")
			return
		}
	}
	w.Census("C10", w.socks...)
	w.QuietCheck(22 * time.Second)
}

// realCensus is the end-of-run hygiene of engine R (real sockets, real
// goroutines): every socket is closed (once), then - within 15 s of wall
// clock - no goroutine may be left that is executing library code. Goroutines
// are taken from a full stack dump; one counts when a frame of
// go.nanomsg.org/mangos/v3 (not the simulator's seam packages) is on its stack
// and no harness frame is (a harness task still inside an API call is the
// harness's business).
func (w *W) realCensus() {
	for _, s := range w.socks {
		if !hooks.SocketClosed(s) {
			_ = s.Close()
		}
	}
	var left []string
	for i := 0; i < 150; i++ {
		left = libraryGoroutines()
		if len(left) == 0 {
			return
		}
		time.Sleep(100 * time.Millisecond)
	}
	fn := left[0]
	if k := strings.Index(fn, "\n"); k >= 0 {
		fn = fn[:k]
	}
	w.Failf("C10/goroutine-left-real:"+fn, "every socket of the run was closed 15s ago; %d goroutines are still executing library code:\n%s", len(left), strings.Join(left, "\n---\n"))
}

func libraryGoroutines() []string {
	buf := make([]byte, 4<<20)
	buf = buf[:runtime.Stack(buf, true)]
	var out []string
	for _, g := range strings.Split(string(buf), "\n\n") {
		if strings.Contains(g, "verifharness.") && !strings.Contains(g, "created by go.nanomsg.org/mangos/v3/verifsim/simrt.Go") {
			continue
		}
		if strings.Contains(g, "synctest bubble") {
			continue // left over from an earlier simulated run of this process (its world was killed)
		}
		first := ""
		for _, line := range strings.Split(g, "\n") {
			if strings.HasPrefix(line, "go.nanomsg.org/mangos/v3") && !strings.HasPrefix(line, "go.nanomsg.org/mangos/v3/verifsim/") {
				first = line
				if k := strings.LastIndex(first, "("); k > 0 {
					first = first[:k]
				}
				first = strings.TrimPrefix(first, "go.nanomsg.org/mangos/v3/")
				break
			}
		}
		if first != "" {
			lines := strings.Split(g, "\n")
			if len(lines) > 14 {
				lines = lines[:14]
			}
			out = append(out, first+"\n"+strings.Join(lines, "\n"))
		}
	}
	return out
}

// QuietCheck runs the clock for d after everything was closed: no library
// goroutine may start and no library timer may fire any more.
func (w *W) QuietCheck(d time.Duration) {
	if w.Failed() || w.Free {
		return
	}
	n0, _ := w.World.LibBirths()
	// in stages: a leaked periodic timer (a redialling dialer) is seen after
	// the first short stage, before it has burnt the run's step budget
	var total time.Duration
	for _, st := range []time.Duration{200 * time.Millisecond, 2 * time.Second, 20 * time.Second, d} {
		if st > d || total >= d {
			break
		}
		w.Sleep(st - total)
		total = st
		w.Settle()
		if n1, site := w.World.LibBirths(); n1 != n0 {
			w.Failf("C10/activity-after-close:"+site, "every socket has been closed and the clock ran 30s on; during the following %v %d library goroutines / timer callbacks came to life (latest started at %s): a timer or goroutine belonging to the closed sockets remained", total, n1-n0, site)
			return
		}
	}
}

// ------------------------------------------------------------------ misc

func (w *W) ResetProcessState(idStart uint32) {
	simrt.ResetGlobalPools()
	hooks.ResetPipeIDs(idStart)
	mangos.VerifLedgerReset(func(key, msg string) { w.Fail(key, msg) })
}

func errName(err error) string {
	if err == nil {
		return "nil"
	}
	return err.Error()
}

// BlockedReport lists, for diagnostics, every live task that is not runnable.
func (w *W) BlockedReport() string {
	if w.Free {
		return ""
	}
	var sb strings.Builder
	for _, t := range w.Tasks() {
		if len(t.ID) > 40 {
			continue
		}
		fmt.Fprintf(&sb, "\n  %s [%s] %s at %s api=%q", t.ID, t.Site, t.State, t.ParkSite, t.API)
		if t.BlockedOnOwner != "" {
			fmt.Fprintf(&sb, " waits for mutex taken at %s by %s", t.BlockedOnOwnerSite, t.BlockedOnOwner)
		}
		if len(t.Held) > 0 {
			fmt.Fprintf(&sb, " holds %v", t.Held)
		}
	}
	return sb.String()
}

func hasLibraryFrame(stack string) bool {
	for _, l := range strings.Split(stack, "\n") {
		if strings.HasPrefix(l, "go.nanomsg.org/mangos/v3") && !strings.Contains(l, "/verifsim/") {
			return true
		}
	}
	return false
}

// libFrameSite names the innermost library function on a goroutine's stack.
func libFrameSite(stack string) string {
	for _, l := range strings.Split(stack, "\n") {
		if strings.HasPrefix(l, "go.nanomsg.org/mangos/v3") && !strings.Contains(l, "/verifsim/") {
			l = strings.TrimPrefix(l, "go.nanomsg.org/mangos/v3/")
			if i := strings.LastIndex(l, "("); i > 0 {
				l = l[:i]
			}
			return l
		}
	}
	return "?"
}

// AlignIDSeed lets simulated time pass until the low 32 bits of the clock in
// nanoseconds - from which REQ and SURVEYOR seed their request / survey id
// counters - are within a few counts of wrapping, so that a socket created
// next hands out ids that cross the 32-bit boundary during the run (a
// long-lived socket gets there after 2^31 requests).
func (w *W) AlignIDSeed(below uint32) {
	now := uint32(time.Now().UnixNano())
	target := ^uint32(0) - below
	w.Sleep(time.Duration(target - now)) // (uint32 arithmetic: at most 4.3 s)
	w.Settle()
	w.Probe("id-counter-crosses-32-bit-wrap")
}
