package harness

import (
	"bytes"
	"encoding/binary"
	"errors"
	"fmt"
	"os"
	"strconv"
	"time"

	"go.nanomsg.org/mangos/v3"
	"go.nanomsg.org/mangos/v3/macat"
	"go.nanomsg.org/mangos/v3/verifsim/simrt"
)

// C20: macat prints and sends exactly what crossed the socket.
// The application runs in-process on inproc addresses under the simulated
// clock; the format encoders are input enumeration carried by the same runs.

func c20Body(w *W, i int) []byte {
	lens := []int{0, 1, 2, 10, 100, 254, 255, 256, 257, 1000, 65534, 65535, 65536, 65537}
	n := lens[w.Choose(simrt.SProg, len(lens))]
	b := make([]byte, n)
	mode := w.Choose(simrt.SProg, 3)
	for j := range b {
		switch mode {
		case 0:
			b[j] = byte(j + i*7) // every byte value
		case 1:
			b[j] = "\n\r\\\"\x00\x7f\xff ab"[(j+i)%10]
		default:
			b[j] = byte(w.Choose(simrt.SProg, 256))
		}
	}
	return b
}

// unquote decodes one record of macat's quoted format.
func unquote(rec []byte) ([]byte, error) {
	var out []byte
	for i := 0; i < len(rec); i++ {
		c := rec[i]
		if c != '\\' {
			out = append(out, c)
			continue
		}
		if i+1 >= len(rec) {
			return nil, fmt.Errorf("dangling backslash")
		}
		i++
		switch rec[i] {
		case 'n':
			out = append(out, '\n')
		case 'r':
			out = append(out, '\r')
		case '\\':
			out = append(out, '\\')
		case '"':
			out = append(out, '"')
		case 'x':
			if i+2 >= len(rec) {
				return nil, fmt.Errorf("short \\x escape")
			}
			v, err := strconv.ParseUint(string(rec[i+1:i+3]), 16, 8)
			if err != nil {
				return nil, err
			}
			out = append(out, byte(v))
			i += 2
		default:
			return nil, fmt.Errorf("unknown escape \\%c", rec[i])
		}
	}
	return out, nil
}

// c20Out: macat's standard output; every write made while message failFor is
// being printed fails with nothing written.
type c20Out struct {
	buf     bytes.Buffer
	cur     int
	failFor int
	failed  int
}

func (o *c20Out) Write(p []byte) (int, error) {
	if o.failFor >= 0 && o.cur == o.failFor {
		o.failed++
		return 0, errors.New("write /dev/stdout: no space left on device")
	}
	return o.buf.Write(p)
}

func c20Recv(w *W) {
	format := []string{"raw", "ascii", "quoted", "msgpack"}[w.Choose(simrt.SShape, 4)]
	pat := []struct{ flag, peer string }{{"--pull", "push"}, {"--sub", "pub"}, {"--pair", "pair"}, {"--bus", "bus"}, {"--rep", "req"}, {"--respondent", "surveyor"}}[w.Choose(simrt.SShape, 6)]
	nmsg := 1 + w.Choose(simrt.SShape, 4)
	tmo := 1 + w.Choose(simrt.SShape, 3)
	w.SetShape("format", format)
	w.SetShape("pattern", pat.flag)
	w.SetShape("msgs", nmsg)
	addr := w.Addr("inproc")
	// the output stream may fail while one of the messages is being printed
	// (a full disk behind a redirected stdout): that record is lost, every
	// later message is still printed, whole and in order
	out := &c20Out{cur: -1, failFor: -1}
	if nmsg >= 2 && w.Choose(simrt.SShape, 4) == 0 {
		out.failFor = w.Choose(simrt.SShape, nmsg)
		w.SetShape("output_fails_during_message", out.failFor)
	}
	app := &macat.App{}
	app.Initialize()
	app.VerifSetStdout(out)
	args := []string{pat.flag, "--bind", addr, "--recv-timeout", strconv.Itoa(tmo)}
	switch w.Choose(simrt.SShape, 3) {
	case 0:
		args = append(args, "--format", format)
	default:
		args = append(args, "--"+format)
	}
	// --subscribe may be given several times (any order, overlapping prefixes,
	// the empty prefix, repeats): a message is printed iff it starts with at
	// least one of them
	var topics []string
	if pat.flag == "--sub" && out.failFor < 0 && w.Choose(simrt.SShape, 2) == 0 {
		pool := []string{"a", "ab", "abc", "b", "", "abd"}
		for n := 1 + w.Choose(simrt.SShape, 3); n > 0; n-- {
			t := pool[w.Choose(simrt.SShape, len(pool))]
			topics = append(topics, t)
			args = append(args, "--subscribe", t)
		}
		w.SetShape("subscribe", fmt.Sprintf("%q", topics))
		w.Probe("several-subscribe-options")
	}
	w.Op("macat %v", args)
	run := w.Do("macat.Run", func() (interface{}, error) { return nil, app.Run(args...) })
	w.Sleep(5 * time.Millisecond)
	peer := w.Sock(pat.peer)
	defer peer.Close()
	if pat.peer == "surveyor" {
		mustSet(w, peer, mangos.OptionSurveyTime, time.Hour)
	}
	if err := peer.Dial(addr); err != nil {
		w.Failf("HARNESS/dial", "%v", err)
		return
	}
	w.Sleep(30 * time.Millisecond)
	var bodies [][]byte
	last := w.Now()
	for i := 0; i < nmsg; i++ {
		b := c20Body(w, i)
		if topics != nil {
			b = append([]byte([]string{"a", "ab", "abc", "abd", "b", "x", "", "ac"}[w.Choose(simrt.SProg, 8)]), b...)
			match := false
			for _, t := range topics {
				match = match || bytes.HasPrefix(b, []byte(t))
			}
			if match {
				bodies = append(bodies, b)
			} else {
				w.Probe("publication-outside-the-subscriptions")
			}
		} else {
			bodies = append(bodies, b)
		}
		out.cur = i
		if err := peer.Send(b); err != nil {
			w.Failf("HARNESS/send", "%v", err)
			return
		}
		pace := 400
		if topics != nil {
			// (macat ends one receive timeout - at least 1 s - after the last
			// message it *received*; publications outside its subscriptions do
			// not count, so the whole series stays below that)
			pace = 200
		}
		w.Sleep(time.Duration(1+w.Choose(simrt.SProg, pace)) * time.Millisecond)
		w.Settle()
		last = w.Now()
		_ = last
	}
	if !run.Wait(time.Duration(tmo+2) * time.Second) {
		w.Failf("C20/recv-timeout-ignored", "macat %v: still running %v after the last message", args, w.Now()-last)
		return
	}
	if run.Err != nil {
		w.Failf("C20/run-error", "macat %v: %v", args, run.Err)
		return
	}
	// a bare integer means seconds: the run ends tmo seconds after the last message was received
	data := out.buf.Bytes()
	if out.failFor >= 0 && out.failed > 0 {
		w.Fault("output-write-error")
		w.Probe("output-stream-failed-during-one-message")
		bodies = append(append([][]byte(nil), bodies[:out.failFor]...), bodies[out.failFor+1:]...)
	}
	switch format {
	case "raw":
		want := bytes.Join(bodies, nil)
		if !bytes.Equal(data, want) {
			w.Failf("C20/raw-output", "raw output is %d bytes, the messages total %d bytes (first difference at %d)", len(data), len(want), firstDiff(data, want))
			return
		}
	case "ascii":
		pos := 0
		for i, b := range bodies {
			if pos+len(b)+1 > len(data) {
				w.Failf("C20/ascii-output", "ascii output too short for message %d", i)
				return
			}
			rec := data[pos : pos+len(b)]
			for j, c := range b {
				switch {
				case c >= 0x20 && c <= 0x7e:
					if rec[j] != c {
						w.Failf("C20/ascii-output", "message %d byte %d: printable %q printed as %q", i, j, c, rec[j])
						return
					}
				case c < 0x20 || c == 0x7f:
					if rec[j] != '.' {
						w.Failf("C20/ascii-output", "message %d byte %d: non-printable %#x printed as %q instead of a dot", i, j, c, rec[j])
						return
					}
				}
			}
			if data[pos+len(b)] != '\n' {
				w.Failf("C20/ascii-output", "message %d is not followed by a newline (one record per message)", i)
				return
			}
			pos += len(b) + 1
		}
		if pos != len(data) {
			w.Failf("C20/ascii-output", "%d extra bytes of output", len(data)-pos)
			return
		}
	case "quoted":
		recs := bytes.Split(data, []byte("\n"))
		if len(recs) != len(bodies)+1 || len(recs[len(recs)-1]) != 0 {
			w.Failf("C20/quoted-output", "%d messages produced %d newline-terminated records", len(bodies), len(recs)-1)
			return
		}
		for i, b := range bodies {
			dec, err := unquote(recs[i])
			if err != nil || !bytes.Equal(dec, b) {
				w.Failf("C20/quoted-output", "record %d does not decode back to the message: %v (first difference at %d)", i, err, firstDiff(dec, b))
				return
			}
		}
	case "msgpack":
		pos := 0
		for i, b := range bodies {
			var hdr []byte
			switch {
			case len(b) < 256:
				hdr = []byte{0xc4, byte(len(b))}
			case len(b) < 65536:
				hdr = []byte{0xc5, 0, 0}
				binary.BigEndian.PutUint16(hdr[1:], uint16(len(b)))
			default:
				hdr = []byte{0xc6, 0, 0, 0, 0}
				binary.BigEndian.PutUint32(hdr[1:], uint32(len(b)))
			}
			want := append(hdr, b...)
			if pos+len(want) > len(data) || !bytes.Equal(data[pos:pos+len(want)], want) {
				w.Failf("C20/msgpack-output", "message %d (%d bytes): output is not the bin object % x + payload", i, len(b), hdr)
				return
			}
			pos += len(want)
		}
		if pos != len(data) {
			w.Failf("C20/msgpack-output", "%d extra bytes of output", len(data)-pos)
			return
		}
	}
	w.Delivery += len(bodies)
	w.Probe("format-" + format)
}

func c20Send(w *W) {
	pat := []struct{ flag, peer string }{{"--push", "pull"}, {"--pub", "sub"}, {"--pair", "pair"}, {"--bus", "bus"}}[w.Choose(simrt.SShape, 4)]
	count := 1 + w.Choose(simrt.SShape, 5)
	ivals := []struct {
		arg string
		d   time.Duration
	}{{"1", time.Second}, {"3", 3 * time.Second}, {"250ms", 250 * time.Millisecond}, {"1500ms", 1500 * time.Millisecond}, {"0", 0},
		{"010", 10 * time.Second}, {"08", 8 * time.Second}, {"0003", 3 * time.Second}} // bare integers are decimal seconds
	iv := ivals[w.Choose(simrt.SShape, len(ivals))]
	if iv.arg == "0" && (pat.flag == "--pair" || pat.flag == "--bus") {
		// with an interval of zero the send/receive loop of these patterns
		// waits for a reply without limit; not part of the statement
		iv = ivals[0]
	}
	delays := []struct {
		arg string
		d   time.Duration
	}{{"", 0}, {"2", 2 * time.Second}, {"100ms", 100 * time.Millisecond}}
	dl := delays[w.Choose(simrt.SShape, len(delays))]
	useFile := w.Choose(simrt.SShape, 3) == 0
	w.SetShape("pattern", pat.flag)
	w.SetShape("count", count)
	w.SetShape("interval", iv.arg)
	w.SetShape("delay", dl.arg)
	w.SetShape("file", useFile)
	body := c20Body(w, 3)
	if len(body) == 0 || !useFile {
		// --data takes a command line string: keep it text
		if !useFile {
			body = []byte(fmt.Sprintf("payload-%d\x01\xfe", w.Choose(simrt.SProg, 1000)))
		}
	}
	addr := w.Addr("inproc")
	peer := w.Sock(pat.peer)
	defer peer.Close()
	if pat.peer == "sub" {
		mustSet(w, peer, mangos.OptionSubscribe, "")
	}
	if err := peer.Listen(addr); err != nil {
		w.Failf("HARNESS/listen", "%v", err)
		return
	}
	type arrival struct {
		at   time.Duration
		body []byte
	}
	var got []arrival
	mustSet(w, peer, mangos.OptionRecvDeadline, time.Hour)
	w.Go("collector", func() {
		for {
			b, err := peer.Recv()
			if err != nil {
				return
			}
			got = append(got, arrival{w.Now(), b})
		}
	})
	args := []string{pat.flag, "--connect", addr, "--count", strconv.Itoa(count), "-i", iv.arg}
	if useFile {
		f, err := os.CreateTemp("", "verif-macat-*")
		if err != nil {
			return
		}
		f.Write(body)
		f.Close()
		defer os.Remove(f.Name())
		args = append(args, "--file", f.Name())
	} else {
		args = append(args, "--data", string(body))
	}
	if dl.arg != "" {
		args = append(args, "-d", dl.arg)
	}
	app := &macat.App{}
	app.Initialize()
	var out bytes.Buffer
	app.VerifSetStdout(&out)
	t0 := w.Now()
	w.Op("macat %q", args)
	run := w.Do("macat.Run", func() (interface{}, error) { return nil, app.Run(args...) })
	total := dl.d + time.Duration(count)*iv.d + 5*time.Second
	if !run.Wait(total) {
		w.Failf("C20/send-does-not-finish", "macat %q still running after %v", args, total)
		return
	}
	if run.Err != nil {
		w.Failf("C20/run-error", "macat %q: %v", args, run.Err)
		return
	}
	w.Sleep(time.Second)
	w.Settle()
	if len(got) != count {
		w.Failf("C20/send-count", "macat %q: --count %d, the peer received %d messages", args, count, len(got))
		return
	}
	for i, a := range got {
		if !bytes.Equal(a.body, body) {
			w.Failf("C20/sent-bytes-differ", "macat %q: message %d arrived with %d bytes, the data given has %d (first difference at %d)", args, i, len(a.body), len(body), firstDiff(a.body, body))
			return
		}
		if i > 0 {
			gap := a.at - got[i-1].at
			if gap != iv.d {
				w.Failf("C20/send-interval", "macat %q: messages %d and %d arrived %v apart, the interval %q means %v", args, i-1, i, gap, iv.arg, iv.d)
				return
			}
		}
	}
	if first := got[0].at - t0; first < dl.d || first > dl.d+100*time.Millisecond {
		w.Failf("C20/send-delay", "macat %q: the first message arrived %v after start, the delay %q means %v", args, first, dl.arg, dl.d)
		return
	}
	w.Delivery += count
	w.Probe("send-interval-exact")
}

func c20Reject(w *W) {
	addr := w.Addr("inproc")
	cases := [][]string{
		{"--bind", addr, "--data", "x"},                                  // no protocol
		{"--push", "--data", "x"},                                        // no address
		{"--push", "--pull", "--bind", addr, "--data", "x"},              // two protocols
		{"--push", "--bind", addr, "--data", "x", "--data", "y"},         // data twice
		{"--push", "--bind", addr, "--data", "x", "--file", "/dev/null"}, // data and file
		{"--pull", "--bind", addr, "--raw", "--ascii"},                   // two formats
		{"--pull", "--bind", addr, "--format", "bogus"},                  // unknown format
		{"--push", "--bind", addr, "--subscribe", "t", "--data", "x"},    // subscribe without SUB
		{"--subscribe", "t", "--push", "--bind", addr, "--data", "x"},    // the same, options in another order
		{"--subscribe=t", "--bind", addr, "--pull"},                      // protocol given last
		{"--bind", addr, "--subscribe", "t", "--rep", "--data", "x"},
		{"--push", "--bind", addr, "--data", "x", "extra"},               // extra argument
		{"--push", "--bind", "no-scheme", "--data", "x"},                 // malformed address
		{"--push", "--bind", addr},                                       // nothing to send
		{"--pull", "--bind", addr, "--recv-timeout", "soon"},             // not a duration
		{"--push", "--bind", addr, "--data", "x", "--count", "many"},     // not a number
		{"--no-such-option"},
		{"--pull", "--bind", addr, "--recv-timeout", "0x10"}, // not a bare integer, not a duration
		{"--pull", "--bind", addr, "--recv-timeout", "1_0"},
		{"--push", "--bind", addr, "--data", "x", "--interval", "0b11"},
		{"--push", "--bind", addr, "--data", "x", "--send-delay", "0o17"},
		{"--push", "--bind", addr, "--data", "", "--file", "/etc/hostname"}, // explicitly empty data, then a file
		{"--push", "--bind", addr, "--data=", "--file", "/etc/hostname"},    // same, = form
		{"--push", "--bind", addr, "--file", "/etc/hostname", "--data", ""}, // other order
		{"--push", "--bind", addr, "--file", "/dev/null", "--file", "/etc/hostname"},
	}
	// every ordered pair of two different output formats, in each spelling
	// (the order matters to a parser that remembers "a format was given" by
	// comparing against a zero value)
	type fopt struct {
		id   string
		args []string
	}
	fopts := []fopt{{"no", []string{"--format", "no"}}, {"no", []string{"--format=no"}}, {"raw", []string{"--raw"}}, {"raw", []string{"--format", "raw"}},
		{"ascii", []string{"--ascii"}}, {"ascii", []string{"-A"}}, {"ascii", []string{"--format=ascii"}}, {"quoted", []string{"--quoted"}}, {"quoted", []string{"-Q"}},
		{"quoted", []string{"--format", "quoted"}}, {"msgpack", []string{"--msgpack"}}, {"msgpack", []string{"--format", "msgpack"}}}
	nfixed := len(cases)
	for _, a := range fopts {
		for _, b := range fopts {
			if a.id != b.id {
				c := append([]string{"--pull", "--bind", addr}, a.args...)
				cases = append(cases, append(c, b.args...))
			}
		}
	}
	i := w.Choose(simrt.SShape, 2*nfixed)
	if i >= nfixed {
		i = nfixed + w.Choose(simrt.SShape, len(cases)-nfixed)
		w.Probe("two-formats-rejected")
	}
	args := cases[i]
	w.SetShape("case", i)
	peer := w.Sock("pull")
	defer peer.Close()
	mustSet(w, peer, mangos.OptionRecvDeadline, 2*time.Second)
	app := &macat.App{}
	app.Initialize()
	var out bytes.Buffer
	app.VerifSetStdout(&out)
	w.Op("macat %q", args)
	run := w.Do("macat.Run", func() (interface{}, error) { return nil, app.Run(args...) })
	if !run.Wait(10 * time.Second) {
		w.Failf("C20/bad-options-run", "macat %q keeps running instead of rejecting its options", args)
		return
	}
	if run.Err == nil {
		w.Failf("C20/bad-options-accepted", "macat %q returned no error", args)
		return
	}
	// nothing was sent: a PULL peer dialling the address gets nothing
	if i >= 2 && i != 9 && i != 10 && i != 11 && i != 12 && i != 13 {
		_ = peer.Dial(addr)
		c := w.Do("Recv", func() (interface{}, error) { return peer.Recv() })
		c.Wait(3 * time.Second)
		if c.Returned() && c.Err == nil {
			w.Failf("C20/bad-options-sent-data", "macat %q reported %v but a message was sent", args, run.Err)
			return
		}
	}
	w.Delivery++
	w.Probe("rejected")
}

func init() {
	register(&Scenario{Name: "macat-formats", Prop: "C20", Horizon: time.Hour, Weight: 3, Run: c20Recv})
	register(&Scenario{Name: "macat-send", Prop: "C20", Horizon: time.Hour, Weight: 2, Run: c20Send})
	register(&Scenario{Name: "macat-reject", Prop: "C20", Horizon: time.Hour, Weight: 1, Run: c20Reject})
}

// c20Reply: macat as a replier (--rep / --respondent with --data or --file):
// every request or survey it receives is printed as a record and answered with
// exactly the configured bytes - also when that payload is empty.
func c20Reply(w *W) {
	pat := []struct{ flag, peer string }{{"--rep", "req"}, {"--respondent", "surveyor"}}[w.Choose(simrt.SShape, 2)]
	payloads := []string{"the-answer", "", "x", "payload with spaces \x01\xfe"}
	pl := payloads[w.Choose(simrt.SShape, len(payloads))]
	how := w.Choose(simrt.SShape, 3) // --data X, --data=X, -D X
	nq := 1 + w.Choose(simrt.SShape, 3)
	w.SetShape("pattern", pat.flag)
	w.SetShape("payload_len", len(pl))
	w.SetShape("how", how)
	addr := w.Addr("inproc")
	var out bytes.Buffer
	app := &macat.App{}
	app.Initialize()
	app.VerifSetStdout(&out)
	args := []string{pat.flag, "--bind", addr, "--raw", "--recv-timeout", "2"}
	switch how {
	case 0:
		args = append(args, "--data", pl)
	case 1:
		args = append(args, "--data="+pl)
	default:
		args = append(args, "-D", pl)
	}
	w.Op("macat %q", args)
	run := w.Do("macat.Run", func() (interface{}, error) { return nil, app.Run(args...) })
	w.Sleep(5 * time.Millisecond)
	peer := w.Sock(pat.peer)
	defer peer.Close()
	mustSet(w, peer, mangos.OptionRecvDeadline, 500*time.Millisecond)
	if pat.peer == "surveyor" {
		mustSet(w, peer, mangos.OptionSurveyTime, 400*time.Millisecond)
	}
	if err := peer.Dial(addr); err != nil {
		w.Failf("HARNESS/dial", "%v", err)
		return
	}
	w.Sleep(30 * time.Millisecond)
	for i := 0; i < nq && !w.Failed(); i++ {
		q := fmt.Sprintf("question-%d", i)
		if err := peer.Send([]byte(q)); err != nil {
			w.Failf("HARNESS/send", "%v", err)
			return
		}
		c := w.Do("peer.Recv", func() (interface{}, error) { return peer.Recv() })
		if !c.Wait(time.Second) || c.Err != nil {
			w.Failf("C20/reply-not-sent", "macat %q received %q and sent no reply within 500ms (%v); it was told to answer with %q", args, q, c.Err, pl)
			return
		}
		if got := c.Val.([]byte); string(got) != pl {
			w.Failf("C20/reply-bytes", "macat %q answered %q with %q; --data says %q", args, q, got, pl)
			return
		}
		w.Delivery++
		if pat.peer == "surveyor" {
			w.Sleep(450 * time.Millisecond) // let the survey expire before the next one
		}
	}
	if !run.Wait(10 * time.Second) {
		w.Failf("C20/recv-timeout-ignored", "macat %q still running 10s after the last request", args)
		return
	}
	w.Probe("replier-answered-with-configured-bytes")
}

func init() {
	register(&Scenario{Name: "macat-reply", Prop: "C20", Horizon: time.Hour, Weight: 1, Run: c20Reply})
}

// c20ReplyStall: macat as a replier whose requester stops taking replies.
// Requests arrive one per 10 ms from a scripted peer that accepts one reply
// and then stalls; macat ends with its --send-timeout. The simulated clock
// tells which request it was answering when it blocked (the one that arrived
// exactly one send-timeout before it ended): that request and every earlier
// one were received, so each is printed, once, in order - whatever became of
// their replies.
func c20ReplyStall(w *W) {
	pat := []struct{ flag, kind string }{{"--rep", "rep"}, {"--respondent", "respondent"}}[w.Choose(simrt.SShape, 2)]
	tmoS := 1 + w.Choose(simrt.SShape, 3)
	w.SetShape("pattern", pat.flag)
	w.SetShape("send_timeout_s", tmoS)
	mn := w.UseMsgNet()
	addr := w.Addr("msg")
	mn.Endpoint(addr).SendCap = 1 + w.Choose(simrt.SShape, 3)
	var out bytes.Buffer
	app := &macat.App{}
	app.Initialize()
	app.VerifSetStdout(&out)
	args := []string{pat.flag, "--bind", addr, "--ascii", "--data", "pong", "--send-timeout", strconv.Itoa(tmoS), "--recv-timeout", "3600"}
	w.Op("macat %q", args)
	run := w.Do("macat.Run", func() (interface{}, error) { return nil, app.Run(args...) })
	w.Sleep(5 * time.Millisecond)
	w.Settle()
	peer := mn.Connect(addr)
	w.Settle()
	if peer == nil {
		if run.Returned() {
			w.Failf("HARNESS/macat", "macat %q ended at once: %v", args, run.Err)
		}
		return
	}
	// (requests 200 ms apart: far more than macat needs to wind up after the
	// failing Send, so the request it was answering is identified by time)
	const gap = 200 * time.Millisecond
	var at []time.Duration
	for n := 0; n < 40 && !run.Returned(); n++ {
		at = append(at, w.Now())
		peer.Inject(inbound(pat.kind, uint32(n+1), fmt.Sprintf("request-%03d", n)))
		w.Sleep(gap)
		w.Settle()
	}
	if !run.Wait(time.Duration(tmoS+5) * time.Second) {
		w.Failf("C20/send-timeout-ignored", "macat %q: the requester stopped reading after %d replies; %v later macat is still running", args, mn.Endpoint(addr).SendCap, w.Now())
		return
	}
	if run.Err == nil {
		w.Probe("replier-never-blocked")
		return
	}
	// the Send that timed out was invoked no later than (end - send timeout):
	// the request being answered is the last one that had arrived by then
	blockedBy := run.RetTime - time.Duration(tmoS)*time.Second
	k := -1
	for i, t := range at {
		if t <= blockedBy {
			k = i
		}
	}
	if k < 0 || blockedBy-at[k] >= gap {
		w.Probe("replier-stall-instant-not-identified")
		return
	}
	var want bytes.Buffer
	for i := 0; i <= k; i++ {
		fmt.Fprintf(&want, "request-%03d\n", i)
	}
	if got := out.Bytes(); !bytes.Equal(got, want.Bytes()) {
		gl := bytes.Count(got, []byte("\n"))
		w.Failf("C20/received-request-not-printed", "macat %q ended at %v with %v: it had been blocked sending the reply to request-%03d (which arrived at %v) for its %ds send timeout, so it received requests 0..%d; it printed %d records (first difference at byte %d)", args, run.RetTime, run.Err, k, at[k], tmoS, k, gl, firstDiff(got, want.Bytes()))
		return
	}
	w.Delivery += k + 1
	w.Probe("replier-stalled-every-received-request-printed")
}

// c20ProcFile: --file naming a file whose size as reported by stat is not the
// length of its content (procfs): the bytes sent are the file's content.
func c20ProcFile(w *W) {
	path := []string{"/proc/version", "/proc/self/cmdline", "/proc/cpuinfo"}[w.Choose(simrt.SShape, 3)]
	body, err := os.ReadFile(path)
	if err != nil || len(body) == 0 {
		w.Probe("no-procfs")
		return
	}
	if path == "/proc/cpuinfo" {
		// (content may vary between two reads: only its leading, stable part is compared)
	}
	w.SetShape("file", path)
	addr := w.Addr("inproc")
	peer := w.Sock("pull")
	defer peer.Close()
	mustSet(w, peer, mangos.OptionRecvDeadline, 5*time.Second)
	if err := peer.Listen(addr); err != nil {
		w.Failf("HARNESS/listen", "%v", err)
		return
	}
	app := &macat.App{}
	app.Initialize()
	var out bytes.Buffer
	app.VerifSetStdout(&out)
	args := []string{"--push", "--connect", addr, "--file", path}
	w.Op("macat %q", args)
	run := w.Do("macat.Run", func() (interface{}, error) { return nil, app.Run(args...) })
	rc := w.Do("peer.Recv", func() (interface{}, error) { return peer.Recv() })
	if !rc.Wait(6*time.Second) || rc.Err != nil {
		w.Failf("C20/send-count", "macat %q: nothing arrived (%v)", args, rc.Err)
		return
	}
	got := rc.Val.([]byte)
	cmp := body
	if path == "/proc/cpuinfo" && len(got) > 64 && len(cmp) > 64 {
		got, cmp = got[:64], cmp[:64]
	}
	if !bytes.Equal(got, cmp) {
		w.Failf("C20/sent-bytes-differ", "macat %q: the message has %d bytes, the file's content has %d (first difference at %d)", args, len(rc.Val.([]byte)), len(body), firstDiff(got, cmp))
		return
	}
	run.Wait(5 * time.Second)
	w.Delivery++
	w.Probe("file-whose-stat-size-is-not-its-length")
}

func init() {
	register(&Scenario{Name: "macat-reply-stalled-requester", Prop: "C20", Horizon: 2 * time.Hour, Weight: 1, Run: c20ReplyStall})
	register(&Scenario{Name: "macat-file-procfs", Prop: "C20", Horizon: time.Hour, Weight: 1, Run: c20ProcFile})
}

// c20SendRecv: the patterns that send and then print what comes back (REQ,
// SURVEYOR, PAIR, BUS) against a peer that answers every message at once:
// exactly --count messages go out, each with exactly the given bytes, and each
// answer is printed as one record - for every interval spelling including the
// explicit zero (with an answering peer nothing waits without limit).
func c20SendRecv(w *W) {
	pat := []struct{ flag, peer string }{{"--req", "rep"}, {"--surveyor", "respondent"}, {"--pair", "pair"}, {"--bus", "bus"}}[w.Choose(simrt.SShape, 4)]
	count := 1 + w.Choose(simrt.SShape, 4)
	ivals := []string{"0", "1", "250ms", "02", "0s"}
	iv := ivals[w.Choose(simrt.SShape, len(ivals))]
	w.SetShape("pattern", pat.flag)
	w.SetShape("count", count)
	w.SetShape("interval", iv)
	data := fmt.Sprintf("ask-%d", w.Choose(simrt.SProg, 1000))
	addr := w.Addr("inproc")
	peer := w.Sock(pat.peer)
	defer peer.Close()
	if err := peer.Listen(addr); err != nil {
		w.Failf("HARNESS/listen", "%v", err)
		return
	}
	mustSet(w, peer, mangos.OptionRecvDeadline, time.Hour)
	var got [][]byte
	w.Go("answering peer", func() {
		for {
			b, err := peer.Recv()
			if err != nil {
				return
			}
			got = append(got, b)
			if peer.Send([]byte(fmt.Sprintf("answer-%d", len(got)))) != nil {
				return
			}
		}
	})
	args := []string{pat.flag, "--connect", addr, "--count", strconv.Itoa(count), "-i", iv, "--data", data, "--quoted"}
	app := &macat.App{}
	app.Initialize()
	var out bytes.Buffer
	app.VerifSetStdout(&out)
	w.Op("macat %q", args)
	run := w.Do("macat.Run", func() (interface{}, error) { return nil, app.Run(args...) })
	if !run.Wait(time.Duration(count)*2*time.Second + 10*time.Second) {
		w.Failf("C20/send-does-not-finish", "macat %q against a peer that answers every message at once is still running", args)
		return
	}
	if run.Err != nil {
		w.Failf("C20/run-error", "macat %q: %v", args, run.Err)
		return
	}
	w.Sleep(time.Second)
	w.Settle()
	if len(got) != count {
		w.Failf("C20/send-count", "macat %q: --count %d, the peer received %d messages", args, count, len(got))
		return
	}
	for i, b := range got {
		if string(b) != data {
			w.Failf("C20/sent-bytes-differ", "macat %q: message %d arrived as %q", args, i, b)
			return
		}
	}
	recs := bytes.Split(out.Bytes(), []byte("\n"))
	if len(recs) != count+1 || len(recs[count]) != 0 {
		w.Failf("C20/quoted-output", "macat %q: %d answers arrived, %d newline-terminated records were printed: %q", args, count, len(recs)-1, out.Bytes())
		return
	}
	for i := 0; i < count; i++ {
		dec, err := unquote(recs[i])
		if want := fmt.Sprintf("answer-%d", i+1); err != nil || string(dec) != want {
			w.Failf("C20/quoted-output", "macat %q: record %d is %q, the answer was %q", args, i, recs[i], want)
			return
		}
	}
	w.Delivery += 2 * count
	w.Probe("send-then-print-answer")
}

func init() {
	register(&Scenario{Name: "macat-send-and-print-answers", Prop: "C20", Horizon: time.Hour, Weight: 6, Run: c20SendRecv})
}
