package harness

import (
	"bytes"
	"context"
	"crypto/tls"
	"fmt"
	"net"
	"net/http"
	"os"
	"sort"
	"strings"
	"sync/atomic"
	"time"

	"github.com/gorilla/websocket"

	"go.nanomsg.org/mangos/v3"
	"go.nanomsg.org/mangos/v3/verifsim/simrt"
)

// C15: bytes on the wire follow the SP stream mappings (engine B: sim://
// and simipc:// run the real transport/conn.go and connipc_posix.go over a
// simulated net.Conn; the peer is the independent wirecodec).

var wireLens = []int{0, 1, 2, 3, 4, 5, 7, 8, 9, 31, 32, 33, 63, 64, 65, 127, 128, 129, 255, 256, 257, 495, 503, 504, 507, 511, 512, 513, 1023, 1024, 1025, 4095, 4096, 4097, 8191, 8192, 8193, 20000, 65535, 65536, 65537}

func wireBody(n int, salt int) []byte {
	b := make([]byte, n)
	for i := range b {
		b[i] = byte((i*131 + salt*17 + i/251) & 0xff)
	}
	return b
}

// wirePeer connects a codec-level peer to a socket of kind over tran; the SUT
// listens (role "listen") or dials (role "dial"). Returns the peer's end.
// tran sim / simipc: simulated network (engine B); tcp / ipc / tls+tcp: real
// sockets on loopback (engine R).
func wirePeer(w *W, nt *Net, s mangos.Socket, tran, role string) net.Conn {
	if w.Real {
		return wirePeerReal(w, s, tran, role)
	}
	// engine B: sim / simipc stand-ins, or the real tcp / ipc / tls+tcp
	// endpoint code on the simulated network (verifsim/snet)
	addr := w.Addr(tran)
	name := NetKey(addr)
	tlsSrv, tlsCli := simTLS()
	if role == "listen" {
		if err := w.ListenOn(s, addr); err != nil {
			w.Failf("HARNESS/listen", "%v", err)
			return nil
		}
		c, err := nt.Dial(name)
		if err != nil {
			w.Failf("HARNESS/dial", "%v", err)
			return nil
		}
		if tran == "tls+tcp" {
			return &serialConn{Conn: tls.Client(c, tlsCli)}
		}
		return c
	}
	var got *NetConn
	ev := w.NewEvent()
	nt.Intercept[name] = func(c *NetConn) {
		if got == nil {
			got = c
			ev.Set()
		}
	}
	mustSet(w, s, mangos.OptionDialAsynch, true)
	mustSet(w, s, mangos.OptionReconnectTime, 10*time.Millisecond)
	if err := w.DialOn(s, addr); err != nil {
		w.Failf("HARNESS/dial", "%v", err)
		return nil
	}
	dw := time.Second
	if w.Real {
		dw = 30 * time.Second
	}
	if !ev.Wait(dw) {
		w.Failf("HARNESS/dial", "the socket never dialled")
		return nil
	}
	if tran == "tls+tcp" {
		return &serialConn{Conn: tls.Server(got, tlsSrv)}
	}
	return got
}

func wirePeerReal(w *W, s mangos.Socket, tran, role string) net.Conn {
	srv, cli := tlsConfigs()
	netw, laddr := "tcp", loopIP+":0"
	if tran == "ipc" {
		netw = "unix"
		laddr = fmt.Sprintf("%s/verif-c15-%d-%d.sock", os.TempDir(), os.Getpid(), w.RunIdx)
		os.Remove(laddr)
		w.OnCleanup(func() { os.Remove(laddr) })
	}
	if role == "listen" {
		url := tran + "://" + laddr
		var opts map[string]interface{}
		if tran == "tls+tcp" {
			opts = map[string]interface{}{mangos.OptionTLSConfig: srv}
		}
		l, err := s.NewListener(url, opts)
		if err != nil {
			w.Failf("HARNESS/listen", "%v", err)
			return nil
		}
		if err := l.Listen(); err != nil {
			w.Failf("HARNESS/listen", "%v", err)
			return nil
		}
		target := strings.TrimPrefix(l.Address(), tran+"://")
		var c net.Conn
		if tran == "tls+tcp" {
			c, err = tls.Dial("tcp", target, cli)
		} else {
			c, err = net.Dial(netw, target)
		}
		if err != nil {
			w.Failf("HARNESS/dial", "%v", err)
			return nil
		}
		w.OnCleanup(func() { c.Close() })
		return c
	}
	var ln net.Listener
	var err error
	if tran == "tls+tcp" {
		ln, err = tls.Listen("tcp", laddr, srv)
	} else {
		ln, err = net.Listen(netw, laddr)
	}
	if err != nil {
		w.Failf("HARNESS/listen", "%v", err)
		return nil
	}
	w.OnCleanup(func() { ln.Close() })
	got := make(chan net.Conn, 1)
	go func() {
		c, err := ln.Accept()
		if err == nil {
			got <- c
		}
	}()
	opts := map[string]interface{}{mangos.OptionDialAsynch: true}
	if tran == "tls+tcp" {
		opts[mangos.OptionTLSConfig] = cli
	}
	if err := s.DialOptions(tran+"://"+ln.Addr().String(), opts); err != nil {
		w.Failf("HARNESS/dial", "%v", err)
		return nil
	}
	select {
	case c := <-got:
		w.OnCleanup(func() { c.Close() })
		return c
	case <-time.After(30 * time.Second):
		w.Failf("HARNESS/dial", "the socket never dialled")
		return nil
	}
}

func c15Wire(w *W) { c15WireOn(w, []string{"sim", "simipc", "tcp", "ipc", "tls+tcp"}) }

// c15WireReal: the same exchange with the codec over real loopback / unix /
// TLS connections and the real transport/{tcp,ipc,tlstcp} files (engine R).
func c15WireReal(w *W) { c15WireOn(w, []string{"tcp", "ipc", "tls+tcp"}) }

func c15WireOn(w *W, trans []string) {
	kind := allKinds[w.Choose(simrt.SShape, len(allKinds))]
	tran := w.simFallback(trans[w.Choose(simrt.SShape, len(trans))])
	role := []string{"listen", "dial"}[w.Choose(simrt.SShape, 2)]
	ipc := tran == "simipc" || tran == "ipc"
	w.SetShape("kind", kind)
	w.SetShape("tran", tran)
	w.SetShape("role", role)
	nt := w.UseNet(NetCfg{Segment: w.Choose(simrt.SShape, 3) != 0, WriteChunk: w.Choose(simrt.SShape, 2) == 0, BufCap: []int{0, 64, 1000}[w.Choose(simrt.SShape, 3)]})
	s := w.Sock(kind)
	defer s.Close()
	// simulated time is exact; on real sockets (engine R) the bounds only
	// separate "works" from "never happens" on a loaded machine
	dl, wt := 50*time.Millisecond, 2*time.Second
	if w.Real {
		dl, wt = 10*time.Second, 30*time.Second
	}
	_ = s.SetOption(mangos.OptionRecvDeadline, dl)
	_ = s.SetOption(mangos.OptionSendDeadline, dl)
	if kind == "sub" {
		mustSet(w, s, mangos.OptionSubscribe, "")
	}
	attached := 0
	s.SetPipeEventHook(func(ev mangos.PipeEvent, p mangos.Pipe) {
		if ev == mangos.PipeEventAttached {
			attached++
		}
	})
	pc := wirePeer(w, nt, s, tran, role)
	if pc == nil || w.Failed() {
		return
	}
	self, peer := protoOf(kind), protoOf(peerKind[kind])
	w.Op("%s over %s, mangos %ss; codec peer announces %#x", kind, tran, role, peer)
	// --- handshake, both directions
	hs := w.Do("peer handshake", func() (interface{}, error) {
		if _, err := pc.Write(wcHeader(peer)); err != nil {
			return nil, err
		}
		_, raw, err := wcReadHeader(pc)
		return raw, err
	})
	if !hs.Wait(wt) {
		w.Failf("C15/handshake-stuck", "%s over %s (%s): no header from mangos within 1s", kind, tran, role)
		return
	}
	raw, _ := hs.Val.([]byte)
	if hs.Err != nil || !bytes.Equal(raw, wcHeader(self)) {
		w.Failf("C15/handshake-bytes:"+kind, "%s must announce protocol %#x with % x; mangos wrote % x (err %v)", kind, self, wcHeader(self), raw, hs.Err)
		return
	}
	w.Sleep(time.Millisecond)
	w.Settle()
	for i := 0; w.Real && attached != 1 && i < 3000; i++ {
		w.Sleep(10 * time.Millisecond) // wall clock: the attach follows the handshake when the OS gets to it
	}
	if attached != 1 {
		w.Failf("C15/conforming-peer-not-attached:"+kind, "a conforming %#x peer completed the handshake with %s but was not attached", peer, kind)
		return
	}
	nmsg := 2 + w.Choose(simrt.SProg, 5)
	// a request is needed before rep/respondent may send, and it tells xrep its pipe
	var lastRawHdr []byte
	feed := func(payload []byte) {
		w.Go("peer write", func() { pc.Write(wcFrame(ipc, payload)) })
	}
	readFrame := func() ([]byte, error) {
		c := w.Do("peer read", func() (interface{}, error) { return wcReadFrame(pc, ipc, 1<<24) })
		if !c.Wait(wt) {
			return nil, fmt.Errorf("no complete frame within 2s")
		}
		if c.Err != nil {
			return nil, c.Err
		}
		return c.Val.([]byte), nil
	}
	var curID []byte // id of the outstanding request/survey (cooked req/surveyor)
	for i := 0; i < nmsg && !w.Failed(); i++ {
		n := wireLens[w.Choose(simrt.SProg, len(wireLens))]
		body := wireBody(n, i)
		base := strings.TrimPrefix(kind, "x")
		// ---- peer -> mangos
		if canRecv(kind) {
			var hdr []byte
			ok := true
			switch {
			case kind == "req" || kind == "surveyor":
				hdr = curID
				ok = curID != nil
				curID = nil
			default:
				hdr = inboundHeader(kind, uint32(i+1))
			}
			if ok {
				payload := append(append([]byte(nil), hdr...), body...)
				feed(payload)
				c := w.Do("RecvMsg", func() (interface{}, error) { return s.RecvMsg() })
				if !c.Wait(wt) {
					w.Failf("C18/late", "RecvMsg pending")
					return
				}
				if c.Err != nil {
					w.Failf("C15/conforming-message-not-delivered:"+kind, "%s over %s: the codec wrote a %d-byte payload (header % x); RecvMsg returned %v", kind, tran, len(payload), hdr, c.Err)
					return
				}
				m := c.Val.(*mangos.Message)
				if !bytes.Equal(m.Body, body) {
					w.Failf("C15/received-bytes-differ:"+kind, "%s over %s: body of %d bytes arrived as %d bytes (first difference at %d)", kind, tran, len(body), len(m.Body), firstDiff(m.Body, body))
					return
				}
				if isRaw(kind) {
					lastRawHdr = append([]byte(nil), m.Header...)
				}
				m.Free()
				w.Delivery++
				w.Probe("codec-to-mangos")
			}
		}
		// ---- mangos -> peer
		if canSend(kind) {
			n2 := wireLens[w.Choose(simrt.SProg, len(wireLens))]
			out := wireBody(n2, i+100)
			m := mangos.NewMessage(len(out))
			m.Body = append(m.Body, out...)
			var wantHdr []byte
			checkHdr := true
			switch kind {
			case "rep", "respondent":
				if !canRecv(kind) || i < 0 {
					continue
				}
				wantHdr = inboundHeader(kind, uint32(i+1))
			case "xrep", "xrespondent":
				if len(lastRawHdr) < 8 {
					m.Free()
					continue
				}
				m.Header = append(m.Header, lastRawHdr...)
				wantHdr = lastRawHdr[4:]
			case "xreq", "xsurveyor":
				// a raw requester / surveyor inside a device chain sends the
				// routing words that came with the message in front of the id:
				// protocol headers of 4 to 68 bytes, written out unchanged
				for k := []int{0, 0, 1, 7, 8, 9, 16}[w.Choose(simrt.SProg, 7)]; k > 0; k-- {
					m.Header = append(m.Header, u32(uint32(w.Choose(simrt.SProg, 1<<30))&0x7fffffff)...)
				}
				m.Header = append(m.Header, rawHeader(kind, 0, uint32(i+7))...)
				wantHdr = append([]byte(nil), m.Header...)
				if len(wantHdr) > 32 {
					w.Probe("protocol-header-longer-than-32-bytes")
				}
			case "xpair1", "xstar":
				m.Header = append(m.Header, rawHeader(kind, 0, uint32(i+7))...)
				wantHdr = rawHeader(kind, 0, uint32(i+7))
			case "req", "surveyor":
				checkHdr = false // a fresh 32-bit id with the top bit set
			case "pair1", "star":
				wantHdr = []byte{0, 0, 0, 0}
			}
			c := w.Do("SendMsg", func() (interface{}, error) { return nil, s.SendMsg(m) })
			if !c.Wait(wt) {
				w.Failf("C18/late", "SendMsg pending")
				return
			}
			if c.Err != nil {
				w.Failf("C15/send-failed:"+kind, "%s SendMsg: %v", kind, c.Err)
				return
			}
			p, err := readFrame()
			if err != nil {
				w.Failf("C15/frame-unparsable:"+kind, "%s over %s sent a %d-byte body; the codec could not parse what was written: %v", kind, tran, n2, err)
				return
			}
			if !checkHdr {
				if len(p) < 4 || p[0]&0x80 == 0 || !bytes.Equal(p[4:], out) {
					w.Failf("C15/frame-bytes:"+kind, "%s over %s: payload on the wire is %d bytes, expected a 4-byte id with the top bit followed by the %d-byte body", kind, tran, len(p), len(out))
					return
				}
				curID = append([]byte(nil), p[:4]...)
			} else {
				want := append(append([]byte(nil), wantHdr...), out...)
				if !bytes.Equal(p, want) {
					w.Failf("C15/frame-bytes:"+kind, "%s over %s: payload on the wire (%d bytes, starts % x) differs from protocol header % x + %d-byte body (first difference at %d)", kind, tran, len(p), clip(p), wantHdr, len(out), firstDiff(p, want))
					return
				}
			}
			_ = base
			w.Delivery++
			w.Probe("mangos-to-codec")
		}
	}
	// ---- both directions at once (PAIR: no protocol state, both reliable):
	// the frames of one direction must not disturb the framing of the other
	if (kind == "pair" || kind == "xpair") && !w.Failed() {
		_ = s.SetOption(mangos.OptionRecvDeadline, 20*dl)
		_ = s.SetOption(mangos.OptionSendDeadline, 20*dl)
		const nd = 12
		inB, outB := make([][]byte, nd), make([][]byte, nd)
		for i := range inB {
			inB[i] = wireBody([]int{5, 0, 1, 40, 300}[w.Choose(simrt.SProg, 5)], 1000+i)
			outB[i] = wireBody([]int{300, 7, 0, 64, 2000}[w.Choose(simrt.SProg, 5)], 2000+i)
		}
		pw := w.Do("peer writes", func() (interface{}, error) {
			for _, b := range inB {
				if _, err := pc.Write(wcFrame(ipc, b)); err != nil {
					return nil, err
				}
			}
			return nil, nil
		})
		ms := w.Do("mangos sends", func() (interface{}, error) {
			for _, b := range outB {
				if err := s.Send(b); err != nil {
					return nil, err
				}
			}
			return nil, nil
		})
		pr := w.Do("peer reads", func() (interface{}, error) {
			for i, b := range outB {
				p, err := wcReadFrame(pc, ipc, 1<<24)
				if err != nil {
					return nil, fmt.Errorf("frame %d from mangos is not parsable: %v", i, err)
				}
				if !bytes.Equal(p, b) {
					return nil, fmt.Errorf("frame %d from mangos carries %d bytes (starts % x), the application sent %d bytes", i, len(p), clip(p), len(b))
				}
			}
			return nil, nil
		})
		mr := w.Do("mangos receives", func() (interface{}, error) {
			for i, b := range inB {
				got, err := s.Recv()
				if err != nil {
					return nil, fmt.Errorf("message %d from the codec: Recv returned %v", i, err)
				}
				if !bytes.Equal(got, b) {
					return nil, fmt.Errorf("message %d from the codec was written with %d bytes and delivered with %d", i, len(b), len(got))
				}
			}
			return nil, nil
		})
		for _, c := range []*Call{pw, ms, pr, mr} {
			if !c.Wait(10 * wt) {
				w.Failf("C15/duplex-stuck:"+kind, "%s over %s, frames in both directions at once: %s has not finished", kind, tran, c.Label)
				return
			}
			if c.Err != nil {
				w.Failf("C15/duplex-framing:"+kind, "%s over %s, frames in both directions at once: %s: %v", kind, tran, c.Label, c.Err)
				return
			}
		}
		w.Probe("full-duplex-framing")
		w.Delivery += 2 * nd
	}
}

func firstDiff(a, b []byte) int {
	for i := 0; i < len(a) && i < len(b); i++ {
		if a[i] != b[i] {
			return i
		}
	}
	if len(a) != len(b) {
		if len(a) < len(b) {
			return len(a)
		}
		return len(b)
	}
	return -1
}

// c15Handshake: one cell of the complete single-byte deviation grid per run
// index: byte position 0..7 x replacement value (every value but the correct
// one) of the peer's connection header.
func c15Handshake(w *W) {
	cell := w.ScenOrd
	pos := cell % 8
	delta := 1 + (cell/8)%255
	rest := cell / (8 * 255)
	kind := allKinds[rest%len(allKinds)]
	tran := []string{"sim", "simipc"}[(rest/len(allKinds))%2]
	role := []string{"listen", "dial"}[(rest/len(allKinds)/2)%2]
	w.SetShape("kind", kind)
	w.SetShape("tran", tran)
	w.SetShape("role", role)
	w.SetShape("pos", pos)
	w.SetShape("delta", delta)
	nt := w.UseNet(NetCfg{Segment: w.Choose(simrt.SShape, 2) == 0})
	s := w.Sock(kind)
	defer s.Close()
	attached := 0
	s.SetPipeEventHook(func(ev mangos.PipeEvent, p mangos.Pipe) {
		if ev == mangos.PipeEventAttached {
			attached++
		}
	})
	pcn := wirePeer(w, nt, s, tran, role)
	if pcn == nil {
		return
	}
	pc := pcn.(*NetConn)
	peer := protoOf(peerKind[kind])
	bad := wcHeader(peer)
	bad[pos] = byte(int(bad[pos]) + delta)
	w.Fault("hs-corrupt")
	w.Op("%s over %s, mangos %ss; peer header % x (byte %d deviates)", kind, tran, role, bad, pos)
	hs := w.Do("peer handshake", func() (interface{}, error) {
		if _, err := pc.Write(bad); err != nil {
			return nil, err
		}
		// mangos may write its own header first; after that the connection must end
		buf := make([]byte, 64)
		total := 0
		for {
			n, err := pc.Read(buf)
			total += n
			if err != nil {
				return total, err
			}
			if total > 8 {
				return total, nil
			}
		}
	})
	if !hs.Wait(time.Second) {
		w.Failf("C15/deviant-handshake-not-rejected", "%s (%s, %s): peer header % x (byte %d changed): mangos neither closed the connection nor sent more within 1s", kind, tran, role, bad, pos)
		return
	}
	w.Settle()
	if attached != 0 {
		w.Failf("C15/deviant-handshake-accepted:"+kind, "%s (%s, %s) attached a peer whose header was % x (byte %d deviates from % x)", kind, tran, role, bad, pos, wcHeader(peer))
		return
	}
	if hs.Err == nil {
		w.Failf("C15/deviant-handshake-not-rejected", "%s: after the deviant header % x mangos kept the connection and sent %v bytes", kind, bad, hs.Val)
		return
	}
	w.Probe(fmt.Sprintf("deviation-rejected-pos%d", pos))
	w.Delivery++
	// the next, conforming connection must still work
	var pc2 *NetConn
	if role == "listen" {
		name := strings.TrimPrefix(s.(interface{ Info() mangos.ProtocolInfo }).Info().SelfName, "")
		_ = name
	}
	if role == "listen" {
		// same listener
		for _, l := range nt.listeners {
			c, err := nt.Dial(l.addr)
			if err == nil {
				pc2 = c
			}
			break
		}
	} else {
		ev := w.NewEvent()
		for name := range nt.Intercept {
			nt.Intercept[name] = func(c *NetConn) {
				if pc2 == nil {
					pc2 = c
					ev.Set()
				}
			}
		}
		if !ev.Wait(2 * time.Second) {
			w.Failf("C12/dialer-stopped-redialling", "%s: after a rejected handshake the dialer did not dial again within 2s (reconnect time 10ms)", kind)
			return
		}
	}
	if pc2 == nil {
		w.Failf("HARNESS/second-conn", "could not open a second connection")
		return
	}
	hs2 := w.Do("peer handshake 2", func() (interface{}, error) {
		if _, err := pc2.Write(wcHeader(peer)); err != nil {
			return nil, err
		}
		_, raw, err := wcReadHeader(pc2)
		return raw, err
	})
	if !hs2.Wait(time.Second) || hs2.Err != nil {
		w.Failf("C15/poisoned-by-deviant-handshake:"+kind, "%s: after rejecting a deviant header, a conforming connection did not complete its handshake (err %v)", kind, hs2.Err)
		return
	}
	// (the accept loop pauses 10ms after a failed handshake)
	w.Sleep(50 * time.Millisecond)
	w.Settle()
	if attached != 1 {
		w.Failf("C15/poisoned-by-deviant-handshake:"+kind, "%s: after rejecting a deviant header, a conforming peer was not attached", kind)
	}
}

// c15WS: the WebSocket mapping over real loopback sockets (engine R): the
// client offers "<peer-name>.sp.nanomsg.org" and each message is one binary
// frame whose payload is protocol header + body. The far end is gorilla's
// client / server driven by the harness, not mangos.
func c15WS(w *W) {
	kind := allKinds[w.Choose(simrt.SShape, len(allKinds))]
	role := []string{"listen", "dial"}[w.Choose(simrt.SShape, 2)]
	// engine R: real loopback sockets. engine B: the ws / wss endpoint code,
	// gorilla and net/http on the simulated network under the decided schedule
	tran := "ws"
	host := loopIP + ":0"
	var cliTLS, srvTLS *tls.Config
	if !w.Real {
		tran = []string{"ws", "wss"}[w.Choose(simrt.SShape, 2)]
		host = NetKey(w.Addr("tcp"))
		w.UseNet(NetCfg{Segment: w.Choose(simrt.SShape, 2) == 0, BufCap: []int{0, 64, 1000}[w.Choose(simrt.SShape, 3)]})
		if tran == "wss" {
			srvTLS, cliTLS = simTLS()
		}
	}
	// (plain ws inside the simulation: the bytes the listener writes are looked
	// at below gorilla, which would put a fragmented message together again
	// without a word - "each message is one binary frame")
	var spy *wsFrameSpy
	wsDialer := func(sub string) *websocket.Dialer {
		d := &websocket.Dialer{Subprotocols: []string{sub}, TLSClientConfig: cliTLS}
		if !w.Real {
			d.NetDialContext = func(ctx context.Context, network, addr string) (net.Conn, error) {
				c, err := curNet.Dial(NetKey("tcp://" + addr))
				if err != nil || tran != "ws" {
					return c, err
				}
				spy = &wsFrameSpy{Conn: c}
				return spy, nil
			}
		}
		return d
	}
	defer func() {
		if spy != nil && spy.bad != "" && !w.Failed() {
			w.Failf("C15/ws-message-not-one-binary-frame:"+kind, "%s listener over ws wrote %s (after %d frames); the mapping has each message in one binary frame", kind, spy.bad, spy.frames)
		} else if spy != nil && spy.frames > 0 {
			w.Probe("ws-frames-inspected-below-gorilla")
		}
	}()
	w.SetShape("kind", kind)
	w.SetShape("tran", tran)
	w.SetShape("role", role)
	s := w.Sock(kind)
	defer s.Close()
	_ = s.SetOption(mangos.OptionRecvDeadline, 20*time.Second)
	_ = s.SetOption(mangos.OptionSendDeadline, 20*time.Second)
	if kind == "sub" {
		mustSet(w, s, mangos.OptionSubscribe, "")
	}
	info := s.Info()
	var wsAttached atomic.Int32
	s.SetPipeEventHook(func(ev mangos.PipeEvent, p mangos.Pipe) {
		if ev == mangos.PipeEventAttached {
			wsAttached.Add(1)
		}
	})
	var ws *websocket.Conn
	if role == "listen" {
		laddr := tran + "://" + host + "/sp"
		l, err := s.NewListener(laddr, w.EpOpts(laddr, true, nil))
		if err == nil {
			// listener options an application may set before listening: none
			// of them changes the mapping
			switch w.Choose(simrt.SShape, 4) {
			case 1:
				err = l.SetOption("WEBSOCKET-CHECKORIGIN", true)
				w.SetShape("check_origin", true)
			case 2:
				err = l.SetOption("WEBSOCKET-CHECKORIGIN", false)
				w.SetShape("check_origin", false)
			case 3:
				err = l.SetOption(mangos.OptionMaxRecvSize, 1<<20)
			}
		}
		if err != nil || l.Listen() != nil {
			w.Failf("HARNESS/listen", "ws listen: %v", err)
			return
		}
		url := l.Address()
		// a client offering anything but exactly "<self>.sp.nanomsg.org" is
		// refused: an unknown name, the name of each other SP protocol (PAIR
		// and PAIR1 share a prefix), near misses of the listener's own name
		self := info.SelfName
		offers := []string{"bogus.sp.nanomsg.org", self + "1.sp.nanomsg.org", self + ".sp.nanomsg.org.", self + ".sp.nanomsg.com",
			self[:len(self)-1] + ".sp.nanomsg.org", strings.ToUpper(self) + ".sp.nanomsg.org", self, ".sp.nanomsg.org", "x" + self + ".sp.nanomsg.org", self + ".sp.nanomsg.orgx"}
		for _, other := range []string{"pair", "pair1", "pub", "sub", "req", "rep", "push", "pull", "surveyor", "respondent", "bus", "star"} {
			if other != self {
				offers = append(offers, other+".sp.nanomsg.org")
			}
		}
		nbad := 1 + w.Choose(simrt.SProg, 3)
		for k := 0; k < nbad; k++ {
			offer := offers[w.Choose(simrt.SProg, len(offers))]
			bad := wsDialer(offer)
			if c, _, err := bad.Dial(url, nil); err == nil {
				c.Close()
				w.Failf("C15/ws-wrong-subprotocol-accepted", "%s listener accepted a WebSocket client that offered only %q (the mapping requires %q)", kind, offer, self+".sp.nanomsg.org")
				return
			}
			w.Fault("proto-refuse")
		}
		w.Probe("ws-foreign-subprotocol-refused")
		good := wsDialer(info.SelfName + ".sp.nanomsg.org")
		switch w.Choose(simrt.SProg, 4) {
		case 1:
			// a client may offer a preference list (RFC 6455 4.1): the SP
			// sub-protocol among others, in any position
			good.Subprotocols = []string{info.SelfName + ".sp.nanomsg.org", "x-other.example"}
			w.Probe("ws-client-offers-several-subprotocols")
		case 2:
			good.Subprotocols = []string{"x-other.example", info.SelfName + ".sp.nanomsg.org", "y-other.example"}
			w.Probe("ws-client-offers-several-subprotocols")
		}
		c, _, err := good.Dial(url, nil)
		if err != nil {
			w.Failf("C15/ws-conforming-client-refused", "%s listener refused a client offering %s.sp.nanomsg.org: %v", kind, info.SelfName, err)
			return
		}
		if sel := c.Subprotocol(); sel != info.SelfName+".sp.nanomsg.org" {
			c.Close()
			w.Failf("C15/ws-subprotocol-not-selected:"+kind, "%s listener answered the upgrade selecting sub-protocol %q; the mapping requires it to select %q (a client that checks the answer drops the connection)", kind, sel, info.SelfName+".sp.nanomsg.org")
			return
		}
		ws = c
	} else {
		offered := make(chan []string, 1)
		got := make(chan *websocket.Conn, 1)
		up := websocket.Upgrader{CheckOrigin: func(*http.Request) bool { return true }}
		var ln net.Listener
		var err error
		if w.Real {
			ln, err = net.Listen("tcp", loopIP+":0")
		} else {
			var sl *NetListener
			if sl, err = curNet.Listen(host); err == nil {
				ta, _ := net.ResolveTCPAddr("tcp", host)
				sl.naddr = ta
				ln = sl
			}
		}
		if err != nil {
			w.Failf("HARNESS/listen", "%v", err)
			return
		}
		if srvTLS != nil {
			ln = tls.NewListener(ln, srvTLS)
		}
		srv := &http.Server{Handler: http.HandlerFunc(func(rw http.ResponseWriter, r *http.Request) {
			sp := websocket.Subprotocols(r)
			select {
			case offered <- sp:
			default:
			}
			up.Subprotocols = sp
			c, err := up.Upgrade(rw, r, nil)
			if err == nil {
				got <- c
			}
		})}
		w.Go("ws server", func() { _ = srv.Serve(ln) })
		w.OnCleanup(func() { srv.Close() })
		daddr := tran + "://" + ln.Addr().String() + "/sp"
		if err := s.DialOptions(daddr, w.EpOpts(daddr, false, map[string]interface{}{mangos.OptionDialAsynch: true})); err != nil {
			w.Failf("HARNESS/dial", "%v", err)
			return
		}
		// (30 s: wall clock in engine R, simulated in engine B)
		var sp []string
		gotOffer := false
		for i := 0; i < 3000 && !gotOffer; i++ {
			select {
			case sp = <-offered:
				gotOffer = true
			default:
				w.Sleep(10 * time.Millisecond)
			}
		}
		if !gotOffer {
			w.Failf("HARNESS/dial", "no WebSocket request arrived")
			return
		}
		// the server may drop the first connections right after the upgrade:
		// every redial of the same dialer makes the same offer again
		drops := 0
		if w.Choose(simrt.SProg, 2) == 0 {
			drops = 1 + w.Choose(simrt.SProg, 2)
		}
		for attempt := 0; ; attempt++ {
			if want := info.PeerName + ".sp.nanomsg.org"; len(sp) != 1 || sp[0] != want {
				w.Failf("C15/ws-subprotocol-offer:"+kind, "%s dialling over WebSocket offered %q on connection attempt %d, the mapping requires %q", kind, sp, attempt+1, want)
				return
			}
			ws = nil
			for i := 0; i < 3000 && ws == nil; i++ {
				select {
				case ws = <-got:
				default:
					w.Sleep(10 * time.Millisecond)
				}
			}
			if ws == nil {
				w.Failf("HARNESS/dial", "upgrade did not complete")
				return
			}
			for i := 0; wsAttached.Load() < int32(attempt+1) && i < 3000; i++ {
				w.Sleep(10 * time.Millisecond)
			}
			if wsAttached.Load() < int32(attempt+1) {
				w.Failf("C15/conforming-peer-not-attached:"+kind, "%s over ws (dial, connection %d): the upgrade completed with the right sub-protocol, no pipe was attached within 30s", kind, attempt+1)
				return
			}
			if attempt >= drops {
				break
			}
			w.Op("the WebSocket server drops connection %d right after the upgrade", attempt+1)
			w.Fault("close")
			ws.Close()
			gotOffer = false
			for i := 0; i < 3000 && !gotOffer; i++ {
				select {
				case sp = <-offered:
					gotOffer = true
				default:
					w.Sleep(10 * time.Millisecond)
				}
			}
			if !gotOffer {
				w.Failf("C14/no-redial", "%s over ws: the server dropped the connection after the upgrade; no new WebSocket request within 30s", kind)
				return
			}
			w.Probe("ws-redial-offer-checked")
		}
	}
	defer ws.Close()
	// (wall clock: a best-effort Send before the pipe is attached would be
	// dropped, and look like a frame that never came)
	for i := 0; wsAttached.Load() == 0 && i < 3000; i++ {
		w.Sleep(10 * time.Millisecond)
	}
	if wsAttached.Load() == 0 {
		w.Failf("C15/conforming-peer-not-attached:"+kind, "%s over ws (%s): the upgrade completed with the right sub-protocol, no pipe was attached within 30s", kind, role)
		return
	}
	for i := 0; i < 3 && !w.Failed(); i++ {
		body := wireBody(wireLens[w.Choose(simrt.SProg, len(wireLens)-6)], i)
		if canRecv(kind) && plainInbound(kind) {
			payload := inbound(kind, uint32(i+1), string(body))
			if err := ws.WriteMessage(websocket.BinaryMessage, payload); err != nil {
				w.Failf("HARNESS/ws-write", "%v", err)
				return
			}
			c := w.Do("RecvMsg", func() (interface{}, error) { return s.RecvMsg() })
			if !c.Wait(30*time.Second) || c.Err != nil {
				w.Failf("C15/conforming-message-not-delivered:"+kind, "%s over ws: one binary frame of %d bytes was not delivered (%v)", kind, len(payload), c.Err)
				return
			}
			m := c.Val.(*mangos.Message)
			if !bytes.Equal(m.Body, body) {
				w.Failf("C15/received-bytes-differ:"+kind, "%s over ws: body of %d bytes arrived as %d bytes", kind, len(body), len(m.Body))
				return
			}
			m.Free()
			w.Delivery++
			w.Probe("ws-codec-to-mangos")
		}
		if canSend(kind) && kind != "rep" && kind != "respondent" && kind != "xrep" && kind != "xrespondent" {
			out := wireBody(wireLens[w.Choose(simrt.SProg, len(wireLens)-6)], i+50)
			if err := SendBody(s, kind, out); err != nil {
				w.Failf("C15/send-failed:"+kind, "%v", err)
				return
			}
			ws.SetReadDeadline(time.Now().Add(30 * time.Second))
			mt, p, err := ws.ReadMessage()
			if err != nil {
				w.Failf("C15/frame-unparsable:"+kind, "%s over ws: %v", kind, err)
				return
			}
			hdr := rawHeader(kind, 1, 1)
			switch kind {
			case "pair1", "star":
				hdr = []byte{0, 0, 0, 0}
			case "req", "surveyor":
				hdr = p[:4]
			}
			want := append(append([]byte(nil), hdr...), out...)
			if mt != websocket.BinaryMessage || !bytes.Equal(p, want) {
				w.Failf("C15/ws-frame:"+kind, "%s over ws: message type %d (binary = %d), %d payload bytes; expected one binary frame of header % x + %d-byte body", kind, mt, websocket.BinaryMessage, len(p), hdr, len(out))
				return
			}
			w.Delivery++
			w.Probe("ws-mangos-to-codec")
		}
	}
}

func init() {
	register(&Scenario{Name: "wire-messages-real-transports", Prop: "C15", Engine: "R", Weight: 1, Run: c15WireReal})
	register(&Scenario{Name: "websocket-mapping", Prop: "C15", Engine: "R", Weight: 1, Run: c15WS})
	register(&Scenario{Name: "websocket-mapping-sim", Prop: "C15", Horizon: time.Hour, Weight: 3, Run: c15WS})
	register(&Scenario{Name: "wire-messages", Prop: "C15", Weight: 9, Horizon: time.Hour, Run: c15Wire})
	register(&Scenario{Name: "handshake-deviation-grid", Prop: "C15", Horizon: time.Hour, Weight: 9, Run: c15Handshake})
}

// c15WSMany: several conforming WebSocket clients complete their upgrade
// while the listener's accept loop is away (a slow Attached callback): each
// of them offered the right sub-protocol, got it selected, and sends one
// binary frame - every one of those messages is delivered.
func c15WSMany(w *W) {
	kind := []string{"pull", "bus", "sub", "xrep"}[w.Choose(simrt.SShape, 4)]
	nc := 2 + w.Choose(simrt.SShape, 3)
	w.SetShape("kind", kind)
	w.SetShape("clients", nc)
	s := w.Sock(kind)
	defer s.Close()
	_ = s.SetOption(mangos.OptionRecvDeadline, 20*time.Second)
	if kind == "sub" {
		mustSet(w, s, mangos.OptionSubscribe, "")
	}
	var first atomic.Bool
	s.SetPipeEventHook(func(ev mangos.PipeEvent, p mangos.Pipe) {
		if ev == mangos.PipeEventAttached && first.CompareAndSwap(false, true) {
			w.Sleep(300 * time.Millisecond) // the accept loop is away for a while
		}
	})
	info := s.Info()
	laddr := "ws://" + loopIP + ":0/sp"
	var cliTLS *tls.Config
	if !w.Real {
		// engine B: the same inside the simulation, over ws or wss
		w.UseNet(NetCfg{Segment: w.Choose(simrt.SShape, 2) == 0})
		laddr = w.Addr([]string{"ws", "wss"}[w.Choose(simrt.SShape, 2)])
		if strings.HasPrefix(laddr, "wss") {
			_, cliTLS = simTLS()
		}
	}
	l, err := s.NewListener(laddr, w.EpOpts(laddr, true, nil))
	if err != nil || l.Listen() != nil {
		w.Failf("HARNESS/listen", "ws listen: %v", err)
		return
	}
	url := l.Address()
	var conns []*websocket.Conn
	defer func() {
		for _, c := range conns {
			c.Close()
		}
	}()
	want := map[string]bool{}
	for i := 0; i < nc; i++ {
		d := &websocket.Dialer{Subprotocols: []string{info.SelfName + ".sp.nanomsg.org"}, HandshakeTimeout: 30 * time.Second, TLSClientConfig: cliTLS}
		if !w.Real {
			d.HandshakeTimeout = 0
			d.NetDialContext = func(ctx context.Context, network, addr string) (net.Conn, error) {
				return curNet.Dial(NetKey("tcp://" + addr))
			}
		}
		c, _, err := d.Dial(url, nil)
		if err != nil {
			w.Failf("C15/ws-conforming-client-refused", "%s listener refused client %d offering %s.sp.nanomsg.org: %v", kind, i, info.SelfName, err)
			return
		}
		conns = append(conns, c)
		body := fmt.Sprintf("client-%d", i)
		want[body] = true
		if err := c.WriteMessage(websocket.BinaryMessage, inbound(kind, uint32(i+1), body)); err != nil {
			w.Failf("HARNESS/ws-write", "%v", err)
			return
		}
		if i == 0 {
			w.Sleep(30 * time.Millisecond) // let the first attach begin (and its callback start sleeping)
		}
	}
	for len(want) > 0 {
		m, err := s.Recv()
		if err != nil {
			var missing []string
			for b := range want {
				missing = append(missing, b)
			}
			sort.Strings(missing)
			w.Failf("C15/conforming-message-not-delivered:"+kind, "%s over ws: %d conforming clients connected while the accept loop was busy, each sent one binary frame; never delivered: %v (%v)", kind, nc, missing, err)
			return
		}
		delete(want, string(m))
		w.Delivery++
	}
	w.Probe("ws-clients-while-accept-loop-busy")
}

func init() {
	register(&Scenario{Name: "websocket-many-clients", Prop: "C15", Engine: "R", Weight: 1, Run: c15WSMany})
	register(&Scenario{Name: "websocket-many-clients-sim", Prop: "C15", Horizon: time.Hour, Weight: 2, Run: c15WSMany})
}


// wsFrameSpy parses the WebSocket frames a server writes (unmasked, RFC 6455
// section 5.2) as the client reads them, below the WebSocket library.
type wsFrameSpy struct {
	net.Conn
	http   bool   // the HTTP response has been skipped
	tail   []byte // last bytes seen while looking for the end of the HTTP response
	need   int    // payload bytes of the current frame still to skip
	hdr    []byte // header bytes of the frame being parsed
	frames int
	bad    string
}

func (s *wsFrameSpy) Read(p []byte) (int, error) {
	n, err := s.Conn.Read(p)
	s.feed(p[:n])
	return n, err
}

func (s *wsFrameSpy) feed(b []byte) {
	for len(b) > 0 {
		if !s.http {
			s.tail = append(s.tail, b[0])
			b = b[1:]
			if len(s.tail) > 4 {
				s.tail = s.tail[len(s.tail)-4:]
			}
			if string(s.tail) == "\r\n\r\n" {
				s.http = true
			}
			continue
		}
		if s.need > 0 {
			k := s.need
			if k > len(b) {
				k = len(b)
			}
			s.need -= k
			b = b[k:]
			continue
		}
		s.hdr = append(s.hdr, b[0])
		b = b[1:]
		if len(s.hdr) < 2 {
			continue
		}
		l7 := int(s.hdr[1] & 0x7f)
		want := 2
		switch l7 {
		case 126:
			want = 4
		case 127:
			want = 10
		}
		if s.hdr[1]&0x80 != 0 {
			want += 4 // (a server does not mask; tolerated)
		}
		if len(s.hdr) < want {
			continue
		}
		plen := l7
		switch l7 {
		case 126:
			plen = int(s.hdr[2])<<8 | int(s.hdr[3])
		case 127:
			plen = 0
			for _, x := range s.hdr[2:10] {
				plen = plen<<8 | int(x)
			}
		}
		fin, op := s.hdr[0]&0x80 != 0, s.hdr[0]&0x0f
		s.frames++
		if s.bad == "" {
			switch {
			case op == 0:
				s.bad = fmt.Sprintf("a continuation frame of %d bytes", plen)
			case op == 1:
				s.bad = fmt.Sprintf("a text frame of %d bytes", plen)
			case op == 2 && !fin:
				s.bad = fmt.Sprintf("a binary frame of %d bytes without FIN (a fragment)", plen)
			}
		}
		s.need = plen
		s.hdr = s.hdr[:0]
	}
}
