package harness

import (
	"crypto/tls"
	"fmt"
	"net"
	"os"
	"strings"
	"time"

	"go.nanomsg.org/mangos/v3"
	"go.nanomsg.org/mangos/v3/verifsim/simrt"
)

// C13, last clause: Pipe.Address / Dialer / Listener and the pipe's read-only
// options describe the actual connection and the endpoint that created it.

type c13Pipe struct {
	p    mangos.Pipe
	side string
}

func c13Collect(w *W, a, b mangos.Socket, laddr string, lopts, dopts map[string]interface{}) (lp, dp mangos.Pipe, l mangos.Listener, d mangos.Dialer, ok bool) {
	got := make(chan c13Pipe, 8)
	hook := func(side string) mangos.PipeEventHook {
		return func(ev mangos.PipeEvent, p mangos.Pipe) {
			if ev == mangos.PipeEventAttached {
				select {
				case got <- c13Pipe{p, side}:
				default:
				}
				simrt.Yield()
			}
		}
	}
	a.SetPipeEventHook(hook("listen"))
	b.SetPipeEventHook(hook("dial"))
	var err error
	if l, err = a.NewListener(laddr, lopts); err != nil {
		w.Failf("HARNESS/newlistener", "%v", err)
		return
	}
	if err = l.Listen(); err != nil {
		w.Failf("HARNESS/listen", "%v", err)
		return
	}
	if d, err = b.NewDialer(l.Address(), dopts); err != nil {
		w.Failf("HARNESS/newdialer", "%v", err)
		return
	}
	if err = d.Dial(); err != nil {
		w.Failf("HARNESS/dial", "%v", err)
		return
	}
	tries := 500
	if w.Real {
		tries = 30000 // wall clock on a possibly loaded machine
	}
	for i := 0; i < tries && (lp == nil || dp == nil); i++ {
		select {
		case x := <-got:
			simrt.Yield()
			if x.side == "listen" {
				lp = x.p
			} else {
				dp = x.p
			}
		default:
			w.Sleep(time.Millisecond)
			w.Settle()
		}
	}
	if lp == nil || dp == nil {
		w.Failf("HARNESS/attach", "pipes did not attach on both sides")
		return
	}
	ok = true
	return
}

func c13CheckEndpoints(w *W, tran string, lp, dp mangos.Pipe, l mangos.Listener, d mangos.Dialer) bool {
	if lp.Listener() != l || lp.Dialer() != nil || lp.Address() != l.Address() {
		w.Failf("C13/wrong-listener", "%s: the accepted pipe reports Listener()=%v Dialer()=%v Address()=%q; it was accepted by the listener on %q", tran, lp.Listener(), lp.Dialer(), lp.Address(), l.Address())
		return false
	}
	if dp.Dialer() != d || dp.Listener() != nil || dp.Address() != d.Address() {
		w.Failf("C13/wrong-dialer", "%s: the dialled pipe reports Dialer()=%v Listener()=%v Address()=%q; it was made by the dialer to %q", tran, dp.Dialer(), dp.Listener(), dp.Address(), d.Address())
		return false
	}
	if lp.ID() == 0 || dp.ID() == 0 || lp.ID() == dp.ID() || lp.ID() >= 1<<31 || dp.ID() >= 1<<31 {
		w.Failf("C13/bad-pipe-id", "pipe ids %#x / %#x", lp.ID(), dp.ID())
		return false
	}
	return true
}

func addrOf(p mangos.Pipe, opt string) (net.Addr, error) {
	v, err := p.GetOption(opt)
	if err != nil {
		return nil, err
	}
	a, ok := v.(net.Addr)
	if !ok {
		return nil, fmt.Errorf("%s is a %T, not a net.Addr", opt, v)
	}
	return a, nil
}

func c13Addr(w *W) {
	kind := []string{"pair", "bus", "req", "pub", "star", "xrep"}[w.Choose(simrt.SShape, 6)]
	tran := w.simFallback([]string{"sim", "simipc", "inproc", "tcp", "ipc", "tls+tcp", "ws", "wss"}[w.Choose(simrt.SShape, 8)])
	w.SetShape("kind", kind)
	w.SetShape("tran", tran)
	w.UseNet(NetCfg{Segment: w.Choose(simrt.SShape, 2) == 0})
	a, b := w.Sock(kind), w.Sock(peerKind[kind])
	defer a.Close()
	defer b.Close()
	laddr := w.Addr(tran)
	// a listener bound to the wildcard address: its pipes still describe the
	// connection (the address that was dialled), not the listener
	wildcard := false
	if (tran == "tcp" || tran == "tls+tcp" || tran == "ws" || tran == "wss") && w.Choose(simrt.SShape, 3) == 0 {
		wildcard = true
		laddr = strings.Replace(laddr, "127.0.0.1", []string{"0.0.0.0", "[::]"}[w.Choose(simrt.SShape, 2)], 1)
		w.SetShape("wildcard", true)
	}
	lp, dp, l, d, ok := c13Collect(w, a, b, laddr, w.EpOpts(laddr, true, nil), w.EpOpts(laddr, false, map[string]interface{}{
		mangos.OptionReconnectTime: 37 * time.Millisecond, mangos.OptionMaxReconnectTime: 91 * time.Millisecond}))
	if !ok || !c13CheckEndpoints(w, tran, lp, dp, l, d) {
		return
	}
	if tran != "inproc" {
		ll, e1 := addrOf(lp, mangos.OptionLocalAddr)
		lr, e2 := addrOf(lp, mangos.OptionRemoteAddr)
		dl, e3 := addrOf(dp, mangos.OptionLocalAddr)
		dr, e4 := addrOf(dp, mangos.OptionRemoteAddr)
		if e1 != nil || e2 != nil || e3 != nil || e4 != nil {
			w.Failf("C13/address-options-missing", "%s: %v %v %v %v", tran, e1, e2, e3, e4)
			return
		}
		want := NetKey(l.Address())
		if wildcard {
			w.Probe("wildcard-listener")
		}
		clientOK := true
		switch tran {
		case "sim", "simipc":
			clientOK = strings.HasPrefix(dl.String(), "client:")
		case "tcp", "tls+tcp", "ws", "wss":
			clientOK = strings.HasPrefix(dl.String(), "127.0.0.1:") && dl.String() != want
		}
		if ll.String() != want || dr.String() != want || lr.String() != dl.String() || !clientOK {
			w.Failf("C13/wrong-connection-addresses", "%s: listener side local=%v remote=%v, dialer side local=%v remote=%v; the connection is %v <-> %v", tran, ll, lr, dl, dr, dl, want)
			return
		}
	}
	if tran == "tls+tcp" || tran == "wss" {
		// (the tls+tcp listener side is the known finding recorded for engine R: the
		// state is captured before the handshake has run)
		for _, x := range []struct {
			side string
			p    mangos.Pipe
		}{{"dialer", dp}, {"listener", lp}} {
			v, err := x.p.GetOption(mangos.OptionTLSConnState)
			cs, ok := v.(tls.ConnectionState)
			if err != nil || !ok || !cs.HandshakeComplete || cs.Version == 0 {
				w.Failf("C13/wrong-tls-state:"+tran+":"+x.side, "%s: the %s-side pipe's TLS state (%T, err %v, handshake complete %v, version %#x) does not describe the established session", tran, x.side, v, err, cs.HandshakeComplete, cs.Version)
			}
		}
		w.Probe("tls-state")
	} else if v, err := lp.GetOption(mangos.OptionTLSConnState); err == nil {
		w.Failf("C13/wrong-tls-state:"+tran+":plain", "%s: a non-TLS pipe reports TLS state %v", tran, v)
		return
	}
	if tran == "inproc" {
		// inproc has no network address; what the pipe reports as its local
		// and remote address names the inproc endpoint it belongs to
		for _, x := range []struct {
			side string
			p    mangos.Pipe
		}{{"dialer", dp}, {"listener", lp}} {
			for _, opt := range []string{mangos.OptionLocalAddr, mangos.OptionRemoteAddr} {
				na, err := addrOf(x.p, opt)
				if err != nil {
					w.Failf("C13/address-options-missing", "inproc %s side: %s: %v", x.side, opt, err)
					return
				}
				if na.Network() != "inproc" || !strings.HasSuffix(l.Address(), "://"+na.String()) {
					w.Failf("C13/wrong-connection-addresses", "inproc %s side: %s is %s %q; the endpoint is %s", x.side, opt, na.Network(), na.String(), l.Address())
					return
				}
			}
		}
		w.Probe("inproc-pipe-addresses")
	}
	// an option the connection does not have is answered by the endpoint that
	// created the pipe, with that endpoint's value
	for _, x := range []struct {
		side string
		p    mangos.Pipe
		get  func(string) (interface{}, error)
	}{{"dialer", dp, d.GetOption}, {"listener", lp, l.GetOption}} {
		for _, opt := range []string{mangos.OptionReconnectTime, mangos.OptionMaxReconnectTime, mangos.OptionDialAsynch, mangos.OptionMaxRecvSize, mangos.OptionNoDelay, mangos.OptionKeepAlive} {
			pv, perr := x.p.GetOption(opt)
			ev, eerr := x.get(opt)
			if perr == nil && (eerr != nil || pv != ev) {
				w.Failf("C13/pipe-option-not-the-endpoints", "%s: GetOption(%s) on the %s-side pipe returns %v; its %s returns (%v, %v)", tran, opt, x.side, pv, x.side, ev, eerr)
				return
			}
			if perr == nil {
				w.Probe("pipe-option-answered-by-endpoint")
			}
		}
	}
	// an unknown read-only option is refused, not invented
	if v, err := lp.GetOption("NO-SUCH-PROPERTY"); err == nil {
		w.Failf("C13/invented-pipe-option", "GetOption(NO-SUCH-PROPERTY) on a pipe returned %v", v)
		return
	}
	w.Delivery++
	w.Probe("pipe-describes-connection")
}

// c13AddrReal: the same over the real OS transports (engine R), adding TLS
// state and unix peer credentials.
func c13AddrReal(w *W) {
	kind := []string{"pair", "bus", "req", "pub"}[w.Choose(simrt.SShape, 4)]
	tran := w.simFallback([]string{"tcp", "tls+tcp", "ipc", "ws", "wss"}[w.Choose(simrt.SShape, 5)])
	w.SetShape("kind", kind)
	w.SetShape("tran", tran)
	srv, cli := tlsConfigs()
	var lopts, dopts map[string]interface{}
	url := tran + "://" + loopIP + ":0"
	switch tran {
	case "ipc":
		p := fmt.Sprintf("%s/verif-c13-%d-%d.sock", os.TempDir(), os.Getpid(), w.RunIdx)
		os.Remove(p)
		w.OnCleanup(func() { os.Remove(p) })
		url = "ipc://" + p
	case "ws", "wss":
		url += "/sp"
	}
	if tran == "tls+tcp" || tran == "wss" {
		lopts = map[string]interface{}{mangos.OptionTLSConfig: srv}
		dopts = map[string]interface{}{mangos.OptionTLSConfig: cli}
	}
	a, b := w.Sock(kind), w.Sock(peerKind[kind])
	defer a.Close()
	defer b.Close()
	lp, dp, l, d, ok := c13Collect(w, a, b, url, lopts, dopts)
	if !ok || !c13CheckEndpoints(w, tran, lp, dp, l, d) {
		return
	}
	ll, e1 := addrOf(lp, mangos.OptionLocalAddr)
	lr, e2 := addrOf(lp, mangos.OptionRemoteAddr)
	dl, e3 := addrOf(dp, mangos.OptionLocalAddr)
	dr, e4 := addrOf(dp, mangos.OptionRemoteAddr)
	if e1 != nil || e2 != nil || e3 != nil || e4 != nil {
		w.Failf("C13/address-options-missing", "%s: %v %v %v %v", tran, e1, e2, e3, e4)
		return
	}
	if tran != "ipc" {
		if ll.String() != dr.String() || lr.String() != dl.String() {
			w.Failf("C13/wrong-connection-addresses", "%s: listener side local=%v remote=%v, dialer side local=%v remote=%v do not describe one connection", tran, ll, lr, dl, dr)
			return
		}
		if !strings.Contains(l.Address(), ll.String()) {
			w.Failf("C13/wrong-connection-addresses", "%s: the accepted pipe's local address %v is not the listener's address %s", tran, ll, l.Address())
			return
		}
	} else {
		for _, o := range []struct {
			name string
			want int
		}{{mangos.OptionPeerPID, os.Getpid()}, {mangos.OptionPeerUID, os.Getuid()}, {mangos.OptionPeerGID, os.Getgid()}} {
			v, err := lp.GetOption(o.name)
			if err != nil || v != o.want {
				w.Failf("C13/wrong-peer-credentials", "ipc: the accepted pipe reports %s = (%v, %v); the peer is this process (%d)", o.name, v, err, o.want)
				return
			}
		}
		w.Probe("peer-credentials")
	}
	if tran == "tls+tcp" || tran == "wss" {
		for _, x := range []struct {
			side string
			p    mangos.Pipe
		}{{"dialer", dp}, {"listener", lp}} {
			v, err := x.p.GetOption(mangos.OptionTLSConnState)
			cs, ok := v.(tls.ConnectionState)
			if err != nil || !ok || !cs.HandshakeComplete || cs.Version == 0 {
				w.Failf("C13/wrong-tls-state:"+tran+":"+x.side, "%s: the %s-side pipe's TLS state (%T, err %v, handshake complete %v, version %#x) does not describe the established session", tran, x.side, v, err, cs.HandshakeComplete, cs.Version)
				return
			}
		}
		w.Probe("tls-state")
	} else if v, err := lp.GetOption(mangos.OptionTLSConnState); err == nil {
		w.Failf("C13/wrong-tls-state:"+tran+":plain", "%s: a non-TLS pipe reports TLS state %v", tran, v)
		return
	}
	w.Delivery++
	w.Probe("pipe-describes-connection")
}

func init() {
	register(&Scenario{Name: "pipe-describes-connection", Prop: "C13", Horizon: time.Hour, Weight: 3, Run: c13Addr})
	register(&Scenario{Name: "pipe-describes-connection-real-transports", Prop: "C13", Engine: "R", Weight: 1, Run: c13AddrReal})
}
