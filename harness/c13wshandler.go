package harness

import (
	"bytes"
	"crypto/tls"
	"net"
	"net/http"
	"net/url"
	"time"

	"go.nanomsg.org/mangos/v3"
	"go.nanomsg.org/mangos/v3/verifsim/simrt"
)

// ws-handler-in-application-server: the documented second way to run a
// WebSocket listener - the application asks the listener for its http.Handler
// (option WEBSOCKET-HANDLER), mounts it in an HTTP(S) server of its own and
// calls Listen, which then binds nothing. The server may speak TLS whatever
// scheme the listener's address has. Everything the properties say about a
// ws / wss pipe holds in this mode too: the pipe describes the connection
// (addresses, TLS state of the session it is really carried by - C13), the
// mapping is the same (C15: a mangos wss / ws dialer attaches and messages
// cross unchanged), Close releases the upgraded connections and the handler
// goroutines waiting on them although the server is not the listener's (C10),
// and a listener closed while the server still runs refuses further upgrades
// without wedging the server (C12).
func c13WsHandler(w *W) {
	if w.simFallback("ws") != "ws" {
		// (a changed tree that does not build with package net behind the
		// simulated network: the ws endpoint code cannot run here)
		w.Probe("ws-not-in-simulation")
		return
	}
	kind := []string{"pair", "bus", "req", "pub", "star", "xrep", "pull"}[w.Choose(simrt.SShape, 7)]
	serverTLS := w.Choose(simrt.SShape, 2) == 0
	lscheme := []string{"ws", "wss"}[w.Choose(simrt.SShape, 2)]
	w.SetShape("kind", kind)
	w.SetShape("server_tls", serverTLS)
	w.SetShape("listener_scheme", lscheme)
	w.UseNet(NetCfg{Segment: w.Choose(simrt.SShape, 2) == 0, BufCap: []int{0, 64, 1000}[w.Choose(simrt.SShape, 3)]})
	a, b := w.Sock(kind), w.Sock(peerKind[kind])
	aClosed, bClosed := false, false
	defer func() {
		if !aClosed {
			a.Close()
		}
		if !bClosed {
			b.Close()
		}
	}()
	if peerKind[kind] == "sub" {
		mustSet(w, b, mangos.OptionSubscribe, "")
	}
	laddr := w.Addr(lscheme)
	u, err := url.Parse(laddr)
	if err != nil {
		w.Failf("HARNESS/addr", "%v", err)
		return
	}
	type ev struct {
		p    mangos.Pipe
		side string
		e    mangos.PipeEvent
	}
	var evs []ev
	a.SetPipeEventHook(func(e mangos.PipeEvent, p mangos.Pipe) { evs = append(evs, ev{p, "listen", e}) })
	b.SetPipeEventHook(func(e mangos.PipeEvent, p mangos.Pipe) { evs = append(evs, ev{p, "dial", e}) })
	find := func(side string, e mangos.PipeEvent) mangos.Pipe {
		for _, x := range evs {
			if x.side == side && x.e == e {
				return x.p
			}
		}
		return nil
	}
	// (no TLS configuration on the listener: it serves nothing itself)
	l, err := a.NewListener(laddr, nil)
	if err != nil {
		w.Failf("HARNESS/newlistener", "%v", err)
		return
	}
	hv, err := l.GetOption("WEBSOCKET-HANDLER")
	h, ok := hv.(http.Handler)
	if err != nil || !ok {
		w.Failf("C19/ws-handler-option", "GetOption(WEBSOCKET-HANDLER) on a %s listener returned (%T, %v), not an http.Handler", lscheme, hv, err)
		return
	}
	lc := w.Do("Listen", func() (interface{}, error) { return nil, l.Listen() })
	w.Settle()
	if !lc.Returned() || lc.Err != nil {
		w.Failf("C12/listen-with-application-server", "Listen on a %s listener whose handler the application serves: returned=%v err=%v", lscheme, lc.Returned(), lc.Err)
		return
	}
	// the application's own server
	sl, err := curNet.Listen(u.Host)
	if err != nil {
		w.Failf("HARNESS/listen", "%v", err)
		return
	}
	ta, _ := net.ResolveTCPAddr("tcp", u.Host)
	sl.naddr = ta
	var ln net.Listener = sl
	srvCfg, cliCfg := simTLS()
	if serverTLS {
		ln = tls.NewListener(ln, srvCfg)
	}
	mux := http.NewServeMux()
	mux.Handle(u.Path, h)
	mux.HandleFunc("/other", func(rw http.ResponseWriter, r *http.Request) { rw.Write([]byte("application page")) })
	srv := &http.Server{Handler: mux}
	w.Go("application http server", func() { _ = srv.Serve(ln) })
	w.OnCleanup(func() { srv.Close() })

	dscheme := "ws"
	dopts := map[string]interface{}{mangos.OptionDialAsynch: false}
	if serverTLS {
		dscheme = "wss"
		dopts[mangos.OptionTLSConfig] = cliCfg
	}
	daddr := dscheme + "://" + u.Host + u.Path
	d, err := b.NewDialer(daddr, dopts)
	if err != nil {
		w.Failf("HARNESS/newdialer", "%v", err)
		return
	}
	dc := w.Do("Dial", func() (interface{}, error) { return nil, d.Dial() })
	if !dc.Wait(30*time.Second) || dc.Err != nil {
		w.Failf("C15/ws-handler-mode-dial", "a mangos %s dialer towards a %s listener mounted in the application's %s server: Dial returned=%v err=%v", dscheme, lscheme, map[bool]string{true: "HTTPS", false: "HTTP"}[serverTLS], dc.Returned(), dc.Err)
		return
	}
	for i := 0; i < 2000 && (find("listen", mangos.PipeEventAttached) == nil || find("dial", mangos.PipeEventAttached) == nil); i++ {
		w.Sleep(time.Millisecond)
		w.Settle()
	}
	lp, dp := find("listen", mangos.PipeEventAttached), find("dial", mangos.PipeEventAttached)
	if lp == nil || dp == nil {
		w.Failf("C13/attached-missing", "the connection through the application's server did not attach on both sides (listener side %v, dialer side %v)", lp != nil, dp != nil)
		return
	}
	w.Probe("ws-handler-mode-attached")
	if !c13CheckEndpoints(w, lscheme+"(handler)", lp, dp, l, d) {
		return
	}
	ll, e1 := addrOf(lp, mangos.OptionLocalAddr)
	lr, e2 := addrOf(lp, mangos.OptionRemoteAddr)
	dl, e3 := addrOf(dp, mangos.OptionLocalAddr)
	dr, e4 := addrOf(dp, mangos.OptionRemoteAddr)
	if e1 != nil || e2 != nil || e3 != nil || e4 != nil {
		w.Failf("C13/address-options-missing", "ws handler mode: %v %v %v %v", e1, e2, e3, e4)
		return
	}
	if ll.String() != u.Host || dr.String() != u.Host || lr.String() != dl.String() {
		w.Failf("C13/wrong-connection-addresses", "ws handler mode: listener side local=%v remote=%v, dialer side local=%v remote=%v; the connection is %v <-> %v", ll, lr, dl, dr, dl, u.Host)
		return
	}
	for _, x := range []struct {
		side string
		p    mangos.Pipe
	}{{"dialer", dp}, {"listener", lp}} {
		v, err := x.p.GetOption(mangos.OptionTLSConnState)
		if serverTLS {
			cs, ok := v.(tls.ConnectionState)
			if err != nil || !ok || !cs.HandshakeComplete || cs.Version == 0 {
				w.Failf("C13/wrong-tls-state:ws-handler:"+x.side, "listener address %s, served by the application's HTTPS server: the %s-side pipe is carried by TLS but reports (%T, err %v, handshake complete %v)", laddr, x.side, v, err, cs.HandshakeComplete)
				return
			}
		} else if err == nil {
			w.Failf("C13/wrong-tls-state:ws-handler:plain", "listener address %s, served by the application's plain HTTP server: the %s-side pipe reports TLS state %v", laddr, x.side, v)
			return
		}
	}
	w.Probe("ws-handler-mode-pipe-describes-connection")
	// traffic both ways where the pattern has it
	msg := func(from, to mangos.Socket, fk, tk string, body []byte) bool {
		if !canSend(fk) || !canRecv(tk) {
			return true
		}
		if fk == "rep" || fk == "xrep" || tk == "req" {
			return true // (a reply needs a request first: the other direction covers the pair)
		}
		m := mangos.NewMessage(len(body))
		if isRaw(fk) {
			m.Header = append(m.Header, rawHeader(fk, 1, 1)...)
		}
		m.Body = append(m.Body, body...)
		sc := w.Do("SendMsg", func() (interface{}, error) { return nil, from.SendMsg(m) })
		rc := w.Do("RecvMsg", func() (interface{}, error) { return to.RecvMsg() })
		if !sc.Wait(20*time.Second) || sc.Err != nil || !rc.Wait(20*time.Second) || rc.Err != nil {
			w.Failf("C01/message-lost:ws-handler", "%s -> %s through the application's server: send returned=%v err=%v, receive returned=%v err=%v", fk, tk, sc.Returned(), sc.Err, rc.Returned(), rc.Err)
			return false
		}
		got := rc.Val.(*mangos.Message)
		if !bytes.Equal(got.Body, body) {
			w.Failf("C01/bytes-differ:ws-handler", "%s -> %s: sent %q, received %q", fk, tk, clip(body), clip(got.Body))
			return false
		}
		got.Free()
		w.Delivery++
		return true
	}
	_ = a.SetOption(mangos.OptionRecvDeadline, 30*time.Second)
	_ = b.SetOption(mangos.OptionRecvDeadline, 30*time.Second)
	if !msg(b, a, peerKind[kind], kind, patBody("to-listener", 10+w.Choose(simrt.SProg, 3000))) {
		return
	}
	if !msg(a, b, kind, peerKind[kind], patBody("to-dialer", 10+w.Choose(simrt.SProg, 3000))) {
		return
	}
	// the application's other pages are unaffected by the listener
	switch w.Choose(simrt.SProg, 3) {
	case 0:
		// the listener alone is closed; the server keeps running: its pipe goes,
		// later upgrades are refused, the server still answers
		w.Op("listener closed, application server keeps running")
		cc := w.Do("Listener.Close", func() (interface{}, error) { return nil, l.Close() })
		w.Settle()
		if !cc.Returned() {
			w.Failf("C10/close-did-not-return:listener", "Close of a ws listener served by the application's server is pending")
			return
		}
		c2 := w.Sock(peerKind[kind])
		defer c2.Close()
		dc2 := w.Do("Dial(after listener close)", func() (interface{}, error) {
			return nil, c2.DialOptions(daddr, map[string]interface{}{mangos.OptionDialAsynch: false, mangos.OptionTLSConfig: cliCfg})
		})
		if !dc2.Wait(30 * time.Second) {
			w.Failf("C12/call-never-returns:Dial", "a Dial towards the application's server after the ws listener was closed never returns")
			return
		}
		if dc2.Err == nil {
			// connected: nobody will ever accept it - it must at least not attach
			w.Sleep(50 * time.Millisecond)
			w.Settle()
		}
		w.Probe("ws-handler-mode-listener-closed-first")
	case 1:
		w.Op("dialling socket closed first")
		bClosed = true
		b.Close()
		w.Sleep(20 * time.Millisecond)
		w.Settle()
		if find("listen", mangos.PipeEventDetached) == nil {
			w.Failf("C13/detached-missing", "ws handler mode: the peer closed, the listening side never reported Detached")
			return
		}
	}
	aClosed, bClosed = true, true
	c1 := w.Do("Socket.Close(listening side)", func() (interface{}, error) { return nil, a.Close() })
	c2 := w.Do("Socket.Close(dialling side)", func() (interface{}, error) { return nil, b.Close() })
	w.Settle()
	if !c1.Returned() || !c2.Returned() {
		w.Failf("C10/close-did-not-return:socket", "ws handler mode: Close returned: listening side %v, dialling side %v", c1.Returned(), c2.Returned())
		return
	}
	// the handler goroutines of the application's server were waiting for their
	// pipes: with the sockets closed they have returned, so the server can shut
	// down gracefully (Shutdown waits for active handlers; hijacked connections
	// are the handlers' to close)
	w.Sleep(100 * time.Millisecond)
	w.Settle()
	if oc := curNet.OpenConns(); len(oc) > 0 {
		w.Failf("C10/connection-left-open", "ws handler mode: every socket is closed, %d connection(s) through the application's server are still open: %v", len(oc), oc)
		return
	}
	w.Probe("ws-handler-mode-closed-clean")
}

func init() {
	register(&Scenario{Name: "ws-handler-in-application-server", Prop: "C13", Horizon: time.Hour, Weight: 8, Run: c13WsHandler})
	register(&Scenario{Name: "ws-handler-in-application-server-mapping", Prop: "C15", Horizon: time.Hour, Weight: 10, Run: c13WsHandler})
	register(&Scenario{Name: "ws-handler-in-application-server-close", Prop: "C10", Horizon: time.Hour, Weight: 15, Run: c13WsHandler})
	register(&Scenario{Name: "ws-handler-in-application-server-errors", Prop: "C12", Horizon: time.Hour, Weight: 3, Run: c13WsHandler})
}
