package harness

import (
	"fmt"
	"time"

	"go.nanomsg.org/mangos/v3"
	"go.nanomsg.org/mangos/v3/verifsim/simrt"
	"go.nanomsg.org/mangos/v3/verifsim/srand"
)

// C14 (and the dialer side of C13/C12): a socket dials msg://; every dial
// outcome is scripted; the oracle works on the time-stamped attempt log.

type dialBench struct {
	*coreBench
	r, M     time.Duration
	async    bool
	events   []dEv // attempts and drops, in order
	closedAt time.Duration
	closed   bool
	accepted []*MsgPipe
	rate     int
}

type dEv struct {
	kind    string // "attempt-ok", "attempt-refuse", "drop"
	at      time.Duration
	step    int64
	settled bool // drop injected after a settle
}

func c14Run(w *W) {
	kind := allKinds[w.Choose(simrt.SShape, len(allKinds))]
	rs := []time.Duration{time.Millisecond, 10 * time.Millisecond, 100 * time.Millisecond, time.Second}
	r := rs[w.Choose(simrt.SShape, len(rs))]
	var M time.Duration
	switch w.Choose(simrt.SShape, 4) {
	case 1:
		M = r
	case 2:
		M = 3 * r
	case 3:
		M = 100 * r
	}
	async := w.Choose(simrt.SShape, 2) == 0
	rate := []int{0, 20}[w.Choose(simrt.SShape, 2)]
	jit := w.Choose(simrt.SShape, 3)
	w.SetShape("kind", kind)
	w.SetShape("r", r.String())
	w.SetShape("M", M.String())
	w.SetShape("async", async)
	w.SetShape("reject_rate", rate)
	w.SetShape("jitter", jit)
	jf := func() float64 {
		switch jit {
		case 0:
			return 0
		case 1:
			return 0.9999999
		}
		return float64(w.Choose(simrt.SMisc, 1000)) / 1000
	}
	srand.Float64Hook.Store(&jf)
	defer srand.Float64Hook.Store(nil)

	b := &dialBench{coreBench: newCoreBench(w, kind, rate), r: r, M: M, async: async, rate: rate}
	b.daddr = w.Addr("msg")
	ep := b.mn.Endpoint(b.daddr)
	// scripted outcomes
	nplan := 2 + w.Choose(simrt.SShape, 8)
	for i := 0; i < nplan; i++ {
		if w.Choose(simrt.SShape, 3) == 0 {
			ep.Plan = append(ep.Plan, "ok")
		} else {
			ep.Plan = append(ep.Plan, "refuse")
		}
	}
	w.SetShape("plan", fmt.Sprint(ep.Plan))
	ep.OnDial = func(outcome string) {
		k := "attempt-refuse"
		if outcome == "ok" {
			k = "attempt-ok"
		}
		b.events = append(b.events, dEv{k, w.Now(), w.Step(), false})
		if b.closed && w.Now() > b.closedAt {
			w.Failf("C14/dial-after-close", "a connection attempt started at %v, after Close returned at %v", w.Now(), b.closedAt)
		}
	}
	b.onReject = func(why string) {
		b.events = append(b.events, dEv{"local-reject", w.Now(), w.Step(), false})
	}
	ep.OnPipe = func(p *MsgPipe) {
		b.accepted = append(b.accepted, p)
		p.OnClose = func() {}
	}
	// where the reconnect options are given: to NewDialer, to the socket
	// beforehand (a new dialer inherits them), or to the dialer after its
	// construction
	where := w.Choose(simrt.SShape, 3)
	w.SetShape("options_given_to", []string{"NewDialer", "socket-before", "dialer-after"}[where])
	dopts := map[string]interface{}{mangos.OptionDialAsynch: async}
	switch where {
	case 0:
		dopts[mangos.OptionReconnectTime] = r
		dopts[mangos.OptionMaxReconnectTime] = M
	case 1:
		// (the maximum first: a socket refuses nothing here, but the order a
		// careful application would use)
		if e1, e2 := b.s.SetOption(mangos.OptionMaxReconnectTime, M), b.s.SetOption(mangos.OptionReconnectTime, r); e1 != nil || e2 != nil {
			w.Failf("C19/option-refused", "%s socket SetOption(MaxReconnectTime %v) = %v, SetOption(ReconnectTime %v) = %v", kind, M, e1, r, e2)
			return
		}
		w.Probe("reconnect-options-inherited-from-socket")
	}
	d, err := b.s.NewDialer(b.daddr, dopts)
	if err != nil {
		w.Failf("HARNESS/newdialer", "%v", err)
		return
	}
	if where == 2 {
		if e1, e2 := d.SetOption(mangos.OptionMaxReconnectTime, M), d.SetOption(mangos.OptionReconnectTime, r); e1 != nil || e2 != nil {
			w.Failf("C19/option-refused", "%s dialer SetOption(MaxReconnectTime %v) = %v, SetOption(ReconnectTime %v) = %v", kind, M, e1, r, e2)
			return
		}
		w.Probe("reconnect-options-set-on-dialer-after-construction")
	}
	for _, o := range []struct {
		n string
		v time.Duration
	}{{mangos.OptionReconnectTime, r}, {mangos.OptionMaxReconnectTime, M}} {
		if got, err := d.GetOption(o.n); err != nil || got != o.v {
			w.Failf("C19/get-differs", "%s dialer (options given to %s): GetOption(%s) = (%v, %v), want %v", kind, []string{"NewDialer", "socket-before", "dialer-after"}[where], o.n, got, err, o.v)
			return
		}
	}
	b.d = d
	maxGap := M
	if r > maxGap {
		maxGap = r
	}
	// --- start dialling
	firstErr := error(nil)
	for try := 0; try < 4; try++ {
		c := w.Do("Dialer.Dial", func() (interface{}, error) { return nil, d.Dial() })
		w.Settle()
		if !c.Returned() {
			if w.WedgeCheck("C12") {
				return
			}
			w.Failf("C14/dial-blocked", "Dial has not returned although the scripted outcome was immediate")
			return
		}
		firstErr = c.Err
		w.Op("Dial -> %v", errName(c.Err))
		if async {
			if c.Err != nil {
				w.Failf("C14/async-dial-error", "asynchronous Dial returned %v", c.Err)
				return
			}
			break
		}
		if c.Err == nil {
			break
		}
		// synchronous failure: the error is returned, nothing redials in the
		// background, and Dial may be called again
		if c.Err == mangos.ErrAddrInUse {
			w.Failf("C12/dial-retry-refused", "a synchronous Dial failed (connection refused); calling Dial again returned %v instead of trying again", c.Err)
			return
		}
		n := len(b.events)
		w.Sleep(maxGap * 3)
		w.Settle()
		if len(b.events) != n {
			w.Failf("C14/redial-before-first-success", "synchronous Dial failed, yet %d background attempts followed", len(b.events)-n)
			return
		}
		b.events = nil // a failed synchronous Dial starts no streak
		w.Probe("sync-dial-retry")
	}
	if !async && firstErr != nil {
		// never connected within 4 tries: nothing further to check but close
		b.finish(w)
		return
	}
	// --- let the plan play out, dropping connections at tape-chosen moments
	nops := 2 + w.Choose(simrt.SProg, 8)
	for op := 0; op < nops && !w.Failed(); op++ {
		switch w.Choose(simrt.SProg, 4) {
		case 0, 1:
			dt := []time.Duration{r / 2, r, r + 1, maxGap, maxGap * 2, maxGap*3 + 7}[w.Choose(simrt.SProg, 6)]
			w.Op("advance %v", dt)
			w.Sleep(dt)
		case 2:
			for _, p := range b.accepted {
				if p.Open() {
					settled := w.Choose(simrt.SProg, 2) == 0
					if settled {
						w.Settle()
					}
					w.Op("peer %s drops (settled=%v)", p.Name, settled)
					w.Fault("close")
					p.ClosePeer()
					b.events = append(b.events, dEv{"drop", w.Now(), w.Step(), settled})
					break
				}
			}
		case 3:
			if w.Choose(simrt.SProg, 4) == 0 && len(ep.Plan) < 3 {
				ep.Plan = append(ep.Plan, "ok")
			}
			if w.Choose(simrt.SProg, 3) == 0 {
				// the application sets a reconnect option again, to the value it
				// already has, on the running dialer or on its socket (which
				// hands it down): nothing about the schedule may change - in
				// particular a maximum of zero still means "no back-off growth",
				// not "no delay"
				name, v := mangos.OptionMaxReconnectTime, M
				if w.Choose(simrt.SProg, 2) == 0 {
					name, v = mangos.OptionReconnectTime, r
				}
				var err error
				if w.Choose(simrt.SProg, 2) == 0 {
					err = d.SetOption(name, v)
				} else {
					err = b.s.SetOption(name, v)
				}
				w.Op("%s set again to %v while the dialer runs -> %v", name, v, errName(err))
				if err != nil {
					w.Failf("C19/option-refused", "%s: SetOption(%s, %v) on a started dialer / its socket: %v", kind, name, v, err)
					return
				}
				w.Probe("reconnect-option-set-again-while-running")
			}
		}
		w.Settle()
		b.checkGaps(w, false)
		if w.WedgeCheck("C12") {
			return
		}
	}
	// after the plan is exhausted every dial succeeds: wait out the longest
	// back-off and expect a live connection (traffic resumes without action)
	w.Sleep(maxGap*3 + time.Second)
	w.Settle()
	b.checkGaps(w, true)
	if w.Failed() {
		return
	}
	b.finish(w)
}

func (b *dialBench) finish(w *W) {
	closeDialer := w.Choose(simrt.SProg, 2) == 0
	var c *Call
	if closeDialer && b.d != nil {
		w.Op("Dialer.Close")
		c = w.Do("Dialer.Close", func() (interface{}, error) { return nil, b.d.Close() })
	} else {
		w.Op("Socket.Close")
		c = w.Do("Socket.Close", func() (interface{}, error) { return nil, b.s.Close() })
	}
	w.Settle()
	if !c.Returned() {
		if w.WedgeCheck("C12") {
			return
		}
		w.Failf("C10/close-did-not-return", "%s still pending after settle", c.Label)
		return
	}
	b.closed, b.closedAt = true, w.Now()
	// drop whatever is connected: a closed dialer must not redial
	for _, p := range b.accepted {
		if p.Open() {
			p.ClosePeer()
		}
	}
	w.Sleep(10*b.r + 10*b.M + time.Second)
	w.Settle()
	if closeDialer {
		b.s.Close()
		w.Sleep(time.Second)
		w.Settle()
	}
	b.checkLifecycle(true)
	w.Delivery += len(b.events)
	w.Census("C14", b.s)
}

// checkGaps applies the C14 rules to the attempt log.
func (b *dialBench) checkGaps(w *W, final bool) {
	r, M := b.r, b.M
	maxGap := M
	if r > maxGap {
		maxGap = r
	}
	var prevGap time.Duration = -1
	streak := 0
	for i := 1; i < len(b.events); i++ {
		e, p := b.events[i], b.events[i-1]
		if e.kind == "drop" || e.kind == "local-reject" {
			continue
		}
		// e is an attempt; p is what preceded it
		if p.kind == "local-reject" {
			w.Probe("redial-after-local-rejection")
		}
		gap := e.at - p.at
		if gap < r {
			w.Failf("C14/redial-too-soon", "attempt at %v follows %s at %v: gap %v < ReconnectTime %v", e.at, p.kind, p.at, gap, r)
			return
		}
		if gap > maxGap {
			w.Failf("C14/redial-too-late", "attempt at %v follows %s at %v: gap %v > max(MaxReconnectTime,ReconnectTime) %v", e.at, p.kind, p.at, gap, maxGap)
			return
		}
		if p.kind == "drop" && p.settled && b.rate == 0 && i >= 2 && b.events[i-2].kind == "attempt-ok" && gap != r {
			w.Failf("C14/backoff-not-reset", "after a successful attach (settled) the connection dropped at %v; the next attempt came %v later, not ReconnectTime %v", p.at, gap, r)
			return
		}
		if p.kind == "drop" && p.settled {
			w.Probe("drop-after-settled-attach")
		}
		if M == 0 && gap != r {
			w.Failf("C14/backoff-without-max", "MaxReconnectTime is 0 but the gap before the attempt at %v is %v, not ReconnectTime %v", e.at, gap, r)
			return
		}
		if p.kind == "attempt-refuse" {
			streak++
			if streak > 1 && prevGap >= 0 && gap < prevGap {
				w.Failf("C14/backoff-shrinks", "within a failure streak the gap went from %v to %v", prevGap, gap)
				return
			}
			if gap > r {
				w.Probe("backoff-grew")
			}
			if gap == M && M > r {
				w.Probe("backoff-capped")
			}
			prevGap = gap
		} else {
			streak = 0
			prevGap = -1
		}
	}
	// liveness: the last event, if it is a failure or a drop, must be followed
	// by an attempt within maxGap
	if n := len(b.events); n > 0 && !b.closed {
		last := b.events[n-1]
		if last.kind == "local-reject" {
			w.Probe("local-rejection-needs-redial")
		}
		if last.kind != "attempt-ok" && w.Now()-last.at > maxGap {
			w.Failf("C14/no-redial", "%s at %v, now %v, no further attempt although the dialer is open (ReconnectTime %v, MaxReconnectTime %v)", last.kind, last.at, w.Now(), r, M)
			return
		}
		if final {
			live := 0
			for _, p := range b.accepted {
				if p.Open() {
					live++
				}
			}
			if live == 0 && last.kind == "attempt-ok" {
				// connected but rejected locally each time: acceptable only
				// with a non-zero rejection plan
				w.Probe("no-live-connection-at-end")
			}
		}
	}
}

func init() {
	register(&Scenario{Name: "dialer-reconnect", Prop: "C14", Horizon: 2 * time.Hour, Weight: 10, Run: c14Run})
	// C12's clause "rejecting or losing a connection at any stage never stops
	// a dialer from redialling" is decided by the same runs
	register(&Scenario{Name: "dialer-keeps-redialling", Prop: "C12", Horizon: 2 * time.Hour, Weight: 4, Run: c14Run})
	// C13: the dialling side of the pipe lifecycle (Attaching / Attached /
	// Detached per connection, ids, the protocol told once each) and "its dialer
	// carries on redialling" after a pipe was refused by the hook, by the
	// protocol or lost - the same runs, judged by the lifecycle automaton too
	register(&Scenario{Name: "pipe-lifecycle-dialer", Prop: "C13", Horizon: 2 * time.Hour, Weight: 8, Run: c14Run})
	// C19: the reconnect options "take effect as documented" (MaxReconnectTime
	// is a ceiling, ReconnectTime the floor and the value after a success)
	register(&Scenario{Name: "reconnect-options-effective", Prop: "C19", Horizon: 2 * time.Hour, Weight: 6, Run: c14Run})
}

// c14ZeroReconnect: the accepted ReconnectTime 0 (retry at once) together with
// a MaxReconnectTime: the first attempts are refused, the dialer carries on
// and connects as soon as the peer accepts; growing the delay from zero must
// not upset it.
func c14ZeroReconnect(w *W) {
	kind := []string{"pair", "req", "push", "bus", "sub"}[w.Choose(simrt.SShape, 5)]
	M := []time.Duration{10 * time.Millisecond, time.Second, 0}[w.Choose(simrt.SShape, 3)]
	nref := 1 + w.Choose(simrt.SShape, 4)
	w.SetShape("kind", kind)
	w.SetShape("M", M.String())
	w.SetShape("refusals", nref)
	mn := w.UseMsgNet()
	addr := w.Addr("msg")
	ep := mn.Endpoint(addr)
	for i := 0; i < nref; i++ {
		ep.Plan = append(ep.Plan, "refuse")
	}
	attempts := 0
	ep.OnDial = func(outcome string) { attempts++ }
	var got []*MsgPipe
	ep.OnPipe = func(p *MsgPipe) { got = append(got, p) }
	s := w.Sock(kind)
	defer s.Close()
	d, err := s.NewDialer(addr, map[string]interface{}{mangos.OptionReconnectTime: time.Duration(0), mangos.OptionMaxReconnectTime: M, mangos.OptionDialAsynch: true})
	if err != nil {
		if err == mangos.ErrBadValue {
			w.Probe("zero-reconnect-time-not-accepted")
			return
		}
		w.Failf("HARNESS/newdialer", "%v", err)
		return
	}
	c := w.Do("Dial", func() (interface{}, error) { return nil, d.Dial() })
	w.Sleep(2*M + time.Second)
	w.Settle()
	if !c.Returned() || c.Err != nil {
		w.Failf("C14/no-redial", "%s: asynchronous Dial with ReconnectTime 0: returned=%v err=%v", kind, c.Returned(), c.Err)
		return
	}
	if len(got) == 0 {
		w.Failf("C14/no-redial", "%s (ReconnectTime 0, MaxReconnectTime %v): the first %d attempts were refused, the peer accepts since; %v later the dialer has made %d attempts and is not connected", kind, M, nref, w.Now(), attempts)
		return
	}
	w.Delivery++
	w.Probe("reconnect-time-zero-with-maximum")
}

func init() {
	register(&Scenario{Name: "dialer-reconnect-time-zero", Prop: "C14", Horizon: time.Hour, Weight: 1, Run: c14ZeroReconnect})
}
