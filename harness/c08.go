package harness

import (
	"fmt"
	"sort"
	"strings"
	"time"

	"go.nanomsg.org/mangos/v3"
	"go.nanomsg.org/mangos/v3/verifsim/simrt"
)

// C08: BUS and STAR reach every other member once and never echo.

type c8Member struct {
	name   string
	s      mangos.Socket
	r      *c2Recv
	addr   string
	sender bool
	expect map[string]bool // members whose messages it must receive
}

func c08Run(w *W) {
	topo := []string{"bus-mesh", "bus-chain-cooked", "bus-device", "star", "star-tree"}[w.Choose(simrt.SShape, 5)]
	tran := w.simFallback([]string{"inproc", "sim", "tcp", "ipc", "tls+tcp", "ws", "wss"}[w.Choose(simrt.SShape, 7)])
	n := 2 + w.Choose(simrt.SShape, 3)
	nmsg := 1 + w.Choose(simrt.SShape, 6)
	ntask := 1 + w.Choose(simrt.SShape, 2)
	w.SetShape("topo", topo)
	w.SetShape("tran", tran)
	w.SetShape("n", n)
	w.SetShape("msgs", nmsg)
	w.SetShape("tasks", ntask)
	w.UseNet(NetCfg{Segment: w.Choose(simrt.SShape, 2) == 0})
	// variants: a member that never reads behind a short send queue (the others
	// must be unaffected: "queue space permitting" is per peer), and a member
	// with a tiny receive queue that sends a burst well within its send queue
	slow := w.Choose(simrt.SShape, 4) == 0 && (topo == "star" || topo == "bus-mesh" || topo == "bus-device") && n >= 3
	burst := !slow && w.Choose(simrt.SShape, 4) == 0
	if slow {
		// enough traffic to overflow the 128-deep send queue towards the member
		// that never reads, over a transport that exerts back-pressure
		nmsg, ntask = 50, 2
		if tran != "inproc" {
			w.UseNet(NetCfg{BufCap: 64})
		}
	}
	// a dialled link is lost (once or twice) and re-established by its dialer
	// before the traffic starts: afterwards there must again be exactly one
	// link per pair - every message once, nothing echoed
	flap := !slow && !burst && w.Choose(simrt.SShape, 3) == 0
	empties := !slow && !burst && w.Choose(simrt.SShape, 2) == 0
	w.SetShape("empty_bodies", empties)
	w.SetShape("slow_member", slow)
	w.SetShape("burst", burst)
	w.SetShape("link_flap", flap)
	var dialled []mangos.Pipe
	// early: every dialling member first tries while nobody listens on the
	// address (a synchronous Dial that fails: connection refused) and again
	// once somebody does - the usual "retry until the other side is there".
	// The failed attempt must leave nothing running that connects by itself
	// later (a second link between the same two members).
	early := !slow && !burst && !flap && w.Choose(simrt.SShape, 3) == 0
	w.SetShape("dial_before_listen", early)
	var members []*c8Member
	var all []mangos.Socket
	defer func() {
		for _, s := range all {
			s.Close()
		}
	}()
	mk := func(name, kind string) *c8Member {
		m := &c8Member{name: name, s: w.Sock(kind), expect: map[string]bool{}, sender: true}
		_ = m.s.SetOption(mangos.OptionReconnectTime, 10*time.Millisecond)
		_ = m.s.SetOption(mangos.OptionMaxReconnectTime, 10*time.Millisecond)
		m.s.SetPipeEventHook(func(ev mangos.PipeEvent, p mangos.Pipe) {
			if ev == mangos.PipeEventAttached && p.Dialer() != nil {
				dialled = append(dialled, p)
			}
		})

		if burst {
			// only the receive queue is small; the send queues keep their 128
			_ = m.s.SetOption(mangos.OptionReadQLen, 1+w.Choose(simrt.SShape, 2))
		}
		all = append(all, m.s)
		members = append(members, m)
		return m
	}
	listeners := map[*c8Member]mangos.Listener{}
	listen := func(m *c8Member) {
		if m.addr == "" {
			m.addr = w.Addr(tran)
		}
		l, err := m.s.NewListener(m.addr, w.EpOpts(m.addr, true, nil))
		if err == nil {
			err = l.Listen()
		}
		if err != nil {
			w.Failf("HARNESS/listen", "%v", err)
		}
		listeners[m] = l
	}
	dial := func(m, to *c8Member) {
		if early {
			// the listener is away for a moment: the first attempt is refused
			// (settled first: closing a listener drops connections it has
			// accepted but not yet attached)
			w.Settle()
			_ = listeners[to].Close()
			if err := w.DialOn(m.s, to.addr); err == nil {
				w.Failf("HARNESS/early-dial", "Dial to %s succeeded although nobody listens", to.addr)
			}
			listen(to)
			w.Probe("dial-before-listen")
		}
		if err := w.DialOn(m.s, to.addr); err != nil {
			w.Failf("HARNESS/dial", "%v", err)
		}
	}
	switch topo {
	case "bus-mesh":
		for i := 0; i < n; i++ {
			mk(fmt.Sprintf("M%d", i), "bus")
		}
		for i, m := range members {
			listen(m)
			for j := 0; j < i; j++ {
				dial(m, members[j])
			}
		}
		for _, m := range members {
			for _, o := range members {
				if o != m {
					m.expect[o.name] = true
				}
			}
		}
	case "bus-chain-cooked":
		// A - D - B with a cooked BUS in the middle: D hears both, passes nothing on
		a, d, b := mk("A", "bus"), mk("D", "bus"), mk("B", "bus")
		listen(d)
		dial(a, d)
		dial(b, d)
		a.expect["D"], b.expect["D"] = true, true
		d.expect["A"], d.expect["B"] = true, true
	case "bus-device":
		// leaves around a raw BUS that forwards what it receives (a device)
		x := &c8Member{name: "X", s: w.Sock("xbus"), expect: map[string]bool{}}
		all = append(all, x.s)
		listen(x)
		for i := 0; i < n; i++ {
			m := mk(fmt.Sprintf("L%d", i), "bus")
			dial(m, x)
		}
		for _, m := range members {
			for _, o := range members {
				if o != m {
					m.expect[o.name] = true
				}
			}
		}
		if w.Choose(simrt.SShape, 2) == 0 {
			// a forwarder of the application's own (a filter, a logger): it
			// re-sends each received message as a message it builds itself,
			// with the header it received - for a raw BUS socket the header
			// names the connection the message came from, and that is what
			// keeps it from going back there
			w.SetShape("forwarder", "rebuilds-messages")
			w.Probe("raw-bus-forwarder-rebuilds-messages")
			xs := x.s
			w.Go("forwarder X", func() {
				for {
					m, err := xs.RecvMsg()
					if err != nil {
						if err == mangos.ErrClosed {
							return
						}
						continue
					}
					n := mangos.NewMessage(len(m.Body))
					n.Header = append(n.Header, m.Header...)
					n.Body = append(n.Body, m.Body...)
					m.Free()
					if xs.SendMsg(n) != nil {
						n.Free()
					}
				}
			})
		} else if err := mangos.Device(x.s, x.s); err != nil {
			w.Failf("HARNESS/device", "%v", err)
		}
	case "star":
		c := mk("C", "star")
		listen(c)
		for i := 0; i < n; i++ {
			m := mk(fmt.Sprintf("L%d", i), "star")
			dial(m, c)
		}
		for _, m := range members {
			for _, o := range members {
				if o != m {
					m.expect[o.name] = true
				}
			}
		}
	case "star-tree":
		root := mk("R", "star")
		listen(root)
		for i := 0; i < 2; i++ {
			mid := mk(fmt.Sprintf("I%d", i), "star")
			dial(mid, root)
			listen(mid)
			for j := 0; j < 1+w.Choose(simrt.SShape, 2); j++ {
				leaf := mk(fmt.Sprintf("L%d%d", i, j), "star")
				dial(leaf, mid)
			}
		}
		for _, m := range members {
			for _, o := range members {
				if o != m {
					m.expect[o.name] = true
				}
			}
		}
	}
	if w.Failed() {
		return
	}
	w.Op("topology %s over %s: %d members, each sends %d messages from %d tasks", topo, tran, len(members), nmsg, ntask)
	w.Sleep(5 * time.Millisecond)
	if early {
		w.Sleep(60 * time.Millisecond) // several reconnect intervals: whatever a failed Dial left behind has acted by now
	}
	w.Settle()
	if flap {
		for k := 1 + w.Choose(simrt.SProg, 2); k > 0 && len(dialled) > 0; k-- {
			p := dialled[w.Choose(simrt.SProg, len(dialled))]
			w.Op("link %s (pipe %x) is lost", p.Address(), p.ID())
			w.Fault("close")
			if tran != "inproc" && w.Choose(simrt.SProg, 2) == 0 {
				resetSomeConn(w, "")
			} else {
				_ = p.Close()
			}
			w.Sleep(300 * time.Millisecond) // 30 reconnect intervals
			w.Settle()
		}
		w.Probe("link-flap-before-traffic")
	}
	if w.Choose(simrt.SProg, 3) == 0 {
		// the members change their send queue length now that everybody is
		// connected and idle (it governs connections made from now on, or is
		// applied to the existing ones - either way nobody is disconnected and
		// everything sent afterwards still reaches every peer)
		for _, m := range members {
			if err := m.s.SetOption(mangos.OptionWriteQLen, []int{128, 256, 200}[w.Choose(simrt.SProg, 3)]); err == nil {
				w.Probe("send-queue-length-changed-before-traffic")
			}
		}
		w.Settle()
	}
	var slowM *c8Member
	if slow {
		// the last leaf never reads and never sends
		slowM = members[len(members)-1]
		slowM.sender = false
		w.Op("%s never reads", slowM.name)
		w.Probe("slow-member")
	}
	for _, m := range members {
		if m == slowM {
			m.r = &c2Recv{name: m.name, s: m.s}
			continue
		}
		m.r = c2StartReceiver(w, m.name, m.s, 300*time.Millisecond)
	}
	if burst {
		w.Probe("burst-within-send-queue")
	}
	var calls []*Call
	for _, m := range members {
		m := m
		if !m.sender {
			continue
		}
		for t := 0; t < ntask; t++ {
			t := t
			calls = append(calls, w.Do(fmt.Sprintf("sender %s:%d", m.name, t), func() (interface{}, error) {
				for i := 0; i < nmsg; i++ {
					if err := SendOwn(m.s, []byte(fmt.Sprintf("%s:%d:%d", m.name, t, i))); err != nil {
						return nil, err
					}
					if empties && i == nmsg/2 {
						// a message with an empty body is a message
						if err := m.s.Send(nil); err != nil {
							return nil, err
						}
					}
					// pace below every queue length (a burst stays within the 128-deep send queues)
					if !burst {
						w.Sleep(time.Duration(50+w.Choose(simrt.SProg, 200)) * time.Microsecond)
					}
				}
				return nil, nil
			}))
		}
	}
	for _, c := range calls {
		if !c.Wait(10 * time.Second) {
			w.WedgeCheck("C12")
			w.Failf("C08/send-blocked", "%s did not finish", c.Label)
			return
		}
		if c.Err != nil {
			w.Failf("C08/send-failed", "%s: %v", c.Label, c.Err)
			return
		}
	}
	w.Sleep(time.Second)
	w.Settle()
	for _, m := range members {
		if m == slowM {
			continue
		}
		count := map[string]int{}
		for _, b := range m.r.got {
			count[b]++
			if b == "" {
				continue // counted below: one per sending task of every expected member
			}
			origin := strings.SplitN(b, ":", 2)[0]
			if origin == m.name {
				w.Failf("C08/echo:"+topo, "%s received its own message %q back", m.name, b)
				return
			}
			if !m.expect[origin] {
				w.Failf("C08/passed-on:"+topo, "%s received %q from %s, which is not directly connected (nor reachable through a forwarder)", m.name, b, origin)
				return
			}
		}
		var dups, missing []string
		for _, o := range members {
			if !m.expect[o.name] || !o.sender {
				continue
			}
			for t := 0; t < ntask; t++ {
				for i := 0; i < nmsg; i++ {
					b := fmt.Sprintf("%s:%d:%d", o.name, t, i)
					switch {
					case count[b] == 0:
						missing = append(missing, b)
					case count[b] > 1:
						dups = append(dups, b)
					}
				}
			}
		}
		if empties {
			want := 0
			for _, o := range members {
				if m.expect[o.name] && o.sender {
					want += ntask
				}
			}
			if count[""] != want {
				w.Failf("C08/empty-message:"+topo, "%s received %d messages with an empty body; %d sending tasks of the members it hears each sent exactly one", m.name, count[""], want)
				return
			}
		}
		sort.Strings(dups)
		sort.Strings(missing)
		if len(dups) > 0 {
			w.Failf("C08/duplicate:"+topo, "%s received these more than once: %v", m.name, dups)
			return
		}
		if len(missing) > 0 {
			w.Failf("C08/missing:"+topo, "%s never received: %v (volumes are far below every queue length)", m.name, missing)
			return
		}
	}
	if slow || burst || w.Failed() || w.Choose(simrt.SProg, 2) != 0 {
		return
	}
	// an application that answers on the Message object it has just received
	// (it owns it): what it sends is a message of its own - every member that
	// hears it gets it once, the member the old content came from included,
	// and it does not come back
	var a, b *c8Member
	for _, m := range members {
		for _, o := range members {
			if a == nil && o != m && m.expect[o.name] && o.sender && m.sender {
				a, b = m, o
			}
		}
	}
	if a == nil {
		return
	}
	if k := w.Choose(simrt.SProg, len(members)); members[k].sender {
		for _, o := range members {
			if o != members[k] && members[k].expect[o.name] && o.sender {
				a, b = members[k], o
			}
		}
	}
	a.r.keep = func(body string) bool { return strings.HasPrefix(body, "ping:") }
	w.Op("%s sends a ping; %s answers on the very Message it received", b.name, a.name)
	if err := b.s.Send([]byte("ping:" + b.name)); err != nil {
		w.Failf("C08/send-failed", "%s: %v", b.name, err)
		return
	}
	w.Sleep(500 * time.Millisecond)
	w.Settle()
	if len(a.r.kept) == 0 {
		w.Failf("C08/missing:"+topo, "%s never received the ping of %s", a.name, b.name)
		return
	}
	rm := a.r.kept[0]
	a.r.kept = nil
	rm.Body = append(rm.Body[:0], "reuse:"+a.name...)
	if rm.Pipe != nil && w.Choose(simrt.SProg, 2) == 0 {
		// a header set by the application means nothing on a cooked socket - not
		// even one that spells the id of the connection the old content came on
		rm.Header = append(rm.Header[:0], u32(rm.Pipe.ID())...)
		if n := w.Choose(simrt.SProg, 4); n > 0 {
			// ... nor a header of another length (a message that came from some other socket)
			rm.Header = append(rm.Header[:0], patBody("hdr", []int{1, 8, 12}[n-1])...)
		}
		w.Probe("application-header-on-cooked-socket")
	}
	if err := a.s.SendMsg(rm); err != nil {
		w.Failf("C08/send-failed", "%s re-using a received message: %v", a.name, err)
		return
	}
	w.Sleep(time.Second)
	w.Settle()
	for _, m := range members {
		cnt := 0
		for _, g := range m.r.got {
			if g == "reuse:"+a.name {
				cnt++
			}
		}
		switch {
		case m == a && cnt > 0:
			w.Failf("C08/echo:"+topo, "%s received its own message %q back", a.name, "reuse:"+a.name)
			return
		case m != a && m.expect[a.name] && cnt != 1:
			w.Failf("C08/reused-message:"+topo, "%s sent a message using the Message object in which it had received %s's ping: %s received it %d times instead of once", a.name, b.name, m.name, cnt)
			return
		}
	}
	w.Probe("answer-on-received-message-object")
	c08Newcomer(w, topo, tran, members, listeners, &all)
}

// c08Newcomer: a member joins while traffic is passing (it dials a member
// that listens - the hub of a star, any listening member of a bus - at the
// moment that member and its peers are sending). Once things have settled it
// is a member like the others: the next message of the member it joined
// reaches it, once.
func c08Newcomer(w *W, topo, tran string, members []*c8Member, listeners map[*c8Member]mangos.Listener, all *[]mangos.Socket) {
	if w.Failed() || w.Choose(simrt.SProg, 2) != 0 {
		return
	}
	var host *c8Member
	for _, m := range members {
		if listeners[m] != nil && m.sender && m.addr != "" {
			host = m
			break
		}
	}
	if host == nil {
		return
	}
	kind := "bus"
	if strings.HasPrefix(topo, "star") {
		kind = "star"
	}
	// traffic through the host while the newcomer attaches
	var calls []*Call
	for _, m := range members {
		m := m
		if !m.sender {
			continue
		}
		calls = append(calls, w.Do("sender "+m.name+" (while a member joins)", func() (interface{}, error) {
			for i := 0; i < 6; i++ {
				if err := SendOwn(m.s, []byte(fmt.Sprintf("busy:%s:%d", m.name, i))); err != nil {
					return nil, err
				}
				simrt.Yield()
			}
			return nil, nil
		}))
	}
	for k := w.Choose(simrt.SProg, 40); k > 0; k-- {
		simrt.Yield()
	}
	n := &c8Member{name: "N", s: w.Sock(kind), expect: map[string]bool{}}
	*all = append(*all, n.s)
	n.r = c2StartReceiver(w, "N", n.s, 300*time.Millisecond)
	if err := w.DialOn(n.s, host.addr); err != nil {
		w.Failf("HARNESS/dial", "%v", err)
		return
	}
	for _, c := range calls {
		if !c.Wait(10*time.Second) || c.Err != nil {
			w.Failf("C08/send-failed", "%s: returned=%v err=%v", c.Label, c.Returned(), c.Err)
			return
		}
	}
	w.Sleep(200 * time.Millisecond)
	w.Settle()
	marker := "joined:" + host.name
	if err := SendOwn(host.s, []byte(marker)); err != nil {
		w.Failf("C08/send-failed", "%s after a member joined: %v", host.name, err)
		return
	}
	w.Sleep(500 * time.Millisecond)
	w.Settle()
	cnt := 0
	for _, g := range n.r.got {
		if g == marker {
			cnt++
		}
	}
	if cnt != 1 {
		w.Failf("C08/newcomer-not-served:"+topo, "a %s member joined %s over %s while traffic was passing; %v later %s sent %q: the newcomer received it %d times (it has received %d messages in all)", kind, host.name, tran, 200*time.Millisecond, host.name, marker, cnt, len(n.r.got))
		return
	}
	w.Probe("member-joined-during-traffic")
}

func init() {
	register(&Scenario{Name: "bus-star-topologies", Prop: "C08", Horizon: time.Hour, Run: c08Run})
	// C01: "one send yielding one receive, ... never mixed with another
	// message", with more than one peer per socket: a message that a member
	// hands on to several peers (BUS fan-out, STAR forwarding) while its own
	// application receives it must reach each of them whole and unchanged
	register(&Scenario{Name: "fanout-and-forwarding-bytes", Prop: "C01", Horizon: time.Hour, Weight: 3, Run: c08Run})
}
