package harness

import (
	"fmt"
	"time"

	"go.nanomsg.org/mangos/v3"
	"go.nanomsg.org/mangos/v3/protocol/rep"
	"go.nanomsg.org/mangos/v3/protocol/req"
	_ "go.nanomsg.org/mangos/v3/transport/inproc"
)

func init() {
	register(&Scenario{Name: "smoke-reqrep-inproc", Prop: "SMOKE", Horizon: time.Minute, Run: smokeReqRep})
}

// smokeReqRep: k REQ sockets, one REP, n round trips each over real inproc.
// Used by the determinism self-test.
func smokeReqRep(w *W) {
	k := 1 + w.Choose("shape", 3)
	n := 1 + w.Choose("shape", 5)
	w.SetShape("reqs", k)
	w.SetShape("rounds", n)
	addr := w.Addr("inproc")
	rp, err := rep.NewSocket()
	if err != nil {
		w.Failf("SMOKE/setup", "%v", err)
		return
	}
	if err := rp.Listen(addr); err != nil {
		w.Failf("SMOKE/listen", "%v", err)
		return
	}
	w.Go("server", func() {
		for {
			m, err := rp.Recv()
			if err != nil {
				return
			}
			if err := rp.Send(append([]byte("re:"), m...)); err != nil {
				return
			}
		}
	})
	var socks []mangos.Socket
	var calls []*Call
	for i := 0; i < k; i++ {
		i := i
		rq, _ := req.NewSocket()
		socks = append(socks, rq)
		c := w.Do(fmt.Sprintf("client%d", i), func() (interface{}, error) {
			if err := rq.Dial(addr); err != nil {
				return nil, err
			}
			for j := 0; j < n; j++ {
				body := fmt.Sprintf("c%d-%d", i, j)
				if err := rq.Send([]byte(body)); err != nil {
					return nil, err
				}
				r, err := rq.Recv()
				if err != nil {
					return nil, err
				}
				if string(r) != "re:"+body {
					w.Failf("SMOKE/wrong-reply", "got %q want %q", r, "re:"+body)
				}
				w.Delivery++
			}
			return nil, nil
		})
		calls = append(calls, c)
	}
	for _, c := range calls {
		if !c.Wait(30 * time.Second) {
			w.Failf("SMOKE/stuck", "client %s did not finish", c.Label)
			return
		}
		if c.Err != nil {
			w.Failf("SMOKE/err", "client %s: %v", c.Label, c.Err)
		}
	}
	for _, s := range socks {
		s.Close()
	}
	rp.Close()
	w.Sleep(time.Second)
	w.Settle()
	if lt := w.LibTasks(); len(lt) > 0 {
		w.Failf("SMOKE/leak", "%d tasks remain: %+v", len(lt), lt)
	}
}
