package harness

import (
	"bytes"
	"context"
	"crypto/tls"
	"fmt"
	"net"
	"net/http"
	"os"
	"reflect"
	"strings"
	"time"

	"github.com/gorilla/websocket"
	"go.nanomsg.org/mangos/v3"
	"go.nanomsg.org/mangos/v3/verifsim/simrt"
)

// C19: options and unsupported operations follow one uniform contract.
// The table below is built from the documentation in options.go and the
// property statement, not from the implementation.

type optSpec struct {
	name      string
	good      []interface{} // type-correct, in-range values (first is canonical)
	wrongType []interface{}
	outRange  []interface{} // must be rejected with ErrBadValue where the option is supported
	roundTrip bool
	writeOnly bool
	readOnly  bool
}

var optTable = []optSpec{
	{name: mangos.OptionRecvDeadline, good: []interface{}{5 * time.Millisecond, time.Hour}, wrongType: []interface{}{"soon", 5, nil, true}, roundTrip: true},
	{name: mangos.OptionSendDeadline, good: []interface{}{5 * time.Millisecond, time.Hour}, wrongType: []interface{}{"soon", 5, nil}, roundTrip: true},
	{name: mangos.OptionRetryTime, good: []interface{}{30 * time.Millisecond, time.Duration(0)}, wrongType: []interface{}{"x", 1, nil}, roundTrip: true},
	{name: mangos.OptionSurveyTime, good: []interface{}{30 * time.Millisecond, time.Duration(0)}, wrongType: []interface{}{"x", 1, nil}, roundTrip: true},
	{name: mangos.OptionReconnectTime, good: []interface{}{30 * time.Millisecond}, wrongType: []interface{}{"x", 1, nil}, roundTrip: true},
	{name: mangos.OptionMaxReconnectTime, good: []interface{}{300 * time.Millisecond, time.Duration(0)}, wrongType: []interface{}{"x", 1, nil}, roundTrip: true},
	{name: mangos.OptionReadQLen, good: []interface{}{7, 1, 0}, wrongType: []interface{}{"7", 1.5, nil, time.Second}, outRange: []interface{}{-1, -1 << 31}, roundTrip: true},
	{name: mangos.OptionWriteQLen, good: []interface{}{7, 1, 0}, wrongType: []interface{}{"7", 1.5, nil}, outRange: []interface{}{-1, -1 << 31}, roundTrip: true},
	{name: mangos.OptionTTL, good: []interface{}{5, 1, 255}, wrongType: []interface{}{"5", 1.5, nil, uint8(3)}, outRange: []interface{}{0, 256, -1, 1 << 30}, roundTrip: true},
	{name: mangos.OptionMaxRecvSize, good: []interface{}{1000, 0}, wrongType: []interface{}{"1000", 1.5, nil}, outRange: []interface{}{-1}, roundTrip: true},
	{name: mangos.OptionBestEffort, good: []interface{}{true, false}, wrongType: []interface{}{1, "true", nil}, roundTrip: true},
	{name: mangos.OptionFailNoPeers, good: []interface{}{true, false}, wrongType: []interface{}{1, "true", nil}, roundTrip: true},
	{name: mangos.OptionDialAsynch, good: []interface{}{true, false}, wrongType: []interface{}{1, "true", nil}, roundTrip: true},
	{name: mangos.OptionTLSConfig, good: []interface{}{&tls.Config{}}, wrongType: []interface{}{"cfg", 1, tls.Config{}}, roundTrip: true},
	{name: mangos.OptionSubscribe, good: []interface{}{"topic", []byte("t2")}, wrongType: []interface{}{5, nil, 1.5}, writeOnly: true},
	{name: mangos.OptionUnsubscribe, good: []interface{}{"topic"}, wrongType: []interface{}{5, nil}, writeOnly: true},
	{name: mangos.OptionNoDelay, good: []interface{}{true}, wrongType: []interface{}{1, "x"}},
	{name: mangos.OptionKeepAlive, good: []interface{}{true}, wrongType: []interface{}{1, "x"}},
	{name: mangos.OptionKeepAliveTime, good: []interface{}{time.Second}, wrongType: []interface{}{1, "x"}},
	// transport-specific options documented in transport/ipc and transport/ws
	{name: "UNIX-IPC-CHMOD", good: []interface{}{uint32(0600), os.FileMode(0640), uint32(0)}, wrongType: []interface{}{0600, "0600", nil, true}, writeOnly: true},
	{name: "UNIX-IPC-OWNER", good: []interface{}{1000, 0}, wrongType: []interface{}{"root", uint32(5), nil}, writeOnly: true},
	{name: "UNIX-IPC-GROUP", good: []interface{}{1000, 0}, wrongType: []interface{}{"wheel", uint32(5), nil}, writeOnly: true},
	{name: "WEBSOCKET-CHECKORIGIN", good: []interface{}{true, false}, wrongType: []interface{}{1, "x", nil}, roundTrip: true},
	{name: "WEBSOCKET-MUX", readOnly: true},
	{name: mangos.OptionLinger, good: []interface{}{time.Second}, wrongType: []interface{}{1, "x"}},
	{name: mangos.OptionTLSConnState, readOnly: true},
	{name: mangos.OptionHTTPRequest, readOnly: true},
	{name: mangos.OptionPeerPID, readOnly: true},
	{name: mangos.OptionPeerUID, readOnly: true},
	{name: mangos.OptionPeerGID, readOnly: true},
	{name: mangos.OptionPeerZone, readOnly: true},
	{name: mangos.OptionRaw, readOnly: true},
	{name: mangos.OptionLocalAddr, readOnly: true},
	{name: mangos.OptionRemoteAddr, readOnly: true},
	{name: "NO-SUCH-OPTION", good: []interface{}{1}},
	{name: "", good: []interface{}{1}},
	{name: "raw", good: []interface{}{true}},
	{name: "RECV-DEADLINE ", good: []interface{}{time.Second}},
}

type optObj interface {
	SetOption(string, interface{}) error
	GetOption(string) (interface{}, error)
}

func okOptErr(err error, pipe bool) bool {
	switch err {
	case nil, mangos.ErrBadOption, mangos.ErrBadValue, mangos.ErrClosed:
		return true
	case mangos.ErrBadProperty:
		return pipe
	}
	return false
}

// checkOptions runs the whole table against one object.
func checkOptions(w *W, what string, o optObj, isPipe bool) bool {
	for _, sp := range optTable {
		supported := false
		if len(sp.good) > 0 {
			err := o.SetOption(sp.name, sp.good[0])
			if !okOptErr(err, isPipe) {
				w.Failf("C19/unexpected-error:"+what, "%s: SetOption(%q, %v) returned %v, which is none of nil / bad-option / bad-value / closed", what, sp.name, sp.good[0], err)
				return false
			}
			supported = err != mangos.ErrBadOption && err != mangos.ErrBadProperty
			if strings.HasPrefix(sp.name, "NO-SUCH") || sp.name == "" || sp.name == "raw" || strings.HasSuffix(sp.name, " ") {
				if supported {
					w.Failf("C19/unknown-option-accepted:"+what, "%s: SetOption(%q) returned %v instead of a bad-option error", what, sp.name, errName(err))
					return false
				}
				if _, gerr := o.GetOption(sp.name); gerr != mangos.ErrBadOption && !(isPipe && gerr == mangos.ErrBadProperty) {
					w.Failf("C19/unknown-option-accepted:"+what, "%s: GetOption(%q) returned %v instead of a bad-option error", what, sp.name, errName(gerr))
					return false
				}
				continue
			}
		}
		gv, gerr := o.GetOption(sp.name)
		if !okOptErr(gerr, isPipe) {
			w.Failf("C19/unexpected-error:"+what, "%s: GetOption(%q) returned %v", what, sp.name, gerr)
			return false
		}
		_ = gv
		if !supported {
			// every value of every type must be refused the same way
			for _, v := range append(append([]interface{}{}, sp.wrongType...), sp.outRange...) {
				if err := o.SetOption(sp.name, v); err != mangos.ErrBadOption && !(isPipe && err == mangos.ErrBadProperty) && len(sp.good) > 0 {
					w.Failf("C19/unsupported-option-not-refused:"+what, "%s does not support %q (a valid value is refused as bad option) but SetOption(%q, %#v) returned %v", what, sp.name, sp.name, v, errName(err))
					return false
				}
			}
			continue
		}
		w.Probe("supported-option")
		if !sp.writeOnly && (gerr == mangos.ErrBadOption) {
			w.Failf("C19/set-get-disagree:"+what, "%s: SetOption(%q) is supported but GetOption says bad option", what, sp.name)
			return false
		}
		for _, v := range sp.wrongType {
			if err := o.SetOption(sp.name, v); err != mangos.ErrBadValue {
				w.Failf("C19/wrong-type-accepted:"+what+":"+sp.name, "%s: SetOption(%q, %#v) (wrong type) returned %v instead of a bad-value error", what, sp.name, v, errName(err))
				return false
			}
		}
		for _, v := range sp.outRange {
			if err := o.SetOption(sp.name, v); err != mangos.ErrBadValue {
				w.Failf("C19/out-of-range-accepted:"+what+":"+sp.name, "%s: SetOption(%q, %v) (outside the accepted range) returned %v instead of a bad-value error", what, sp.name, v, errName(err))
				return false
			}
		}
		for _, v := range sp.good {
			err := o.SetOption(sp.name, v)
			if err == mangos.ErrBadValue {
				continue // this object accepts a narrower range (not stated otherwise)
			}
			if err != nil {
				w.Failf("C19/unexpected-error:"+what, "%s: SetOption(%q, %v) returned %v", what, sp.name, v, err)
				return false
			}
			if sp.roundTrip {
				got, err := o.GetOption(sp.name)
				if err != nil || !reflect.DeepEqual(got, v) {
					w.Failf("C19/get-differs-from-set:"+what+":"+sp.name, "%s: SetOption(%q, %v) was accepted, GetOption returns (%v, %v)", what, sp.name, v, got, errName(err))
					return false
				}
				w.Probe("round-trip")
			}
		}
	}
	return true
}

func c19Table(w *W) {
	kind := allKinds[w.ScenOrd%len(allKinds)]
	w.SetShape("kind", kind)
	mn := w.UseMsgNet()
	w.UseNet(NetCfg{})
	s := w.Sock(kind)
	defer s.Close()
	connected := w.Choose(simrt.SShape, 2) == 0
	w.SetShape("connected", connected)
	var pipes []mangos.Pipe
	s.SetPipeEventHook(func(ev mangos.PipeEvent, p mangos.Pipe) {
		if ev == mangos.PipeEventAttached {
			pipes = append(pipes, p)
		}
	})
	la := w.Addr("msg")
	if connected {
		if err := s.Listen(la); err != nil {
			w.Failf("HARNESS/listen", "%v", err)
			return
		}
		mn.Connect(la)
		w.Settle()
	}
	if !checkOptions(w, kind, s, false) {
		return
	}
	// inheritance: values set on the socket are found on endpoints and contexts created afterwards
	inh := map[string]interface{}{
		mangos.OptionReconnectTime: 70 * time.Millisecond, mangos.OptionMaxReconnectTime: 700 * time.Millisecond,
		mangos.OptionDialAsynch: true, mangos.OptionMaxRecvSize: 4321,
	}
	for n, v := range inh {
		mustSet(w, s, n, v)
	}
	for _, tr := range []string{"msg", "inproc", "sim", "tcp", "ipc", "tls+tcp", "ws", "wss"} {
		addr := tr + "://127.0.0.1:0"
		switch tr {
		case "msg", "inproc", "sim":
			addr = w.Addr(tr)
		case "ipc":
			addr = "ipc:///tmp/verif-c19-never-bound.sock"
		case "ws", "wss":
			addr = tr + "://127.0.0.1:0/x"
		}
		d, err := s.NewDialer(addr, nil)
		if err != nil {
			w.Failf("C19/new-dialer:"+tr, "NewDialer(%s): %v", addr, err)
			return
		}
		for _, n := range []string{mangos.OptionReconnectTime, mangos.OptionMaxReconnectTime, mangos.OptionDialAsynch} {
			if got, err := d.GetOption(n); err != nil || !reflect.DeepEqual(got, inh[n]) {
				w.Failf("C19/not-inherited:dialer:"+n, "%s dialer created after SetOption(%s,%v) on the socket reports (%v, %v)", tr, n, inh[n], got, errName(err))
				return
			}
		}
		if got, err := d.GetOption(mangos.OptionMaxRecvSize); err == nil && !reflect.DeepEqual(got, 4321) {
			w.Failf("C19/not-inherited:dialer:"+mangos.OptionMaxRecvSize, "%s dialer reports MaxRecvSize %v, the socket was set to 4321", tr, got)
			return
		}
		if !checkOptions(w, tr+"-dialer", d, false) {
			return
		}
		l, err := s.NewListener(addr, nil)
		if err != nil {
			w.Failf("C19/new-listener:"+tr, "NewListener(%s): %v", addr, err)
			return
		}
		if got, err := l.GetOption(mangos.OptionMaxRecvSize); err == nil && !reflect.DeepEqual(got, 4321) {
			w.Failf("C19/not-inherited:listener:"+mangos.OptionMaxRecvSize, "%s listener reports MaxRecvSize %v, the socket was set to 4321", tr, got)
			return
		}
		if !checkOptions(w, tr+"-listener", l, false) {
			return
		}
		// a value set on the socket takes effect on the endpoints it already
		// has - also when an endpoint had been given a value of its own and
		// the socket is set to the value it holds already
		if d.SetOption(mangos.OptionDialAsynch, false) == nil {
			mustSet(w, s, mangos.OptionDialAsynch, true)
			if got, err := d.GetOption(mangos.OptionDialAsynch); err != nil || got != true {
				w.Failf("C19/socket-option-not-applied-to-endpoint:dialer:"+mangos.OptionDialAsynch, "%s dialer had DialAsynch false of its own; after SetOption(DialAsynch, true) on its socket it reports (%v, %v)", tr, got, errName(err))
				return
			}
		}
		if l.SetOption(mangos.OptionMaxRecvSize, 64) == nil {
			mustSet(w, s, mangos.OptionMaxRecvSize, 4321)
			if got, err := l.GetOption(mangos.OptionMaxRecvSize); err != nil || got != 4321 {
				w.Failf("C19/socket-option-not-applied-to-endpoint:listener:"+mangos.OptionMaxRecvSize, "%s listener had MaxRecvSize 64 of its own; after SetOption(MaxRecvSize, 4321) on its socket it reports (%v, %v)", tr, got, errName(err))
				return
			}
			w.Probe("socket-option-reaches-existing-endpoints")
		}
		w.Probe("endpoint-" + tr)
	}
	if hasContexts(kind) {
		ctxInh := map[string]interface{}{mangos.OptionRecvDeadline: 77 * time.Millisecond, mangos.OptionSendDeadline: 78 * time.Millisecond,
			mangos.OptionRetryTime: 79 * time.Millisecond, mangos.OptionSurveyTime: 80 * time.Millisecond, mangos.OptionBestEffort: true, mangos.OptionReadQLen: 9}
		set := map[string]bool{}
		for n, v := range ctxInh {
			if s.SetOption(n, v) == nil {
				set[n] = true
			}
		}
		c, err := s.OpenContext()
		if err != nil {
			w.Failf("C19/open-context", "%s: %v", kind, err)
			return
		}
		for n := range set {
			if kind == "rep" {
				// REP contexts start from defaults: the statement requires
				// inheritance only "where the pattern provides that"
				break
			}
			got, err := c.GetOption(n)
			if err == mangos.ErrBadOption {
				continue
			}
			if err != nil || !reflect.DeepEqual(got, ctxInh[n]) {
				w.Failf("C19/not-inherited:context:"+n, "%s: a context opened after SetOption(%s,%v) on the socket reports (%v, %v)", kind, n, ctxInh[n], got, errName(err))
				return
			}
			w.Probe("context-inherits")
		}
		if !checkOptions(w, kind+"-context", c, false) {
			return
		}
		c.Close()
	} else {
		if _, err := s.OpenContext(); err != mangos.ErrProtoOp {
			w.Failf("C19/context-on-pattern-without", "%s: OpenContext returned %v instead of the unsupported-operation error", kind, errName(err))
			return
		}
	}
	for _, p := range pipes {
		if !checkOptions(w, "pipe", pipeOpt{p}, true) {
			return
		}
	}
	w.Delivery++
}

// pipes have GetOption only
type pipeOpt struct{ p mangos.Pipe }

func (p pipeOpt) SetOption(string, interface{}) error     { return mangos.ErrBadProperty }
func (p pipeOpt) GetOption(n string) (interface{}, error) { return p.p.GetOption(n) }

// c19Effects: the clauses that need peers or time.
func c19Effects(w *W) {
	which := []string{"zero-deadline", "zero-survey-time", "resize-connected", "unsupported-ops", "device", "readqlen-effective"}[w.Choose(simrt.SShape, 6)]
	w.SetShape("clause", which)
	mn := w.UseMsgNet()
	switch which {
	case "zero-deadline":
		kind := allKinds[w.Choose(simrt.SShape, len(allKinds))]
		w.SetShape("kind", kind)
		if !canRecv(kind) || kind == "req" || kind == "surveyor" {
			return
		}
		s := w.Sock(kind)
		defer s.Close()
		if kind == "sub" {
			mustSet(w, s, mangos.OptionSubscribe, "")
		}
		_ = s.SetOption(mangos.OptionRecvDeadline, 5*time.Millisecond)
		if err := s.SetOption(mangos.OptionRecvDeadline, time.Duration(0)); err != nil {
			return // zero not accepted here: nothing to check
		}
		c := w.Do("Recv", func() (interface{}, error) { return s.Recv() })
		w.Sleep(24 * time.Hour)
		w.Settle()
		if c.Returned() {
			w.Failf("C19/zero-deadline-is-not-unlimited:"+kind, "%s accepted RecvDeadline 0 (documented: no timeout) but Recv returned (%v, %v) after %v", kind, c.Val, errName(c.Err), c.RetTime-c.InvTime)
			return
		}
		w.Probe("zero-deadline-pending-after-a-day")
		w.Delivery++
	case "zero-survey-time":
		s := w.Sock("surveyor")
		defer s.Close()
		if err := s.SetOption(mangos.OptionSurveyTime, time.Duration(0)); err != nil {
			return
		}
		addr := w.Addr("msg")
		if err := s.Listen(addr); err != nil {
			return
		}
		p := mn.Connect(addr)
		w.Settle()
		if err := s.Send([]byte("survey")); err != nil {
			w.Failf("HARNESS/survey", "%v", err)
			return
		}
		w.Sleep(time.Duration(1+w.Choose(simrt.SProg, 1000)) * time.Millisecond)
		w.Settle()
		sent := p.Sent()
		if len(sent) != 1 {
			return
		}
		p.Inject(append(append([]byte(nil), sent[0].Header...), "answer"...))
		w.Settle()
		c := w.Do("Recv", func() (interface{}, error) { return s.Recv() })
		w.Settle()
		if !c.Returned() || c.Err != nil || string(c.Val.([]byte)) != "answer" {
			w.Failf("C19/zero-survey-time-is-not-unlimited", "SURVEYOR accepted SurveyTime 0 (documented: no limit) but a response arriving %v after the survey was not delivered: returned=%v (%v, %v)", w.Now(), c.Returned(), c.Val, errName(c.Err))
			return
		}
		w.Probe("zero-survey-time-unlimited")
		w.Delivery++
	case "resize-connected":
		kinds := []string{"xbus", "bus", "xpair", "pair", "xpair1", "xreq", "xrep", "xpull", "pull", "xsub", "sub", "xsurveyor", "xrespondent", "respondent", "xstar", "star", "xpub", "pub", "xpush", "push", "rep", "req", "surveyor", "pair1"}
		kind := kinds[w.Choose(simrt.SShape, len(kinds))]
		w.SetShape("kind", kind)
		s := w.Sock(kind)
		defer s.Close()
		if kind == "sub" {
			mustSet(w, s, mangos.OptionSubscribe, "")
		}
		detached := 0
		s.SetPipeEventHook(func(ev mangos.PipeEvent, p mangos.Pipe) {
			if ev == mangos.PipeEventDetached {
				detached++
			}
		})
		_ = s.SetOption(mangos.OptionReadQLen, 1)
		_ = s.SetOption(mangos.OptionWriteQLen, 1)
		addr := w.Addr("msg")
		mn.Endpoint(addr).SendCap = 1
		if err := s.Listen(addr); err != nil {
			return
		}
		p := mn.Connect(addr)
		w.Settle()
		// back-pressure in both directions: unread inbound messages, stalled peer
		if plainInbound(kind) {
			for i := 0; i < 4; i++ {
				p.Inject(inbound(kind, uint32(i+1), fmt.Sprintf("in%d", i)))
			}
		}
		if canSend(kind) {
			_ = s.SetOption(mangos.OptionSendDeadline, time.Millisecond)
			_ = s.SetOption(mangos.OptionBestEffort, true)
			for i := 0; i < 4; i++ {
				SendBody(s, kind, []byte("out"))
			}
		}
		w.Sleep(2 * time.Millisecond)
		w.Settle()
		// optionally a Send is blocked behind the full queue (one-second
		// deadline, not best-effort) at the moment of the resize: it ends by its
		// deadline at the latest, whatever the resize does to the queue
		var blockedSend *Call
		if canSend(kind) && kind != "rep" && kind != "respondent" && w.Choose(simrt.SProg, 3) == 0 {
			if s.SetOption(mangos.OptionBestEffort, false) == nil && s.SetOption(mangos.OptionSendDeadline, time.Second) == nil {
				blockedSend = w.Do("Send(blocked at the resize)", func() (interface{}, error) { return nil, SendBody(s, kind, []byte("blocked")) })
				w.Settle()
				if !blockedSend.Returned() {
					w.Probe("send-blocked-at-resize")
				}
			}
		}
		opt := []string{mangos.OptionReadQLen, mangos.OptionWriteQLen}[w.Choose(simrt.SProg, 2)]
		val := []int{0, 1, 2, 5, 128}[w.Choose(simrt.SProg, 5)]
		c := w.Do("SetOption("+opt+")", func() (interface{}, error) { return nil, s.SetOption(opt, val) })
		w.Sleep(5 * time.Millisecond)
		w.Settle()
		if blockedSend != nil {
			defer func() {
				if w.Failed() {
					return
				}
				if rem := blockedSend.InvTime + time.Second - w.Now(); rem > 0 {
					w.Sleep(rem)
				}
				w.Settle()
				if !blockedSend.Returned() {
					w.Failf("C18/late", "%s: a Send with a one-second deadline was blocked when %s was changed to %d; %v after its invocation it is still pending", kind, opt, val, w.Now()-blockedSend.InvTime)
				} else if blockedSend.Err != nil && blockedSend.Err != mangos.ErrSendTimeout {
					w.Failf("C18/wrong-timeout-error", "%s: the Send blocked during the resize returned %v", kind, blockedSend.Err)
				} else if blockedSend.Err == mangos.ErrSendTimeout && blockedSend.RetTime != blockedSend.InvTime+time.Second {
					w.Failf("C18/early", "%s: the Send blocked during the resize timed out at %v, invoked at %v with a one-second deadline", kind, blockedSend.RetTime, blockedSend.InvTime)
				}
			}()
		}
		if !c.Returned() {
			if w.WedgeCheck("C12") {
				return
			}
			w.Failf("C12/call-never-returns:SetOption", "%s: SetOption(%s,%d) on a connected, back-pressured socket did not return", kind, opt, val)
			return
		}
		if c.Err != nil {
			return
		}
		w.Sleep(10 * time.Millisecond)
		w.Settle()
		if detached > 0 || !p.Open() {
			w.Failf("C19/resize-disconnects-peer:"+kind+":"+opt, "%s: changing %s to %d on a connected, back-pressured socket disconnected its peer (Detached %d, pipe open %v)", kind, opt, val, detached, p.Open())
			return
		}
		w.Probe("resize-kept-peer")
		w.Delivery++
		// the accepted new length must leave the socket usable: traffic keeps
		// arriving, and other calls still complete
		if plainInbound(kind) || kind == "sub" {
			for i := 0; i < 3; i++ {
				p.Inject(inbound(kind, uint32(i+10), fmt.Sprintf("late%d", i)))
			}
			w.Sleep(time.Millisecond)
			w.Settle()
		}
		g := w.Do("GetOption", func() (interface{}, error) { return s.GetOption(opt) })
		w.Sleep(10 * time.Millisecond)
		w.Settle()
		if !g.Returned() {
			if w.WedgeCheck("C12") {
				return
			}
			w.Failf("C12/call-never-returns:GetOption", "%s: after SetOption(%s,%d) and more traffic, GetOption does not return", kind, opt, val)
			return
		}
		if v, _ := g.Val.(int); g.Err == nil && v != val {
			w.Failf("C19/get-differs-from-set:"+kind+":"+opt, "%s: SetOption(%s,%d) accepted, GetOption returns %v", kind, opt, val, g.Val)
		}
	case "unsupported-ops":
		kind := allKinds[w.Choose(simrt.SShape, len(allKinds))]
		w.SetShape("kind", kind)
		s := w.Sock(kind)
		defer s.Close()
		if !canRecv(kind) {
			if _, err := s.Recv(); err != mangos.ErrProtoOp {
				w.Failf("C19/unsupported-op:"+kind, "%s Recv returned %v instead of the unsupported-operation error", kind, errName(err))
				return
			}
			w.Probe("recv-unsupported")
		}
		if !canSend(kind) {
			m := mangos.NewMessage(8)
			m.Body = append(m.Body, "payload"...)
			err := s.SendMsg(m)
			if err != mangos.ErrProtoOp {
				w.Failf("C19/unsupported-op:"+kind, "%s SendMsg returned %v instead of the unsupported-operation error", kind, errName(err))
				return
			}
			if mangos.VerifRefcnt(m) != 1 || string(m.Body) != "payload" {
				w.Failf("C19/unsupported-op-side-effect:"+kind, "%s SendMsg failed as unsupported but the message was consumed (owner count %d, body %q)", kind, mangos.VerifRefcnt(m), m.Body)
				return
			}
			m.Free()
			w.Probe("send-unsupported")
		}
		// the socket still works afterwards: options and Close
		if _, err := s.GetOption(mangos.OptionRaw); err != nil {
			w.Failf("C19/unsupported-op-side-effect:"+kind, "GetOption(Raw) after an unsupported operation: %v", err)
		}
		w.Delivery++
	case "readqlen-effective":
		// an accepted receive queue length takes effect and stays in effect: a
		// socket that is not read keeps at most that many messages, whatever
		// option calls happen in between
		kind := []string{"sub", "sub", "xsub", "pull", "xpull", "pair", "bus"}[w.Choose(simrt.SShape, 7)]
		q := []int{1, 2, 5, 200}[w.Choose(simrt.SShape, 4)]
		w.SetShape("kind", kind)
		w.SetShape("qlen", q)
		s := w.Sock(kind)
		defer s.Close()
		mustSet(w, s, mangos.OptionReadQLen, q)
		mustSet(w, s, mangos.OptionRecvDeadline, time.Millisecond)
		if kind == "sub" {
			mustSet(w, s, mangos.OptionSubscribe, "a")
			mustSet(w, s, mangos.OptionSubscribe, "ab")
			mustSet(w, s, mangos.OptionSubscribe, "zz")
		}
		addr := w.Addr("msg")
		if err := s.Listen(addr); err != nil {
			return
		}
		p := mn.Connect(addr)
		w.Settle()
		n := q + 3 + w.Choose(simrt.SProg, 20)
		if q == 200 {
			n = 150
		}
		inject := func(from int) {
			for i := 0; i < n; i++ {
				p.Inject([]byte(fmt.Sprintf("ab%04d", from+i)))
			}
			w.Sleep(time.Millisecond)
			w.Settle()
		}
		inject(0)
		if kind == "sub" {
			// a subscription change in between must not change the depth
			c := w.Do("Unsubscribe", func() (interface{}, error) { return nil, s.SetOption(mangos.OptionUnsubscribe, "zz") })
			c.Wait(100 * time.Millisecond)
			w.Settle()
			if !c.Returned() {
				if !w.WedgeCheck("C12") {
					w.Failf("C12/call-never-returns:SetOption", "sub (ReadQLen %d, %d messages queued): Unsubscribe of an unrelated topic does not return", q, n)
				}
				return
			}
			inject(n)
		}
		if got, err := s.GetOption(mangos.OptionReadQLen); err != nil || got != q {
			w.Failf("C19/get-differs-from-set:"+kind+":READQ-LEN", "ReadQLen set to %d, Get returns (%v, %v)", q, got, err)
			return
		}
		cnt := 0
		for i := 0; i < 2*n+10; i++ {
			c := w.Do("Recv", func() (interface{}, error) { return s.Recv() })
			c.Wait(10 * time.Millisecond)
			w.Settle()
			if !c.Returned() || c.Err != nil {
				break
			}
			cnt++
		}
		// one more may sit in the pipe receiver's hands for patterns that block instead of dropping
		slack := 0
		if kind != "sub" && kind != "xsub" {
			slack = 1 + n // blocking patterns exert back-pressure: everything arrives eventually
		}
		if slack == 0 && cnt > q {
			w.Failf("C19/readqlen-not-effective:"+kind, "%s with the accepted ReadQLen %d was not read while %d matching messages arrived; %d could then be received", kind, q, n, cnt)
			return
		}
		if cnt == 0 {
			w.Failf("C19/readqlen-not-effective:"+kind, "%s with ReadQLen %d: nothing could be received after %d messages arrived", kind, q, n)
			return
		}
		w.Probe("readqlen-effective")
		w.Delivery += cnt
	case "device":
		k1 := allKinds[w.Choose(simrt.SShape, len(allKinds))]
		k2 := allKinds[w.Choose(simrt.SShape, len(allKinds))]
		w.SetShape("kind", k1+"+"+k2)
		s1, s2 := w.Sock(k1), w.Sock(k2)
		defer s1.Close()
		defer s2.Close()
		// the argument forms Device documents: two sockets, one socket given
		// once (the other nil: a single-socket device), none at all; and
		// sockets that are already closed
		a1, a2 := s1, s2
		form := w.Choose(simrt.SShape, 8)
		switch form {
		case 1:
			a2, s2, k2 = nil, s1, k1
			w.SetShape("form", "second-nil")
		case 2:
			a1, s1, k1 = nil, s2, k2
			w.SetShape("form", "first-nil")
		case 3:
			w.SetShape("form", "both-nil")
			err := mangos.Device(nil, nil)
			if err == nil {
				w.Failf("C19/device-without-sockets", "Device(nil, nil) returned nil")
			}
			w.Probe("device-both-nil-refused")
			w.Delivery++
			return
		case 4:
			w.SetShape("form", "first-closed")
			s1.Close()
		}
		err := mangos.Device(a1, a2)
		i1, i2 := s1.Info(), s2.Info()
		match := i1.Self == i2.Peer && i2.Self == i1.Peer
		raw := isRaw(k1) && isRaw(k2)
		if form == 1 || form == 2 {
			w.Probe("device-single-socket")
		}
		if form == 4 {
			// a closed socket: refused or accepted (its forwarders end at once), never a panic
			if !match && err != mangos.ErrBadProto {
				w.Failf("C19/device-mismatch", "Device(%s [closed],%s): protocols do not pair up, returned %v", k1, k2, errName(err))
			}
			w.Probe("device-on-closed-socket")
			w.Delivery++
			return
		}
		switch {
		case !match && err != mangos.ErrBadProto:
			w.Failf("C19/device-mismatch", "Device(%s,%s): protocols do not pair up, returned %v", k1, k2, errName(err))
		case match && !raw && err != mangos.ErrNotRaw:
			w.Failf("C19/device-cooked", "Device(%s,%s): a cooked socket was accepted or refused with %v", k1, k2, errName(err))
		case match && raw && err != nil:
			w.Failf("C19/device-refused", "Device(%s,%s): %v", k1, k2, err)
		}
		if err != nil {
			// no side effect: both sockets still answer
			if _, e := s1.GetOption(mangos.OptionRaw); e != nil {
				w.Failf("C19/device-side-effect", "after a refused Device call: %v", e)
			}
			w.Probe("device-refused")
			// ... and nobody else consumes what arrives on either socket
			for xi, x := range []struct {
				s    mangos.Socket
				kind string
			}{{s1, k1}, {s2, k2}} {
				if !canRecv(x.kind) || !plainInbound(x.kind) {
					continue
				}
				if xi == 1 && s2 == s1 {
					continue // (single-socket form: the one socket was looked at already)
				}
				_ = x.s.SetOption(mangos.OptionRecvDeadline, 2*time.Millisecond)
				addr := w.Addr("msg")
				if x.s.Listen(addr) != nil {
					continue
				}
				p := mn.Connect(addr)
				w.Settle()
				if p == nil {
					continue
				}
				const nm = 6
				for i := 0; i < nm; i++ {
					p.Inject(inbound(x.kind, uint32(i+1), fmt.Sprintf("dev%d", i)))
					w.Sleep(time.Millisecond)
				}
				w.Settle()
				got := 0
				for i := 0; i < nm+2; i++ {
					c := w.Do("Recv", func() (interface{}, error) { return x.s.Recv() })
					c.Wait(10 * time.Millisecond)
					w.Settle()
					if !c.Returned() || c.Err != nil {
						break
					}
					got++
				}
				if got != nm {
					w.Failf("C19/device-side-effect", "Device(%s,%s) was refused (%v), yet afterwards the application receives only %d of %d messages arriving on the %s socket: something else consumes them", k1, k2, err, got, nm, x.kind)
					return
				}
				w.Probe("device-refused-no-forwarder")
			}
		} else {
			w.Probe("device-accepted")
			if s1 != s2 && canRecv(k1) && canSend(k2) && plainInbound(k1) && w.Choose(simrt.SProg, 2) == 0 {
				// half of the device goes away: the far socket is closed, then a
				// message arrives on the near one. The forwarder gives up; the
				// near socket still closes cleanly (census at the end of the run)
				addr := w.Addr("msg")
				if s1.Listen(addr) == nil {
					if p := mn.Connect(addr); p != nil {
						w.Settle()
						s2.Close()
						p.Inject(inbound(k1, 9, "after the far side closed"))
						w.Settle()
						w.Probe("device-far-side-closed")
					}
				}
			}
		}
		w.Delivery++
	}
}

func init() {
	register(&Scenario{Name: "option-table", Prop: "C19", Horizon: time.Hour, Weight: 10, Run: c19Table})
	register(&Scenario{Name: "option-effects", Prop: "C19", Horizon: 48 * time.Hour, Weight: 20, Run: c19Effects})
}

// c19Real: options on the real OS transports (engine R). "An accepted value
// is what Get then returns and takes effect": a MaxRecvSize set on a listener
// (or handed down from the socket) *after* Listen governs the connections
// accepted from then on; the accepted pipe reports it; a message over the
// limit is not delivered, one within it is.
func c19Real(w *W) {
	tran := w.simFallback([]string{"tcp", "ipc", "tls+tcp", "ws", "wss"}[w.Choose(simrt.SShape, 5)])
	via := []string{"listener", "socket"}[w.Choose(simrt.SShape, 2)]
	when := []string{"before-listen", "after-listen"}[w.Choose(simrt.SShape, 2)]
	limit := []int{100, 1000}[w.Choose(simrt.SShape, 2)]
	w.SetShape("tran", tran)
	w.SetShape("via", via)
	w.SetShape("when", when)
	w.SetShape("limit", limit)
	srv, cli := tlsConfigs()
	a, b := w.Sock("pull"), w.Sock("push")
	defer a.Close()
	defer b.Close()
	mustSet(w, a, mangos.OptionRecvDeadline, 15*time.Second)
	url := tran + "://" + loopIP + ":0"
	var lopts, dopts map[string]interface{}
	switch tran {
	case "ipc":
		p := fmt.Sprintf("%s/verif-c19-%d-%d.sock", os.TempDir(), os.Getpid(), w.RunIdx)
		os.Remove(p)
		w.OnCleanup(func() { os.Remove(p) })
		url = "ipc://" + p
	case "ws":
		url += "/sp"
	case "wss":
		url += "/sp"
		lopts = map[string]interface{}{mangos.OptionTLSConfig: srv}
		dopts = map[string]interface{}{mangos.OptionTLSConfig: cli}
	case "tls+tcp":
		lopts = map[string]interface{}{mangos.OptionTLSConfig: srv}
		dopts = map[string]interface{}{mangos.OptionTLSConfig: cli}
	}
	if !w.Real {
		// engine B: the same listeners inside the simulation
		w.UseNet(NetCfg{Segment: w.Choose(simrt.SShape, 2) == 0})
		url = w.Addr(tran)
		lopts, dopts = w.EpOpts(url, true, nil), w.EpOpts(url, false, nil)
	}
	var pipes []mangos.Pipe
	got := make(chan mangos.Pipe, 4)
	a.SetPipeEventHook(func(ev mangos.PipeEvent, p mangos.Pipe) {
		if ev == mangos.PipeEventAttached {
			got <- p
		}
	})
	l, err := a.NewListener(url, lopts)
	if err != nil {
		w.Failf("HARNESS/newlistener", "%v", err)
		return
	}
	set := func() bool {
		var err error
		if via == "listener" {
			err = l.SetOption(mangos.OptionMaxRecvSize, limit)
		} else {
			err = a.SetOption(mangos.OptionMaxRecvSize, limit)
		}
		if err != nil {
			w.Failf("C19/value-rejected:MaxRecvSize", "%s: SetOption(MaxRecvSize,%d) on the %s: %v", tran, limit, via, err)
			return false
		}
		return true
	}
	if when == "before-listen" && !set() {
		return
	}
	// ipc: the permissions the socket file is to get (every accepted value,
	// zero included, is what the file has after Listen)
	wantMode, chmod := os.FileMode(0), false
	if tran == "ipc" && w.Real && w.Choose(simrt.SShape, 3) != 0 {
		chmod = true
		wantMode = []os.FileMode{0, 0600, 0660, 0777, 0400}[w.Choose(simrt.SShape, 5)]
		var v interface{} = uint32(wantMode)
		if w.Choose(simrt.SShape, 2) == 0 {
			v = wantMode
		}
		if err := l.SetOption("UNIX-IPC-CHMOD", v); err != nil {
			w.Failf("C19/value-rejected:UNIX-IPC-CHMOD", "ipc listener SetOption(UNIX-IPC-CHMOD, %#o) returned %v", wantMode, err)
			return
		}
		// a value outside the permission bits is refused and changes nothing
		if err := l.SetOption("UNIX-IPC-CHMOD", uint32(01000)); err != mangos.ErrBadValue {
			w.Failf("C19/bad-value-accepted", "ipc listener SetOption(UNIX-IPC-CHMOD, 01000) returned %v", errName(err))
			return
		}
		w.SetShape("chmod", fmt.Sprintf("%#o", wantMode))
	}
	if err := l.Listen(); err != nil {
		w.Failf("HARNESS/listen", "%v", err)
		return
	}
	if chmod {
		st, err := os.Stat(strings.TrimPrefix(url, "ipc://"))
		if err != nil || st.Mode().Perm() != wantMode {
			w.Failf("C19/option-not-effective:UNIX-IPC-CHMOD", "ipc listener accepted UNIX-IPC-CHMOD %#o; after Listen the socket file has (%v, %v)", wantMode, st.Mode().Perm(), err)
			return
		}
		w.Probe("ipc-permissions-effective")
		if wantMode&0600 != 0600 {
			// nobody (not even we) may connect: the data part does not apply
			w.Delivery++
			return
		}
	}
	if when == "after-listen" && !set() {
		return
	}
	if v, err := l.GetOption(mangos.OptionMaxRecvSize); err != nil || v != limit {
		w.Failf("C19/get-differs-from-set:listener:MaxRecvSize", "%s listener (%s, set via the %s): GetOption(MaxRecvSize) = (%v, %v) after %d was accepted", tran, when, via, v, err, limit)
		return
	}
	if err := b.DialOptions(l.Address(), dopts); err != nil {
		w.Failf("HARNESS/dial", "%v", err)
		return
	}
	for i := 0; i < 3000 && len(pipes) == 0; i++ {
		select {
		case p := <-got:
			pipes = append(pipes, p)
		default:
			w.Sleep(10 * time.Millisecond)
		}
	}
	if len(pipes) == 0 {
		w.Failf("HARNESS/attach", "no pipe attached")
		return
	}
	if v, err := pipes[0].GetOption(mangos.OptionMaxRecvSize); err == nil && v != limit {
		w.Failf("C19/option-not-effective:MaxRecvSize", "%s (%s, via the %s): the listener accepted MaxRecvSize %d and reports it, the pipe it accepted afterwards reports %v", tran, when, via, limit, v)
		return
	}
	// within the limit: delivered; over it: never
	small, big := wireBody(limit, 3), wireBody(limit+100, 4)
	if err := b.Send(small); err != nil {
		w.Failf("HARNESS/send", "%v", err)
		return
	}
	m, err := a.Recv()
	if err != nil || !bytes.Equal(m, small) {
		w.Failf("C19/option-not-effective:MaxRecvSize", "%s: a %d-byte message (MaxRecvSize %d) was not delivered intact: %v", tran, len(small), limit, err)
		return
	}
	mustSet(w, a, mangos.OptionRecvDeadline, 300*time.Millisecond)
	_ = b.Send(big)
	if m, err := a.Recv(); err == nil && len(m) == len(big) {
		w.Failf("C19/option-not-effective:MaxRecvSize", "%s (%s, via the %s): MaxRecvSize %d was accepted and is reported, yet a %d-byte message was delivered", tran, when, via, limit, len(m))
		return
	}
	w.Delivery++
	w.Probe("real-transport-option-effective")
}

func init() {
	register(&Scenario{Name: "option-effects-real-transports", Prop: "C19", Engine: "R", Weight: 3, Run: c19Real})
	register(&Scenario{Name: "option-effects-real-listeners-sim", Prop: "C19", Horizon: time.Hour, Weight: 3, Run: c19Real})
}

// c19WSOrigin: the WebSocket listener's origin check follows the option
// contract like any other option - an accepted value is what Get returns and
// what an upgrade request with a foreign Origin header meets; a rejected value
// (wrong type) changes neither. Runs the real ws / wss listener, net/http and
// gorilla inside the simulation; the client is gorilla's with an Origin header.
func c19WSOrigin(w *W) {
	tran := []string{"ws", "wss"}[w.Choose(simrt.SShape, 2)]
	kind := []string{"pair", "rep", "pub", "bus"}[w.Choose(simrt.SShape, 4)]
	nops := 1 + w.Choose(simrt.SShape, 5)
	listenAt := w.Choose(simrt.SShape, nops+1) // ops before this index happen before Listen
	w.SetShape("tran", tran)
	w.SetShape("kind", kind)
	w.UseNet(NetCfg{Segment: w.Choose(simrt.SShape, 2) == 0})
	s := w.Sock(kind)
	defer s.Close()
	addr := w.Addr(tran)
	l, err := s.NewListener(addr, w.EpOpts(addr, true, nil))
	if err != nil {
		w.Failf("HARNESS/newlistener", "%v", err)
		return
	}
	const opt = "WEBSOCKET-CHECKORIGIN"
	model := true // the documented default: origins are checked
	listened := false
	listen := func() bool {
		if err := l.Listen(); err != nil {
			w.Failf("HARNESS/listen", "%v", err)
			return false
		}
		listened = true
		return true
	}
	vals := []interface{}{true, false, "yes", 0, nil, false, true}
	for i := 0; i < nops; i++ {
		if i == listenAt && !listen() {
			return
		}
		v := vals[w.Choose(simrt.SProg, len(vals))]
		err := l.SetOption(opt, v)
		b, isBool := v.(bool)
		w.Op("SetOption(%s, %#v) -> %v", opt, v, errName(err))
		if isBool {
			if err != nil {
				w.Failf("C19/good-value-rejected", "ws listener SetOption(%s, %v) returned %v", opt, v, err)
				return
			}
			model = b
		} else if err != mangos.ErrBadValue {
			w.Failf("C19/bad-value-accepted", "ws listener SetOption(%s, %#v) returned %v, expected a bad-value error", opt, v, errName(err))
			return
		}
		if g, err := l.GetOption(opt); err != nil || g != model {
			w.Failf("C19/get-differs-from-set", "ws listener: the last accepted %s is %v; GetOption returns (%v, %v)", opt, model, g, err)
			return
		}
	}
	if !listened && !listen() {
		return
	}
	_, cliTLS := simTLS()
	dial := func(origin string) error {
		d := &websocket.Dialer{Subprotocols: []string{s.Info().SelfName + ".sp.nanomsg.org"},
			NetDialContext: func(ctx context.Context, network, a string) (net.Conn, error) {
				return curNet.Dial(NetKey("tcp://" + a))
			}}
		if tran == "wss" {
			d.TLSClientConfig = cliTLS
		}
		var h http.Header
		if origin != "" {
			h = http.Header{"Origin": []string{origin}}
		}
		c, _, err := d.Dial(l.Address(), h)
		if err == nil {
			c.Close()
		}
		return err
	}
	foreign := w.Do("upgrade with a foreign Origin", func() (interface{}, error) { return nil, dial("http://elsewhere.example") })
	if !foreign.Wait(10 * time.Second) {
		w.Failf("C12/call-never-returns:ws-upgrade", "an upgrade request is still unanswered after 10s")
		return
	}
	if (foreign.Err == nil) != !model {
		w.Failf("C19/option-not-effective:"+opt, "%s listener: the last accepted %s is %v (GetOption agrees); an upgrade request with a foreign Origin header was answered with %v", tran, opt, model, errName(foreign.Err))
		return
	}
	plain := w.Do("upgrade without Origin", func() (interface{}, error) { return nil, dial("") })
	if !plain.Wait(10*time.Second) || plain.Err != nil {
		w.Failf("C19/option-not-effective:"+opt, "%s listener (%s = %v): an upgrade request without an Origin header failed: %v", tran, opt, model, plain.Err)
		return
	}
	w.Delivery++
	w.Probe("ws-origin-check-follows-option")
}

func init() {
	register(&Scenario{Name: "ws-origin-option", Prop: "C19", Horizon: time.Hour, Weight: 2, Run: c19WSOrigin})
}
