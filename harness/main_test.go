package harness

import (
	"encoding/json"
	"fmt"
	"os"
	"runtime"
	"runtime/debug"
	"sort"
	"strconv"
	"strings"
	"testing"
	"testing/synctest"
	"time"

	"go.nanomsg.org/mangos/v3/verifsim/simrt"
	"go.nanomsg.org/mangos/v3/verifsim/snet"
	"go.nanomsg.org/mangos/v3/verifsim/srand"
)

type Scenario struct {
	Name    string
	Prop    string
	Engine  string // "B" baton, "F" free bubble, "R" real transport
	Horizon time.Duration
	Weight  int
	Run     func(w *W)
}

var registry = map[string][]*Scenario{}

func register(s *Scenario) {
	if s.Weight == 0 {
		s.Weight = 1
	}
	if s.Engine == "" {
		s.Engine = "B"
	}
	if s.Horizon == 0 {
		s.Horizon = time.Hour
	}
	registry[s.Prop] = append(registry[s.Prop], s)
}

type Result struct {
	Prop       string            `json:"prop"`
	Scenario   string            `json:"scenario"`
	Engine     string            `json:"engine"`
	Run        int               `json:"run"`
	Seed       uint64            `json:"seed"`
	Steps      int64             `json:"steps"`
	SimNS      int64             `json:"sim_ns"`
	Tasks      int               `json:"tasks"`
	Preempts   int64             `json:"preempts"`
	MultiReady int64             `json:"multi_ready"`
	Deliveries int               `json:"deliveries"`
	Faults     map[string]int    `json:"faults,omitempty"`
	Probes     map[string]int    `json:"probes,omitempty"`
	Shape      map[string]any    `json:"shape,omitempty"`
	ShapeKey   string            `json:"shape_key"`
	LogHash    string            `json:"log_hash"`
	InputHash  string            `json:"input_hash"`
	States     []string          `json:"states,omitempty"`
	Verdict    string            `json:"verdict"`
	Violations []simrt.Violation `json:"violations,omitempty"`
	Tape       *simrt.TapeFile   `json:"tape,omitempty"`
	Prog       []string          `json:"prog,omitempty"`
	Incon      map[string]int    `json:"inconclusive,omitempty"`
	WallMS     float64           `json:"wall_ms"`
	Anon       int               `json:"anon_tasks"`
	Horizon    bool              `json:"horizon_hit,omitempty"`
	StepCap    bool              `json:"step_cap,omitempty"`
	Leftover   bool              `json:"bubble_leftover,omitempty"`
	Log        []string          `json:"log,omitempty"`
}

func seedFor(base uint64, prop string, i int) uint64 {
	h := uint64(1469598103934665603)
	for j := 0; j < len(prop); j++ {
		h ^= uint64(prop[j])
		h *= 1099511628211
	}
	x := base*0x9e3779b97f4a7c15 ^ h
	x += uint64(i) * 0xbf58476d1ce4e5b9
	x ^= x >> 31
	x *= 0x94d049bb133111eb
	x ^= x >> 29
	if x == 0 {
		x = 1
	}
	return x
}

func pickScenario(prop string, i int, only string) *Scenario {
	list := registry[prop]
	if only != "" {
		for _, s := range list {
			if s.Name == only {
				return s
			}
		}
		return nil
	}
	tot := 0
	for _, s := range list {
		tot += s.Weight
	}
	if tot == 0 {
		return nil
	}
	k := (i + i/tot) % tot // rotate the slots block by block: a worker's stride must not pin it to one scenario
	for _, s := range list {
		if k < s.Weight {
			return s
		}
		k -= s.Weight
	}
	return list[0]
}

// scenarioOrdinal: run index i is the n-th run of its scenario (n counts from
// 0 over consecutive indices), so index-driven grids enumerate without gaps.
func scenarioOrdinal(prop string, i int) int {
	list := registry[prop]
	tot := 0
	for _, s := range list {
		tot += s.Weight
	}
	if tot == 0 {
		return i
	}
	k := (i + i/tot) % tot // rotate the slots block by block: a worker's stride must not pin it to one scenario
	for _, s := range list {
		if k < s.Weight {
			return (i/tot)*s.Weight + k
		}
		k -= s.Weight
	}
	return i
}

func envInt(name string, def int) int {
	if v := os.Getenv(name); v != "" {
		if n, err := strconv.Atoi(v); err == nil {
			return n
		}
	}
	return def
}

type replayFile struct {
	Prop     string         `json:"property"`
	Scenario string         `json:"scenario"`
	Run      int            `json:"run"`
	Tape     simrt.TapeFile `json:"tape"`
	Key      string         `json:"key"`
	LogHash  string         `json:"log_hash"`
	// Regen: no tape was recorded (the run took the process down with a Go
	// fatal error); replay regenerates it from the recorded per-run seed.
	Regen bool   `json:"regen"`
	Seed  uint64 `json:"seed"`
}

func runOne(t *testing.T, sc *Scenario, prop string, idx int, seed uint64, replay *simrt.TapeFile, keepLog bool) (res Result) {
	var tape *simrt.Tape
	if replay != nil {
		tape = simrt.NewReplayTape(*replay)
	} else {
		tape = simrt.NewTape(seed)
	}
	res = Result{Prop: prop, Scenario: sc.Name, Engine: sc.Engine, Run: idx, Seed: seed}
	start := time.Now()
	w := &W{T: tape, Prop: prop, Scenario: sc.Name, RunIdx: idx, Seed: seed, ScenOrd: scenarioOrdinal(prop, idx),
		Shape: map[string]interface{}{}, States: map[uint64]bool{}, Incon: map[string]int{}}
	w.World = simrt.NewWorld(tape, sc.Horizon)
	w.World.KeepLog = keepLog
	// real-time watchdog
	wd := time.AfterFunc(time.Duration(envInt("VERIF_WATCHDOG_S", 120))*time.Second, func() {
		fmt.Fprintf(os.Stderr, "WATCHDOG: run %d of %s/%s (seed %d) exceeded the real-time bound\n", idx, prop, sc.Name, seed)
		buf := make([]byte, 1<<20)
		buf = buf[:runtime.Stack(buf, true)]
		os.Stderr.Write(buf)
		os.Exit(2)
	})
	defer wd.Stop()
	func() {
		defer func() {
			if r := recover(); r != nil {
				msg := fmt.Sprint(r)
				if strings.Contains(msg, "blocked goroutines remain") || strings.Contains(msg, "deadlock") {
					res.Leftover = true
					return
				}
				res.Verdict = "harness-panic"
				res.Violations = append(res.Violations, simrt.Violation{Key: "HARNESS/panic", Msg: msg + "\n" + string(debug.Stack())})
			}
		}()
		switch sc.Engine {
		case "B":
			synctest.Test(t, func(t *testing.T) {
				runtime.SimSeed(seed | 1)
				w.World.Run(func() { runScenario(w, sc) })
				runtime.SimSeed(0)
			})
		case "F":
			w.Free = true
			synctest.Test(t, func(t *testing.T) {
				simrt.SetFreeWorld(w.World)
				defer simrt.ClearWorld(w.World)
				runScenario(w, sc)
			})
		case "R":
			w.Free = true
			w.Real = true
			simrt.SetRealWorld(w.World)
			defer simrt.ClearWorld(w.World)
			runScenario(w, sc)
		}
	}()
	runtime.SimSeed(0)
	defer simrt.Forget(w.World)
	st := w.World.Stats()
	res.Steps, res.SimNS, res.Tasks, res.Preempts, res.MultiReady, res.Anon = st.Steps, st.SimNS, st.Tasks, st.Preempts, st.MultiReady, st.Anon
	res.Deliveries = w.Delivery
	res.Faults = w.World.Faults
	res.Probes = w.World.Probes
	res.Shape = w.Shape
	res.ShapeKey = shapeKey(w.Shape)
	res.LogHash = fmt.Sprintf("%016x", w.World.LogHash())
	for h := range w.States {
		res.States = append(res.States, fmt.Sprintf("%x", h))
	}
	sort.Strings(res.States)
	res.Incon = w.Incon
	res.Horizon = w.World.HorizonHit
	res.StepCap = w.World.StepCapHit
	res.WallMS = float64(time.Since(start).Microseconds()) / 1000
	if keepLog {
		res.Log = w.World.LogLines
	}
	vs := w.World.Violations()
	if res.Verdict == "" {
		switch {
		case len(vs) > 0:
			res.Verdict = "violation"
		case res.StepCap:
			res.Verdict = "inconclusive"
			res.Incon["step-cap"]++
		default:
			res.Verdict = "ok"
		}
	}
	res.Violations = append(res.Violations, vs...)
	tf := tape.Snapshot()
	res.InputHash = inputHash(tf)
	if res.Verdict != "ok" || os.Getenv("VERIF_KEEP_TAPE") != "" {
		res.Tape = &tf
	}
	if res.Verdict != "ok" || idx < 3 || os.Getenv("VERIF_KEEP_PROG") != "" {
		res.Prog = w.Prog
	}
	return res
}

func runScenario(w *W, sc *Scenario) {
	// math/rand inside the library (dial back-off jitter) draws from a stream
	// seeded by the run's seed, never from the process-wide generator
	rs := w.Seed | 1
	src := func() uint64 {
		rs ^= rs << 13
		rs ^= rs >> 7
		rs ^= rs << 17
		return rs
	}
	srand.Source.Store(&src)
	defer srand.Source.Store(nil)
	if !w.Free {
		// process-wide state: start every run from the same point
		var start uint32
		switch w.Choose(simrt.SMisc, 4) {
		case 0:
			start = 1
		case 1:
			start = 0x7ffffff0 + uint32(w.Choose(simrt.SMisc, 15))
		default:
			start = uint32(w.Choose(simrt.SMisc, 1<<30)) + 1
		}
		w.ResetProcessState(start)
	}
	defer func() {
		for i := len(w.cleanup) - 1; i >= 0; i-- {
			w.cleanup[i]()
		}
	}()
	if w.Real {
		snet.SetBackend(nil) // engine R: transport/{tcp,ipc,tlstcp} talk to package net
	} else {
		w.UseNet(NetCfg{}) // a plain simulated network until the scenario configures its own
	}
	sc.Run(w)
	w.Hygiene()
}

func inputHash(tf simrt.TapeFile) string {
	names := make([]string, 0, len(tf.Streams))
	for n := range tf.Streams {
		if n != simrt.SSched {
			names = append(names, n)
		}
	}
	sort.Strings(names)
	h := uint64(1469598103934665603)
	for _, n := range names {
		for _, v := range tf.Streams[n] {
			h ^= uint64(v) + 0x9e37
			h *= 1099511628211
		}
		h ^= uint64(len(n))
		h *= 1099511628211
	}
	return fmt.Sprintf("%016x", h)
}

func shapeKey(m map[string]interface{}) string {
	keys := make([]string, 0, len(m))
	for k := range m {
		keys = append(keys, k)
	}
	sort.Strings(keys)
	var sb strings.Builder
	for _, k := range keys {
		fmt.Fprintf(&sb, "%s=%v;", k, m[k])
	}
	return sb.String()
}

// TestWorker is the entry point used by bin/check.
func TestWorker(t *testing.T) {
	prop := os.Getenv("VERIF_PROP")
	if prop == "" {
		t.Skip("VERIF_PROP not set")
	}
	out := os.Stdout
	if p := os.Getenv("VERIF_OUT"); p != "" {
		f, err := os.Create(p)
		if err != nil {
			t.Fatal(err)
		}
		defer f.Close()
		out = f
	}
	enc := json.NewEncoder(out)
	base := uint64(envInt("VERIF_SEED", 1))
	only := os.Getenv("VERIF_SCENARIO")
	keepLog := os.Getenv("VERIF_KEEPLOG") != ""
	if rp := os.Getenv("VERIF_REPLAY"); rp != "" {
		b, err := os.ReadFile(rp)
		if err != nil {
			t.Fatal(err)
		}
		var rf replayFile
		if err := json.Unmarshal(b, &rf); err != nil {
			t.Fatal(err)
		}
		sc := pickScenario(rf.Prop, rf.Run, rf.Scenario)
		if sc == nil {
			fmt.Fprintf(os.Stderr, "no scenario %s/%s\n", rf.Prop, rf.Scenario)
			os.Exit(2)
		}
		if rf.Regen {
			res := runOne(t, sc, rf.Prop, rf.Run, rf.Seed, nil, keepLog)
			enc.Encode(res)
			return
		}
		res := runOne(t, sc, rf.Prop, rf.Run, rf.Tape.Seed, &rf.Tape, keepLog)
		enc.Encode(res)
		return
	}
	from := envInt("VERIF_FROM", 0)
	to := envInt("VERIF_TO", 1)
	stride := envInt("VERIF_STRIDE", 1)
	deadline := int64(envInt("VERIF_DEADLINE", 0))
	stopOnViol := os.Getenv("VERIF_STOP_ON_VIOLATION") != ""
	agg := newSummary()
	defer func() { enc.Encode(map[string]interface{}{"summary": agg}) }()
	// the run in progress, for the driver: a Go fatal error (out of memory,
	// stack overflow) cannot be recovered, so the process dies mid-run
	var curF *os.File
	if p := os.Getenv("VERIF_CUR"); p != "" {
		curF, _ = os.Create(p)
	}
	nrun := 0
	for i := from; i < to; i += stride {
		if deadline > 0 && time.Now().Unix() >= deadline {
			break
		}
		sc := pickScenario(prop, i, only)
		if sc == nil {
			fmt.Fprintf(os.Stderr, "no scenario for %s\n", prop)
			os.Exit(2)
		}
		if sc.Engine == "R" && os.Getenv("VERIF_SKIP_R") != "" {
			continue
		}
		if os.Getenv("VERIF_RUN_MARKERS") != "" {
			fmt.Fprintf(os.Stderr, "#RUN %d %d %s\n", i, seedFor(base, prop, i), sc.Name)
		}
		if curF != nil {
			curF.WriteAt([]byte(fmt.Sprintf("%-12d %-22d %-60s\n", i, seedFor(base, prop, i), sc.Name)), 0)
		}
		res := runOne(t, sc, prop, i, seedFor(base, prop, i), nil, keepLog)
		agg.add(&res)
		if res.Verdict != "ok" || i < 4 || os.Getenv("VERIF_ALL_RESULTS") != "" {
			enc.Encode(res)
		}
		if res.Verdict == "harness-panic" {
			os.Exit(2)
		}
		if res.Verdict == "violation" && stopOnViol {
			break
		}
		if sc.Engine == "F" && res.Leftover {
			// goroutines of this bubble are blocked for ever (e.g. on a
			// package-level condition variable of the library): a later
			// bubble waking them is a runtime fatal error. Fresh process.
			break
		}
		if sc.Engine == "R" && os.Getenv("VERIF_CONTINUE") == "" {
			// real sockets, real goroutines (net/http, gorilla): they may outlive
			// the run, and must never meet a later simulated world: fresh process
			enc.Encode(map[string]interface{}{"resume": i + stride})
			break
		}
		if res.Verdict == "violation" && os.Getenv("VERIF_CONTINUE") == "" {
			// a violating run may leave process-wide state behind: the driver
			// continues the remaining indices in a fresh process
			break
		}
		// what thousands of finished bubbles leave behind (timers that never
		// fire, goroutines blocked for ever) adds up over a long batch: past a
		// bound the slot continues in a fresh process (a thorough run once grew
		// to 11 GB and was killed by the kernel)
		if nrun++; nrun%256 == 0 && os.Getenv("VERIF_CONTINUE") == "" {
			var ms runtime.MemStats
			runtime.ReadMemStats(&ms)
			if ms.Sys > uint64(envInt("VERIF_WORKER_MEM_MB", 1536))<<20 {
				enc.Encode(map[string]interface{}{"resume": i + stride})
				break
			}
		}
	}
}

// Summary is the per-worker aggregate (one line at worker exit) so that the
// driver does not have to parse one JSON line per run.
type Summary struct {
	Runs       int            `json:"runs"`
	MinRun     int            `json:"min_run"`
	MaxRun     int            `json:"max_run"`
	Steps      int64          `json:"steps"`
	SimNS      float64        `json:"sim_ns"`
	Deliveries int64          `json:"deliveries"`
	Anon       int            `json:"anon"`
	Scenarios  map[string]int `json:"scenarios"`
	Engines    map[string]int `json:"engines"`
	Faults     map[string]int `json:"faults"`
	Probes     map[string]int `json:"probes"`
	Incon      map[string]int `json:"inconclusive"`
	Verdicts   map[string]int `json:"verdicts"`
	Distinct   []string       `json:"distinct"` // hashes of (scenario,input,log) of non-trivial runs
	Scheds     []string       `json:"scheds"`   // hashes of (scenario,log)
	States     []string       `json:"states"`
	distinct   map[uint64]bool
	scheds     map[uint64]bool
	states     map[string]bool
}

func newSummary() *Summary {
	return &Summary{MinRun: -1, Scenarios: map[string]int{}, Engines: map[string]int{}, Faults: map[string]int{}, Probes: map[string]int{},
		Incon: map[string]int{}, Verdicts: map[string]int{}, distinct: map[uint64]bool{}, scheds: map[uint64]bool{}, states: map[string]bool{}}
}

func h64(parts ...string) uint64 {
	h := uint64(1469598103934665603)
	for _, p := range parts {
		for i := 0; i < len(p); i++ {
			h ^= uint64(p[i])
			h *= 1099511628211
		}
		h ^= 0xff
		h *= 1099511628211
	}
	return h
}

func (a *Summary) add(r *Result) {
	a.Runs++
	if a.MinRun < 0 || r.Run < a.MinRun {
		a.MinRun = r.Run
	}
	if r.Run > a.MaxRun {
		a.MaxRun = r.Run
	}
	a.Steps += r.Steps
	a.SimNS += float64(r.SimNS)
	a.Deliveries += int64(r.Deliveries)
	a.Anon += r.Anon
	a.Scenarios[r.Scenario]++
	a.Engines[r.Engine]++
	a.Verdicts[r.Verdict]++
	nf, np := 0, 0
	for k, v := range r.Faults {
		a.Faults[k] += v
		nf += v
	}
	for k, v := range r.Probes {
		a.Probes[k] += v
		np += v
	}
	for k, v := range r.Incon {
		a.Incon[k] += v
	}
	for _, s := range r.States {
		if !a.states[s] {
			a.states[s] = true
			a.States = append(a.States, s)
		}
	}
	sh := h64(r.Scenario, r.LogHash)
	if !a.scheds[sh] {
		a.scheds[sh] = true
		a.Scheds = append(a.Scheds, fmt.Sprintf("%x", sh))
	}
	if (r.Deliveries > 0 || nf > 0 || np > 0) && (r.Verdict == "ok" || r.Verdict == "violation") {
		dh := h64(r.Scenario, r.InputHash, r.LogHash)
		if !a.distinct[dh] {
			a.distinct[dh] = true
			a.Distinct = append(a.Distinct, fmt.Sprintf("%x", dh))
		}
	}
}
