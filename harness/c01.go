package harness

import (
	"bytes"
	"fmt"
	"os"
	"strings"
	"time"

	"go.nanomsg.org/mangos/v3"
	"go.nanomsg.org/mangos/v3/verifsim/simrt"
)

// C01: messages arrive byte-identical and whole over every transport.

type c1Pair struct {
	a, b      string // a sends first
	roundTrip bool
	hdr       int  // bytes of protocol header on the wire in the a->b direction
	reliable  bool // blocking send, no drops: bursts allowed
}

var c1Pairs = []c1Pair{
	{"pair", "pair", false, 0, true}, {"xpair", "xpair", false, 0, true}, {"pair", "xpair", false, 0, true},
	{"pair1", "pair1", false, 4, true}, {"xpair1", "xpair1", false, 4, true}, {"xpair1", "pair1", false, 4, true},
	{"push", "pull", false, 0, true}, {"xpush", "xpull", false, 0, true}, {"push", "xpull", false, 0, true},
	{"pub", "sub", false, 0, false}, {"xpub", "xsub", false, 0, false}, {"pub", "xsub", false, 0, false},
	{"bus", "bus", false, 0, false}, {"xbus", "xbus", false, 0, false},
	{"star", "star", false, 4, false}, {"xstar", "xstar", false, 4, false},
	{"req", "rep", true, 4, false}, {"xreq", "xrep", true, 4, false}, {"req", "xrep", true, 4, false}, {"xreq", "rep", true, 4, false},
	{"surveyor", "respondent", true, 4, false}, {"xsurveyor", "xrespondent", true, 4, false}, {"surveyor", "xrespondent", true, 4, false},
}

var poolClasses = []int{64, 128, 256, 512, 1024, 4096, 8192, 65536}

func c1Body(seed uint64, idx, n int) []byte {
	b := make([]byte, n)
	x := seed*0x9e3779b97f4a7c15 + uint64(idx)*0xbf58476d1ce4e5b9
	for i := range b {
		x ^= x << 13
		x ^= x >> 7
		x ^= x << 17
		b[i] = byte(x>>24) ^ byte(i)
	}
	return b
}

// c1Len picks a body length from the boundary-biased grid.
func c1Len(w *W, limit, hdr int, big bool) int {
	switch w.Choose(simrt.SProg, 6) {
	case 0:
		return []int{0, 1, 2, 3, 4, 5, 7, 8, 9}[w.Choose(simrt.SProg, 9)]
	case 1, 2:
		c := poolClasses[w.Choose(simrt.SProg, len(poolClasses))]
		if !big && c > 9000 {
			c = poolClasses[w.Choose(simrt.SProg, 6)]
		}
		n := c - 2 + w.Choose(simrt.SProg, 5) - hdr*w.Choose(simrt.SProg, 2)
		if n < 0 {
			n = 0
		}
		if limit > 0 && n+hdr > limit {
			n = limit - hdr
		}
		return n
	case 3, 4:
		if limit > 0 && (big || limit < 10000) {
			n := limit - hdr - w.Choose(simrt.SProg, 3) // total size == limit, limit-1, limit-2
			if n < 0 {
				n = 0
			}
			if n+hdr == limit {
				w.Probe("total-size-equals-limit")
			}
			return n
		}
		return w.Choose(simrt.SProg, 300)
	}
	n := w.Choose(simrt.SProg, 3000)
	if limit > 0 && n+hdr > limit {
		n = limit - hdr
	}
	return n
}

type c1End struct {
	s      mangos.Socket
	kind   string
	rawHdr []byte // last raw header received (for raw replies)
}

func (e *c1End) send(w *W, body []byte, n uint32) error {
	if !isRaw(e.kind) {
		return SendOwn(e.s, body)
	}
	m := mangos.NewMessage(len(body))
	m.Body = append(m.Body, body...)
	switch e.kind {
	case "xrep", "xrespondent":
		m.Header = append(m.Header, e.rawHdr...)
	default:
		m.Header = append(m.Header, rawHeader(e.kind, 0, n)...)
	}
	err := e.s.SendMsg(m)
	if err != nil {
		m.Free()
	}
	return err
}

func (e *c1End) recv() ([]byte, error) {
	m, err := e.s.RecvMsg()
	if err != nil {
		return nil, err
	}
	b := append([]byte(nil), m.Body...)
	if isRaw(e.kind) {
		e.rawHdr = append([]byte(nil), m.Header...)
	}
	m.Free()
	return b, nil
}

func c1Exchange(w *W, pat c1Pair, tran string, limit int, a, b *c1End, timeout time.Duration, big bool) {
	k := 3 + w.Choose(simrt.SProg, 18)
	if big {
		k = 2 + w.Choose(simrt.SProg, 3)
	}
	burst := pat.reliable && w.Choose(simrt.SProg, 2) == 0
	key := fmt.Sprintf("%s->%s:%s", pat.a, pat.b, tran)
	expectAt := func(e *c1End, dir string, want []byte, i int) bool {
		c := w.Do(e.kind+".RecvMsg", func() (interface{}, error) { return e.recv() })
		if !c.Wait(timeout) {
			w.Failf("C01/message-lost:"+key, "%s over %s (limit %d): message %d of %d bytes (%s) was accepted by Send but never arrived", key, tran, limit, i, len(want), dir)
			return false
		}
		if c.Err != nil {
			w.Failf("C01/message-lost:"+key, "%s over %s (limit %d): message %d of %d bytes (%s): Recv returned %v", key, tran, limit, i, len(want), dir, c.Err)
			return false
		}
		got := c.Val.([]byte)
		if !bytes.Equal(got, want) {
			w.Failf("C01/bytes-differ:"+key, "%s over %s (limit %d): message %d sent with %d bytes arrived with %d bytes; first difference at offset %d", key, tran, limit, i, len(want), len(got), firstDiff(got, want))
			return false
		}
		w.Delivery++
		return true
	}
	var bodies [][]byte
	for i := 0; i < k; i++ {
		bodies = append(bodies, c1Body(w.Seed, i, c1Len(w, limit, pat.hdr, big)))
	}
	// full duplex: both ends send a burst at the same time (PAIR family: both
	// directions are reliable). One connection then carries frames both ways
	// at once - a sender and a receiver goroutine inside each pipe.
	if burst && strings.HasSuffix(pat.a, "pair") || burst && strings.HasSuffix(pat.a, "pair1") {
		if w.Choose(simrt.SProg, 2) == 0 {
			w.Probe("full-duplex")
			var back [][]byte
			for i := 0; i < k; i++ {
				back = append(back, c1Body(w.Seed+7, i, c1Len(w, limit, pat.hdr, big)))
			}
			sa := w.Do("sender a", func() (interface{}, error) {
				for i, body := range bodies {
					if err := a.send(w, body, uint32(i+1)); err != nil {
						return i, err
					}
				}
				return len(bodies), nil
			})
			sb := w.Do("sender b", func() (interface{}, error) {
				for i, body := range back {
					if err := b.send(w, body, uint32(i+1)); err != nil {
						return i, err
					}
				}
				return len(back), nil
			})
			ra := w.Do("receiver a", func() (interface{}, error) {
				for i, body := range back {
					if !expectAt(a, "duplex b->a", body, i) {
						return i, nil
					}
				}
				return len(back), nil
			})
			for i, body := range bodies {
				if !expectAt(b, "duplex a->b", body, i) {
					return
				}
			}
			for _, c := range []*Call{sa, sb, ra} {
				if !c.Wait(timeout) || c.Err != nil {
					if !w.Failed() {
						w.Failf("C01/send-failed:"+key, "full duplex: %s returned=%v err=%v", c.Label, c.Returned(), errName(c.Err))
					}
					return
				}
			}
			return
		}
	}
	if burst {
		w.Probe("burst")
		sc := w.Do("sender", func() (interface{}, error) {
			for i, body := range bodies {
				if err := a.send(w, body, uint32(i+1)); err != nil {
					return i, err
				}
			}
			return len(bodies), nil
		})
		for i, body := range bodies {
			if !expectAt(b, "burst", body, i) {
				return
			}
		}
		if !sc.Wait(timeout) || sc.Err != nil {
			w.Failf("C01/send-failed:"+key, "burst sender returned=%v err=%v", sc.Returned(), errName(sc.Err))
		}
		return
	}
	for i, body := range bodies {
		w.Op("%s sends %d bytes", pat.a, len(body))
		sc := w.Do(a.kind+".Send", func() (interface{}, error) { return nil, a.send(w, body, uint32(i+1)) })
		if !sc.Wait(timeout) || sc.Err != nil {
			w.Failf("C01/send-failed:"+key, "%s Send of %d bytes returned=%v err=%v", pat.a, len(body), sc.Returned(), errName(sc.Err))
			return
		}
		if !expectAt(b, "request", body, i) {
			return
		}
		if pat.roundTrip {
			rbody := c1Body(w.Seed+1, i, c1Len(w, limit, pat.hdr, big))
			sc := w.Do(b.kind+".Send", func() (interface{}, error) { return nil, b.send(w, rbody, uint32(i+1)) })
			if !sc.Wait(timeout) || sc.Err != nil {
				w.Failf("C01/send-failed:"+key, "%s reply of %d bytes returned=%v err=%v", pat.b, len(rbody), sc.Returned(), errName(sc.Err))
				return
			}
			if !expectAt(a, "reply", rbody, i) {
				return
			}
		}
	}
}

func c1Setup(w *W, pat c1Pair, addr string, limit int, lopts, dopts map[string]interface{}) (*c1End, *c1End, bool) {
	a, b := &c1End{s: w.Sock(pat.a), kind: pat.a}, &c1End{s: w.Sock(pat.b), kind: pat.b}
	w.OnCleanup(func() { a.s.Close(); b.s.Close() })
	for _, e := range []*c1End{a, b} {
		mustSet(w, e.s, mangos.OptionMaxRecvSize, limit)
		if e.kind == "sub" {
			mustSet(w, e.s, mangos.OptionSubscribe, "")
		}
		if e.kind == "surveyor" {
			mustSet(w, e.s, mangos.OptionSurveyTime, time.Hour)
		}
	}
	att := 0
	a.s.SetPipeEventHook(func(ev mangos.PipeEvent, p mangos.Pipe) {
		if ev == mangos.PipeEventAttached {
			att++
		}
	})
	l, err := b.s.NewListener(addr, lopts)
	if err != nil {
		w.Failf("HARNESS/listen", "%s: %v", addr, err)
		return nil, nil, false
	}
	if err := l.Listen(); err != nil {
		w.Failf("HARNESS/listen", "%s: %v", addr, err)
		return nil, nil, false
	}
	// the listener may have picked its own port
	addr = l.Address()
	if err := a.s.DialOptions(addr, dopts); err != nil {
		w.Failf("HARNESS/dial", "%s: %v", addr, err)
		return nil, nil, false
	}
	for i := 0; i < 200 && att == 0; i++ {
		w.Sleep(time.Millisecond)
		w.Settle()
	}
	w.Sleep(2 * time.Millisecond)
	w.Settle()
	return a, b, true
}

func c01Sim(w *W) {
	pat := c1Pairs[w.Choose(simrt.SShape, len(c1Pairs))]
	// tcp / ipc / tls+tcp: the real endpoint code on the simulated network
	tran := w.simFallback([]string{"inproc", "sim", "simipc", "tcp", "ipc", "tls+tcp", "ws", "wss"}[w.Choose(simrt.SShape, 8)])
	limits := []int{1024 * 1024, 0, 100, 1000, 5000, 70000}
	limit := limits[w.Choose(simrt.SShape, len(limits))]
	big := w.Choose(simrt.SShape, 12) == 0
	cfg := NetCfg{BufCap: []int{0, 64, 1000, 70000}[w.Choose(simrt.SShape, 4)], Latency: []time.Duration{0, 0, 50 * time.Microsecond}[w.Choose(simrt.SShape, 3)]}
	if !big {
		cfg.Segment = w.Choose(simrt.SShape, 3) != 0
		cfg.WriteChunk = w.Choose(simrt.SShape, 2) == 0
	}
	w.UseNet(cfg)
	w.SetShape("pattern", pat.a+"->"+pat.b)
	w.SetShape("tran", tran)
	w.SetShape("limit", limit)
	w.SetShape("big", big)
	addr := w.Addr(tran)
	a, b, ok := c1Setup(w, pat, addr, limit, w.EpOpts(addr, true, nil), w.EpOpts(addr, false, nil))
	if !ok {
		return
	}
	c1Exchange(w, pat, tran, limit, a, b, 20*time.Second, big)
}

// c01Real: the same exchange over the real tcp / ipc / tls+tcp / ws / wss
// transports on loopback (engine R: the OS decides timing and segmentation;
// only byte equality is judged, with a generous real-time bound).
func c01Real(w *W) {
	pat := c1Pairs[w.Choose(simrt.SShape, len(c1Pairs))]
	tran := w.simFallback([]string{"tcp", "ipc", "tls+tcp", "ws", "wss"}[w.Choose(simrt.SShape, 5)])
	limits := []int{1024 * 1024, 0, 1000, 5000, 70000}
	limit := limits[w.Choose(simrt.SShape, len(limits))]
	big := w.Choose(simrt.SShape, 6) == 0
	w.SetShape("pattern", pat.a+"->"+pat.b)
	w.SetShape("tran", tran)
	w.SetShape("limit", limit)
	w.SetShape("big", big)
	srv, cli := tlsConfigs()
	var lopts, dopts map[string]interface{}
	port := 0
	addr := ""
	switch tran {
	case "tcp":
		addr = fmt.Sprintf("tcp://%s:%d", loopIP, port)
	case "ipc":
		addr = fmt.Sprintf("ipc://%s/verif-c01-%d-%d.sock", os.TempDir(), os.Getpid(), w.RunIdx)
		w.OnCleanup(func() { os.Remove(addr[len("ipc://"):]) })
	case "tls+tcp":
		addr = fmt.Sprintf("tls+tcp://%s:%d", loopIP, port)
		lopts = map[string]interface{}{mangos.OptionTLSConfig: srv}
		dopts = map[string]interface{}{mangos.OptionTLSConfig: cli}
	case "ws":
		addr = fmt.Sprintf("ws://%s:%d/verif", loopIP, port)
	case "wss":
		addr = fmt.Sprintf("wss://%s:%d/verif", loopIP, port)
		lopts = map[string]interface{}{mangos.OptionTLSConfig: srv}
		dopts = map[string]interface{}{mangos.OptionTLSConfig: cli}
	}
	a, b, ok := c1Setup(w, pat, addr, limit, lopts, dopts)
	if !ok {
		return
	}
	c1Exchange(w, pat, tran, limit, a, b, 30*time.Second, big)
}

func init() {
	register(&Scenario{Name: "bytes-sim", Prop: "C01", Horizon: time.Hour, Weight: 60, Run: c01Sim})
	register(&Scenario{Name: "bytes-real-transports", Prop: "C01", Engine: "R", Weight: 4, Run: c01Real})
}
