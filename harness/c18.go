package harness

import (
	"fmt"
	"strings"
	"time"

	"go.nanomsg.org/mangos/v3"
	"go.nanomsg.org/mangos/v3/verifsim/simrt"
)

// C18: deadlines, best-effort and fail-no-peers on the exact simulated clock.

type ioObj interface {
	Send([]byte) error
	Recv() ([]byte, error)
	SetOption(string, interface{}) error
	GetOption(string) (interface{}, error)
}

var c18Durations = []time.Duration{1, time.Microsecond, time.Millisecond, 250 * time.Millisecond, time.Second, time.Hour}

// timedLeaveEnds: the event injected during the call (the peer leaving) is a
// legitimate end of the call (set for REP/RESPONDENT replies, cooked and raw).
var timedLeaveEnds bool

// timedCall issues fn with deadline d already configured and judges its
// timing. Returns the call and whether it blocked.
func timedCall(w *W, label string, d time.Duration, timeoutErr error, fn func() (interface{}, error), during func()) (*Call, bool) {
	c := w.Do(label, fn)
	w.Settle()
	if c.Returned() {
		if c.Err == timeoutErr && d > 0 {
			w.Failf("C18/early", "%s with deadline %v returned %v at its invoke instant (%v)", label, d, c.Err, c.RetTime)
		}
		return c, false
	}
	if d <= 0 {
		return c, true
	}
	if during != nil {
		during()
		// a reply blocked behind its requester's queue ends when that
		// requester goes away (discarded, or a closed error): not a timeout matter
		if timedLeaveEnds && c.Returned() && (c.Err == nil || c.Err == mangos.ErrClosed) {
			w.Probe("blocked-reply-ended-by-requester-leaving")
			return c, true
		}
	}
	if d > 1 {
		// (absolute: the event injected during the call may have taken time)
		if rem := c.InvTime + d - 1 - w.Now(); rem > 0 {
			w.Sleep(rem)
		}
		w.Settle()
		if c.Returned() {
			if c.Err == timeoutErr {
				w.Failf("C18/early", "%s invoked at %v with deadline %v returned %v at %v, %v early", label, c.InvTime, d, c.Err, c.RetTime, c.InvTime+d-c.RetTime)
			} else {
				w.Failf("C18/unexpected-completion", "%s invoked at %v with deadline %v returned (%v, %v) at %v although nothing changed", label, c.InvTime, d, c.Val, errName(c.Err), c.RetTime)
			}
			return c, true
		}
		if rem := c.InvTime + d - w.Now(); rem > 0 {
			w.Sleep(rem)
		}
	} else {
		w.Sleep(d)
	}
	w.Settle()
	if !c.Returned() {
		w.WedgeCheck("C12")
		w.Failf("C18/late", "%s invoked at %v with deadline %v is still pending at %v", label, c.InvTime, d, w.Now())
		return c, true
	}
	if c.RetTime != c.InvTime+d {
		w.Failf("C18/late", "%s invoked at %v with deadline %v returned at %v", label, c.InvTime, d, c.RetTime)
	}
	if c.Err != timeoutErr {
		w.Failf("C18/wrong-timeout-error", "%s with deadline %v returned (%v, %v) at the deadline instead of %v", label, d, c.Val, errName(c.Err), timeoutErr)
	}
	w.Probe("timeout-exact")
	return c, true
}

func c18Run(w *W) {
	kind := allKinds[w.Choose(simrt.SShape, len(allKinds))]
	mode := []string{"recv-deadline", "send-deadline", "best-effort", "no-deadline-recv", "fail-no-peers"}[w.Choose(simrt.SShape, 5)]
	d := c18Durations[w.Choose(simrt.SShape, len(c18Durations))]
	useCtx := hasContexts(kind) && w.Choose(simrt.SShape, 2) == 0
	peerMode := []string{"none", "connected", "stalled", "leaving"}[w.Choose(simrt.SShape, 4)]
	qlen := []int{0, 1, 2, 5}[w.Choose(simrt.SShape, 4)]
	w.SetShape("kind", kind)
	w.SetShape("mode", mode)
	w.SetShape("d", d.String())
	w.SetShape("ctx", useCtx)
	w.SetShape("peer", peerMode)
	w.SetShape("qlen", qlen)

	mn := w.UseMsgNet()
	addr := w.Addr("msg")
	s := w.Sock(kind)
	defer s.Close()
	if kind == "sub" {
		mustSet(w, s, mangos.OptionSubscribe, "")
	}
	// queue lengths where supported
	_ = s.SetOption(mangos.OptionWriteQLen, qlen)
	_ = s.SetOption(mangos.OptionReadQLen, qlen+1)
	if peerMode == "stalled" || peerMode == "leaving" {
		mn.Endpoint(addr).SendCap = 1
	}
	if err := w.ListenOn(s, addr); err != nil {
		w.Failf("HARNESS/listen", "%v", err)
		return
	}
	var peer *MsgPipe
	if peerMode != "none" {
		peer = mn.Connect(addr)
		w.Settle()
	}
	var obj ioObj = s
	// a context may get its deadlines by inheritance: both are set on the
	// socket (to different values) before the context is opened, none on the
	// context itself
	inherit := false
	if useCtx && kind != "rep" && (mode == "recv-deadline" || mode == "send-deadline") && w.Choose(simrt.SShape, 2) == 0 { // (REP contexts start from defaults)
		other := d + 13*time.Millisecond
		var e1, e2 error
		if mode == "recv-deadline" {
			e1, e2 = s.SetOption(mangos.OptionRecvDeadline, d), s.SetOption(mangos.OptionSendDeadline, other)
		} else {
			e1, e2 = s.SetOption(mangos.OptionSendDeadline, d), s.SetOption(mangos.OptionRecvDeadline, other)
		}
		inherit = e1 == nil && e2 == nil
		w.SetShape("inherited", inherit)
		if inherit {
			w.Probe("deadline-inherited-by-context")
		}
	}
	setDL := func(name string, v time.Duration) error {
		if inherit {
			return nil
		}
		return obj.SetOption(name, v)
	}
	if useCtx {
		c, err := s.OpenContext()
		if err != nil {
			w.Failf("HARNESS/ctx", "%v", err)
			return
		}
		obj = c.(ioObj)
		if kind == "sub" {
			mustSet(w, c, mangos.OptionSubscribe, "")
		}
	}
	// once a context has its deadline (its own or inherited at creation), the
	// socket's is changed to something else: the context keeps what it has
	decoy := useCtx && w.Choose(simrt.SShape, 2) == 0
	decoySock := func(name string, cur time.Duration) {
		if !decoy {
			return
		}
		other := cur + 13*time.Millisecond
		if cur == 0 {
			other = 100 * time.Millisecond
		}
		if s.SetOption(name, other) == nil {
			w.SetShape("socket_deadline_changed_afterwards", other.String())
			w.Probe("socket-deadline-changed-after-context-had-its-own")
		}
	}
	leave := func() {
		if peerMode == "leaving" && peer != nil {
			w.Op("peer leaves mid-call")
			w.Fault("close")
			peer.ClosePeer()
			w.Settle()
		}
	}

	switch mode {
	case "recv-deadline", "no-deadline-recv":
		if !canRecv(kind) {
			return
		}
		dd := d
		if mode == "no-deadline-recv" {
			dd = 0
		}
		if err := setDL(mangos.OptionRecvDeadline, dd); err != nil {
			// unsupported here, or this pattern does not accept the value
			// (respondent refuses a zero receive deadline): not this property
			w.Probe("deadline-not-accepted")
			return
		}
		decoySock(mangos.OptionRecvDeadline, dd)
		// patterns that need a request/survey before Recv
		switch kind {
		case "req":
			_ = obj.SetOption(mangos.OptionBestEffort, true)
			if err := obj.Send([]byte("request")); err != nil {
				w.Failf("HARNESS/prep", "req send: %v", err)
				return
			}
		case "surveyor":
			// (an accepted survey time of zero means the survey never expires:
			// the receive deadline is then the only bound on a Recv)
			st := []time.Duration{2 * time.Hour, 0}[w.Choose(simrt.SShape, 2)]
			w.SetShape("survey_time", st.String())
			mustSet(w, obj, mangos.OptionSurveyTime, st)
			if err := obj.Send([]byte("survey")); err != nil {
				w.Failf("HARNESS/prep", "survey send: %v", err)
				return
			}
		}
		w.Settle()
		// optional prefill: immediately satisfiable calls succeed whatever d is
		pre := 0
		if peer != nil && plainInbound(kind) && peerMode != "leaving" {
			pre = w.Choose(simrt.SProg, 3)
			if pre > qlen+1 {
				pre = qlen + 1
			}
			for i := 0; i < pre; i++ {
				peer.Inject(inbound(kind, uint32(i+1), fmt.Sprintf("pre%d", i)))
			}
			w.Settle()
		}
		for i := 0; i < pre; i++ {
			c := w.Do("Recv(prefilled)", func() (interface{}, error) { return obj.Recv() })
			w.Settle()
			if !c.Returned() {
				w.Failf("C18/ready-call-blocked", "%s: %d messages queued, Recv %d with deadline %v did not return at once", kind, pre, i, dd)
				return
			}
			if c.Err != nil {
				w.Failf("C18/ready-call-failed", "%s: %d messages queued, Recv %d with deadline %v failed: %v", kind, pre, i, dd, c.Err)
				return
			}
			w.Delivery++
		}
		if pre > 0 && dd > 0 && dd <= time.Second && w.Choose(simrt.SProg, 2) == 0 {
			// the socket then sits idle for longer than the deadline: the next
			// Recv still gets its whole deadline
			w.Sleep(3 * dd)
			w.Settle()
			w.Probe("idle-longer-than-the-deadline-between-recvs")
		}
		if mode == "recv-deadline" && dd >= time.Millisecond && peer != nil && peerMode != "leaving" && plainInbound(kind) && !hasContexts(kind) && w.Choose(simrt.SProg, 3) == 0 {
			// (patterns without contexts: a context takes one Recv at a time)
			// several goroutines in Recv at the same moment, fewer messages queued
			// than callers: that many return at once, each of the others at
			// exactly its deadline
			extra := w.Choose(simrt.SProg, 3)
			if extra > qlen+1 {
				extra = qlen + 1
			}
			for i := 0; i < extra; i++ {
				peer.Inject(inbound(kind, uint32(40+i), fmt.Sprintf("conc%d", i)))
			}
			w.Settle()
			n := extra + 1 + w.Choose(simrt.SProg, 2)
			t0 := w.Now()
			var calls []*Call
			for i := 0; i < n; i++ {
				calls = append(calls, w.Do(fmt.Sprintf("%s.Recv(concurrent %d)", kind, i), func() (interface{}, error) { return obj.Recv() }))
			}
			w.Settle()
			got := 0
			for _, c := range calls {
				if c.Returned() {
					if c.Err != nil {
						w.Failf("C18/early", "%s: %d messages queued, %d goroutines in Recv with deadline %v: %s returned %v at its invoke instant", kind, extra, n, dd, c.Label, c.Err)
						return
					}
					got++
				}
			}
			if got != extra {
				w.Failf("C18/ready-call-blocked", "%s: %d messages queued, %d goroutines in Recv with deadline %v: %d of them returned a message at once", kind, extra, n, dd, got)
				return
			}
			w.Sleep(dd - 1)
			w.Settle()
			for _, c := range calls {
				if c.Returned() && c.Err == mangos.ErrRecvTimeout {
					w.Failf("C18/early", "%s: %s (deadline %v, invoked at %v) timed out at %v", kind, c.Label, dd, t0, c.RetTime)
					return
				}
			}
			w.Sleep(1)
			w.Settle()
			for _, c := range calls {
				if !c.Returned() {
					w.WedgeCheck("C12")
					w.Failf("C18/late", "%s: %d goroutines were in Recv with deadline %v and %d messages queued; %s, invoked at %v, is still pending at %v", kind, n, dd, extra, c.Label, t0, w.Now())
					return
				}
				if c.Err == mangos.ErrRecvTimeout && c.RetTime != t0+dd {
					w.Failf("C18/late", "%s: %s (deadline %v, invoked at %v) timed out at %v", kind, c.Label, dd, t0, c.RetTime)
					return
				}
			}
			w.Delivery += got
			w.Probe("concurrent-receivers-more-than-messages")
			return
		}
		w.Op("%s Recv with deadline %v (peer %s)", kind, dd, peerMode)
		during := leave
		if dd >= time.Millisecond && w.Choose(simrt.SProg, 3) == 0 {
			// something else happens to the socket while the Recv waits: its
			// receive queue is resized (twice). The deadline stays where it was.
			during = func() {
				leave()
				for k := 0; k < 2; k++ {
					w.Sleep(dd / 4)
					if err := s.SetOption(mangos.OptionReadQLen, qlen+2+k); err != nil {
						return
					}
				}
				w.Op("receive queue resized twice during the wait")
				w.Probe("queue-resized-during-timed-recv")
			}
		}
		c, blocked := timedCall(w, kind+".Recv", dd, mangos.ErrRecvTimeout, func() (interface{}, error) { return obj.Recv() }, during)
		if w.Failed() {
			return
		}
		if mode == "no-deadline-recv" && blocked {
			w.Sleep(3 * time.Hour)
			w.Settle()
			if c.Returned() {
				// a survey expiring is a legitimate reason
				if !(kind == "surveyor" && c.Err == mangos.ErrProtoState) {
					w.Failf("C18/no-deadline-returned", "%s Recv without deadline returned (%v,%v) at %v although nothing arrived", kind, c.Val, errName(c.Err), c.RetTime)
				}
				return
			}
			w.Probe("no-deadline-pending-at-horizon")
			if peer != nil && peer.Open() && plainInbound(kind) {
				peer.Inject(inbound(kind, 77, "late"))
				w.Settle()
				if !c.Returned() || c.Err != nil {
					w.Failf("C18/no-deadline-not-completed", "%s Recv without deadline: a message arrived at %v but the call did not complete (returned=%v err=%v)", kind, w.Now(), c.Returned(), errName(c.Err))
				} else {
					w.Delivery++
				}
			}
		}
	case "send-deadline", "best-effort":
		if !canSend(kind) {
			return
		}
		var wantTimeout error = mangos.ErrSendTimeout
		if mode == "best-effort" {
			if err := obj.SetOption(mangos.OptionBestEffort, true); err != nil {
				if err == mangos.ErrBadOption {
					return
				}
				w.Failf("C19/besteffort-rejected", "%v", err)
				return
			}
		}
		if err := setDL(mangos.OptionSendDeadline, d); err != nil {
			w.Probe("deadline-not-accepted")
			if mode == "send-deadline" {
				return
			}
		} else if mode == "send-deadline" {
			decoySock(mangos.OptionSendDeadline, d)
		}
		// rep/respondent can only send after receiving a request
		if (kind == "rep" || kind == "respondent") && peer != nil && peer.Open() {
			peer.Inject(inbound(kind, 5, "request"))
			w.Settle()
			rc := w.Do("Recv(request)", func() (interface{}, error) { return obj.Recv() })
			w.Settle()
			if !rc.Returned() {
				return
			}
		}
		blockedOnce := false
		// (set up front: an option call made while a Send is blocked is itself
		// one of the calls that must not wait - judged by the Recv below)
		recvBeside := kind != "req" && canRecv(kind) && d >= time.Millisecond && mode == "send-deadline" && w.Choose(simrt.SProg, 2) == 0 && obj.SetOption(mangos.OptionRecvDeadline, d/4) == nil
		// raw patterns whose Send wants a protocol header from the application
		// (a message without one is dropped on the spot, which would decide
		// nothing): the header an application would supply, for XREP /
		// XRESPONDENT the one a request of the connected peer arrived with
		send := func(body []byte) error { return obj.Send(body) }
		if isRaw(kind) && rawHeader(kind, 1, 1) != nil {
			var pipeID uint32 = 1
			if (kind == "xrep" || kind == "xrespondent") && peer != nil && peer.Open() {
				peer.Inject(inbound(kind, 5, "request"))
				w.Settle()
				rc := w.Do("RecvMsg(request)", func() (interface{}, error) { return s.RecvMsg() })
				w.Settle()
				if !rc.Returned() || rc.Err != nil {
					return
				}
				rm := rc.Val.(*mangos.Message)
				if len(rm.Header) < 4 {
					w.Failf("C05/raw-header", "%s: a request arrived with a %d-byte header", kind, len(rm.Header))
					return
				}
				pipeID = uint32(rm.Header[0])<<24 | uint32(rm.Header[1])<<16 | uint32(rm.Header[2])<<8 | uint32(rm.Header[3])
				rm.Free()
				w.Probe("raw-reply-addressed-to-connected-pipe")
			}
			nsent := uint32(0)
			send = func(body []byte) error {
				nsent++
				m := mangos.NewMessage(len(body))
				m.Header = append(m.Header, rawHeader(kind, pipeID, 100+nsent)...)
				m.Body = append(m.Body, body...)
				err := s.SendMsg(m)
				if err != nil {
					m.Free()
				}
				return err
			}
			w.Probe("raw-send-with-header")
		}
		for i := 0; i < qlen+5 && !w.Failed(); i++ {
			body := []byte(fmt.Sprintf("m%d", i))
			if i > 0 && (kind == "rep" || kind == "respondent") && peer != nil && peer.Open() {
				// one reply per request: take another request first, so that the
				// replies pile up behind the stalled requester's full queue
				peer.Inject(inbound(kind, uint32(6+i), fmt.Sprintf("request%d", i)))
				w.Settle()
				rc := w.Do("Recv(request)", func() (interface{}, error) { return obj.Recv() })
				w.Settle()
				if !rc.Returned() || rc.Err != nil {
					break
				}
			}
			w.Op("%s Send %d deadline %v besteffort=%v", kind, i, d, mode == "best-effort")
			timedLeaveEnds = kind == "rep" || kind == "respondent" || kind == "xrep" || kind == "xrespondent"
			during := leave
			if kind == "req" && d >= time.Millisecond && mode == "send-deadline" && w.Choose(simrt.SProg, 2) == 0 {
				// while the Send waits, a Recv on the same context (shorter
				// deadline) comes and goes: the Send's own deadline stands
				during = func() {
					leave()
					if obj.SetOption(mangos.OptionRecvDeadline, d/4) != nil {
						return
					}
					rc := w.Do("Recv(beside the blocked Send)", func() (interface{}, error) { return obj.Recv() })
					w.Sleep(d / 2)
					w.Settle()
					if rc.Returned() {
						w.Probe("recv-timed-out-beside-blocked-send")
					}
				}
			}
			if kind != "req" && canRecv(kind) && d >= time.Millisecond && mode == "send-deadline" && recvBeside {
				// while the Send waits for room, another goroutine calls Recv on
				// the same socket / context with a shorter deadline: a blocked
				// Send must not make other calls wait for it (nothing is queued,
				// so that Recv ends at its own deadline, or at once where the
				// pattern has nothing to wait for)
				during = func() {
					leave()
					rc := w.Do(kind+".Recv(beside the blocked Send)", func() (interface{}, error) { return obj.Recv() })
					w.Sleep(d / 2)
					w.Settle()
					if !rc.Returned() {
						w.WedgeCheck("C12")
						w.Failf("C18/late", "%s: a Send was blocked behind a stalled peer (deadline %v); a Recv with deadline %v invoked beside it at %v is still pending at %v", kind, d, d/4, rc.InvTime, w.Now())
						return
					}
					if rc.Err == mangos.ErrRecvTimeout && rc.RetTime != rc.InvTime+d/4 {
						w.Failf("C18/late", "%s: a Recv with deadline %v invoked at %v beside a blocked Send timed out at %v", kind, d/4, rc.InvTime, rc.RetTime)
						return
					}
					w.Probe("recv-beside-blocked-send-kept-its-own-deadline")
				}
			}
			c, blocked := timedCall(w, fmt.Sprintf("%s.Send#%d", kind, i), d, wantTimeout, func() (interface{}, error) { return nil, send(body) }, during)
			timedLeaveEnds = false
			if w.Failed() {
				return
			}
			if mode == "best-effort" {
				if blocked {
					w.Failf("C18/best-effort-blocked", "%s: best-effort Send %d did not return at its invoke instant", kind, i)
					return
				}
				if c.Err != nil && c.Err != mangos.ErrProtoState {
					w.Failf("C18/best-effort-error", "%s: best-effort Send %d returned %v", kind, i, c.Err)
					return
				}
				w.Probe("best-effort-immediate")
			}
			if blocked && peerMode == "connected" && mode == "send-deadline" {
				// a connected peer that takes everything at once: the call could
				// complete immediately, so the deadline must not fail it
				w.Failf(fmt.Sprintf("C18/ready-send-blocked:%s:wq=%d", kind, qlen), "%s (WriteQLen %d): a peer is connected and reading, yet Send %d blocked until its deadline", kind, qlen, i)
				return
			}
			if blocked {
				blockedOnce = true
				break
			}
		}
		if blockedOnce {
			w.Probe("send-blocked-then-timeout")
		}
		if mode == "best-effort" && !w.Failed() {
			// several goroutines send best-effort at the same moment into a queue
			// that is full or about to be (nobody drains it when there is no peer
			// or the peer is stalled): none of them may wait for room
			ntask := 2 + w.Choose(simrt.SProg, 3)
			// (on this socket, whose queue the calls above have filled, or on a
			// fresh one with a few free slots - fewer than there are senders -
			// and no peer at all)
			burstOn := obj
			bq := qlen
			if w.Choose(simrt.SProg, 2) == 0 {
				s2 := w.Sock(kind)
				defer s2.Close()
				bq = 1 + w.Choose(simrt.SProg, 3)
				if s2.SetOption(mangos.OptionWriteQLen, bq) == nil && s2.SetOption(mangos.OptionBestEffort, true) == nil {
					burstOn = s2
				}
			}
			burstSend := func(b []byte) error { return burstOn.Send(b) }
			if burstOn == obj {
				burstSend = send
			}
			var calls []*Call
			for t := 0; t < ntask; t++ {
				t := t
				calls = append(calls, w.Do(fmt.Sprintf("%s.Send(best effort, task %d)", kind, t), func() (interface{}, error) {
					for j := 0; j < 3; j++ {
						if err := burstSend([]byte(fmt.Sprintf("burst-%d-%d", t, j))); err != nil && err != mangos.ErrProtoState {
							return j, err
						}
					}
					return 3, nil
				}))
			}
			w.Settle()
			for _, c := range calls {
				if !c.Returned() || c.RetTime != c.InvTime {
					w.Failf("C18/best-effort-blocked", "%s (WriteQLen %d, fresh socket without peers: %v): %d goroutines sending best-effort at once: %s has not returned at its invoke instant (returned=%v)%s", kind, bq, burstOn != obj, ntask, c.Label, c.Returned(), w.BlockedReport())
					return
				}
				if c.Err != nil {
					w.Failf("C18/best-effort-error", "%s: concurrent best-effort Send returned %v", kind, c.Err)
					return
				}
			}
			w.Probe("best-effort-concurrent-senders")
		}
	case "fail-no-peers":
		if err := obj.SetOption(mangos.OptionFailNoPeers, true); err != nil {
			if err == mangos.ErrBadOption {
				return
			}
			w.Failf("C19/failnopeers-rejected", "%v", err)
			return
		}
		if peer == nil {
			if canSend(kind) {
				c := w.Do("Send(no peers)", func() (interface{}, error) { return nil, obj.Send([]byte("x")) })
				w.Settle()
				if !c.Returned() || c.Err != mangos.ErrNoPeers {
					w.Failf("C18/fail-no-peers-send", "%s: FailNoPeers set, no peer, Send returned=%v err=%v", kind, c.Returned(), errName(c.Err))
					return
				}
				w.Probe("fail-no-peers-immediate")
			}
			if canRecv(kind) {
				c := w.Do("Recv(no peers)", func() (interface{}, error) { return obj.Recv() })
				w.Settle()
				if !c.Returned() || (c.Err != mangos.ErrNoPeers && c.Err != mangos.ErrProtoState) {
					w.Failf("C18/fail-no-peers-recv", "%s: FailNoPeers set, no peer, Recv returned=%v err=%v", kind, c.Returned(), errName(c.Err))
					return
				}
			}
			c18Rejoin(w, mn, addr, kind, obj)
			return
		}
		// a peer is attached: block a call, then the last peer leaves
		var c *Call
		if kind == "req" && (peerMode == "stalled" || peerMode == "leaving") && w.Choose(simrt.SProg, 2) == 0 {
			// the only pipe is busy with an earlier request (the stalled peer has
			// taken one message and reads no more): the next Send blocks
			for i := 0; i < 4; i++ {
				c = w.Do(fmt.Sprintf("Send#%d", i), func() (interface{}, error) { return nil, obj.Send([]byte("request")) })
				w.Settle()
				if !c.Returned() {
					break
				}
				if c.Err != nil {
					return
				}
			}
			if c != nil && !c.Returned() {
				w.Probe("req-send-blocked-by-backpressure")
			}
		} else if kind == "req" {
			sc := w.Do("Send", func() (interface{}, error) { return nil, obj.Send([]byte("request")) })
			w.Settle()
			if !sc.Returned() || sc.Err != nil {
				return
			}
			c = w.Do("Recv", func() (interface{}, error) { return obj.Recv() })
		} else {
			// push/xpush: fill until a Send blocks
			for i := 0; i < qlen+6; i++ {
				c = w.Do(fmt.Sprintf("Send#%d", i), func() (interface{}, error) { return nil, obj.Send([]byte("x")) })
				w.Settle()
				if !c.Returned() {
					break
				}
				if c.Err != nil {
					return
				}
			}
		}
		w.Settle()
		if c == nil || c.Returned() {
			return
		}
		if kind == "req" && strings.HasPrefix(c.Label, "Send") && w.Choose(simrt.SProg, 2) == 0 {
			if obj.SetOption(mangos.OptionRecvDeadline, time.Millisecond) == nil {
				rc := w.Do("Recv(beside the blocked Send)", func() (interface{}, error) { return obj.Recv() })
				w.Sleep(2 * time.Millisecond)
				w.Settle()
				if rc.Returned() {
					w.Probe("recv-timed-out-beside-blocked-send")
				}
			}
		}
		w.Sleep(time.Duration(1+w.Choose(simrt.SProg, 1000)) * time.Millisecond)
		w.Op("last peer leaves while %s is pending", c.Label)
		w.Fault("close")
		peer.ClosePeer()
		t := w.Now()
		w.Settle()
		if !c.Returned() {
			w.Failf("C18/fail-no-peers-late", "%s: FailNoPeers set, the last peer left at %v, %s is still pending", kind, t, c.Label)
			return
		}
		if c.Err != mangos.ErrNoPeers {
			w.Failf("C18/fail-no-peers-wrong-error", "%s: the last peer left during %s, it returned %v", kind, c.Label, errName(c.Err))
			return
		}
		w.Probe("fail-no-peers-on-leave")
		c18Rejoin(w, mn, addr, kind, obj)
	}
}

// c18Rejoin: peers come back and leave again: the no-peers condition follows
// the peer set every time, it does not latch.
func c18Rejoin(w *W, mn *MsgNet, addr, kind string, obj ioObj) {
	{
		if !canSend(kind) {
			return
		}
		mn.Endpoint(addr).SendCap = 0
		for round := 0; round < 2 && !w.Failed(); round++ {
			p2 := mn.Connect(addr)
			w.Settle()
			if p2 == nil {
				return
			}
			for i := 0; i < 4; i++ {
				sc := w.Do(fmt.Sprintf("Send(peer back, round %d)#%d", round, i), func() (interface{}, error) { return nil, obj.Send([]byte("y")) })
				sc.Wait(10 * time.Millisecond)
				w.Settle()
				if !sc.Returned() {
					break // a full queue may block it (no deadline set): not judged here
				}
				if sc.Err == mangos.ErrNoPeers {
					w.Failf("C18/no-peers-with-peer-attached", "%s: FailNoPeers set; the last peer left and a new peer attached (round %d); Send still fails with %v", kind, round, errName(sc.Err))
					return
				}
			}
			w.Op("peer leaves again (round %d)", round)
			w.Fault("close")
			p2.ClosePeer()
			w.Settle()
			sc := w.Do("Send(no peers again)", func() (interface{}, error) { return nil, obj.Send([]byte("z")) })
			w.Settle()
			if !sc.Returned() || sc.Err != mangos.ErrNoPeers {
				w.Failf("C18/fail-no-peers-send", "%s: FailNoPeers set, the peer left again (round %d), Send returned=%v err=%v", kind, round, sc.Returned(), errName(sc.Err))
				return
			}
			w.Probe("fail-no-peers-follows-peer-set")
		}
		// the option is switched off again while no peer is connected: from
		// now on a Send waits (or queues) like on any socket - "no peers" is
		// not an answer any more
		if err := obj.SetOption(mangos.OptionFailNoPeers, false); err != nil {
			w.Failf("C19/option-refused", "%s: SetOption(FailNoPeers, false): %v", kind, err)
			return
		}
		if v, err := obj.GetOption(mangos.OptionFailNoPeers); err != nil || v != false {
			w.Failf("C19/get-differs", "%s: FailNoPeers set to false, GetOption returns (%v, %v)", kind, v, err)
			return
		}
		_ = obj.SetOption(mangos.OptionSendDeadline, 3*time.Millisecond)
		for i := 0; i < 6; i++ {
			sc := w.Do(fmt.Sprintf("Send(FailNoPeers off, no peer)#%d", i), func() (interface{}, error) { return nil, obj.Send([]byte("q")) })
			sc.Wait(20 * time.Millisecond)
			w.Settle()
			if sc.Returned() && sc.Err == mangos.ErrNoPeers {
				w.Failf("C19/option-not-effective:FailNoPeers", "%s: FailNoPeers was switched off (and reads back false) after the last peer had left; Send %d still fails with the no-peers error", kind, i)
				return
			}
		}
		w.Probe("fail-no-peers-switched-off-without-peers")
	}
}

func init() {
	register(&Scenario{Name: "deadlines", Prop: "C18", Horizon: 12 * time.Hour, Run: c18Run})
	// C19: deadlines, best effort and fail-no-peers "take effect as documented",
	// also when they are changed or switched off again later
	register(&Scenario{Name: "deadline-and-no-peers-options-effective", Prop: "C19", Horizon: 12 * time.Hour, Weight: 3, Run: c18Run})
}
