package harness

import (
	"bytes"
	"context"
	"crypto/tls"
	"encoding/binary"
	"fmt"
	"net"
	"sort"
	"strings"
	"time"

	"github.com/gorilla/websocket"

	"go.nanomsg.org/mangos/v3"
	"go.nanomsg.org/mangos/v3/protocol"
	"go.nanomsg.org/mangos/v3/verifsim/simrt"
)

// C16: a hostile or broken peer cannot crash, stall or pollute a socket.

// deliverable is the independent parse: given the payload of a complete,
// in-limit frame, what (if anything) may the application of a socket of this
// kind with the default TTL 8 be handed? Returns the body.
func deliverable(kind string, p []byte) ([]byte, bool) {
	base := strings.TrimPrefix(kind, "x")
	switch base {
	case "pair", "pull", "bus", "sub":
		return p, true
	case "pair1":
		if len(p) < 4 {
			return nil, false
		}
		h := binary.BigEndian.Uint32(p)
		if h >= 255 || h > 8 {
			return nil, false
		}
		return p[4:], true
	case "star":
		if len(p) < 4 || p[0] != 0 || p[1] != 0 || p[2] != 0 || p[3] >= 8 {
			return nil, false
		}
		return p[4:], true
	case "rep", "respondent":
		for j := 1; j <= 8; j++ {
			if len(p) < 4*j {
				return nil, false
			}
			if p[4*(j-1)]&0x80 != 0 {
				return p[4*j:], true
			}
		}
		return nil, false
	case "req", "surveyor":
		if kind == "xreq" || kind == "xsurveyor" {
			if len(p) < 4 {
				return nil, false
			}
			return p[4:], true
		}
		return nil, false // cooked: only a reply carrying the current id
	}
	return nil, false // pub, push: nothing is ever received
}

type c16Peer struct {
	c     *NetConn
	alive bool // still usable for further hostile frames
	gone  bool // connection torn down by the harness
	name  string
}

// c16NoLimitHuge: the one configuration the statement's "all MaxRecvSize
// values" includes but the main scenario avoids: MaxRecvSize = 0 (no limit)
// and a peer announcing an absurd length. Kept as a dedicated cell so that it
// is reported (as a known finding) without costing the other runs.
func c16NoLimitHuge(w *W) {
	kind := []string{"pair", "pull", "rep", "sub", "bus"}[w.Choose(simrt.SShape, 5)]
	tran := w.simFallback([]string{"sim", "simipc", "tcp", "ipc"}[w.Choose(simrt.SShape, 4)]) // tcp / ipc: the real listener code on the simulated network
	w.SetShape("kind", kind)
	w.SetShape("tran", tran)
	w.SetShape("limit", 0)
	w.SetShape("cell", "no-limit-huge-announcement")
	nt := w.UseNet(NetCfg{})
	s := w.Sock(kind)
	defer s.Close()
	mustSet(w, s, mangos.OptionMaxRecvSize, 0)
	laddr := w.Addr(tran)
	name := NetKey(laddr)
	if err := s.Listen(laddr); err != nil {
		w.Failf("HARNESS/listen", "%v", err)
		return
	}
	c, err := nt.Dial(name)
	if err != nil {
		return
	}
	w.Go("peer hs", func() { c.Write(wcHeader(protoOf(peerKind[kind]))); wcReadHeader(c) })
	w.Sleep(20 * time.Millisecond)
	w.Settle()
	var lb [9]byte
	lb[0] = 1
	ann := []uint64{1 << 62, ^uint64(0), 1 << 63, ^uint64(0) - 63}[w.Choose(simrt.SShape, 4)] // 2^62, -1, MinInt64, -64
	binary.BigEndian.PutUint64(lb[1:], ann)
	w.SetShape("announced", fmt.Sprintf("%#x", ann))
	w.Fault("oversize")
	w.Op("hostile: MaxRecvSize 0, announces %#x bytes", ann)
	if isIPCTran(tran) {
		c.Write(lb[:])
	} else {
		c.Write(lb[1:])
	}
	w.Sleep(time.Millisecond)
	w.Settle()
	w.Delivery++
}

func c16Run(w *W) {
	if w.RunIdx%97 == 3 {
		c16NoLimitHuge(w)
		return
	}
	kind := allKinds[w.Choose(simrt.SShape, len(allKinds))]
	tran := w.simFallback([]string{"sim", "simipc", "tcp", "ipc"}[w.Choose(simrt.SShape, 4)]) // tcp / ipc: the real listener code on the simulated network
	ipc := isIPCTran(tran)
	limits := []int{0, 16, 100, 1024, 1024 * 1024}
	limit := limits[w.Choose(simrt.SShape, len(limits))]
	nops := 4 + w.Choose(simrt.SShape, 12)
	w.SetShape("kind", kind)
	w.SetShape("tran", tran)
	w.SetShape("limit", limit)
	nt := w.UseNet(NetCfg{Segment: w.Choose(simrt.SShape, 2) == 0})
	s := w.Sock(kind)
	defer s.Close()
	mustSet(w, s, mangos.OptionMaxRecvSize, limit)
	_ = s.SetOption(mangos.OptionRecvDeadline, 2*time.Millisecond)
	_ = s.SetOption(mangos.OptionSendDeadline, 2*time.Millisecond)
	if kind == "sub" {
		mustSet(w, s, mangos.OptionSubscribe, "zz-another-topic") // (a non-empty subscription is looked at first)
		mustSet(w, s, mangos.OptionSubscribe, "")
	}
	attached, detached := 0, 0
	s.SetPipeEventHook(func(ev mangos.PipeEvent, p mangos.Pipe) {
		switch ev {
		case mangos.PipeEventAttached:
			attached++
		case mangos.PipeEventDetached:
			detached++
		}
	})
	laddr := w.Addr(tran)
	name := NetKey(laddr)
	if err := s.Listen(laddr); err != nil {
		w.Failf("HARNESS/listen", "%v", err)
		return
	}
	peerProto := protoOf(peerKind[kind])
	connect := func(good bool) *c16Peer {
		c, err := nt.Dial(name)
		if err != nil {
			w.Failf("HARNESS/dial", "%v", err)
			return nil
		}
		p := &c16Peer{c: c, alive: true}
		if good {
			before := attached
			w.Go("peer hs", func() {
				c.Write(wcHeader(peerProto))
				wcReadHeader(c)
			})
			// (every failed handshake before makes the accept loop pause 10ms)
			for i := 0; i < 50 && attached == before; i++ {
				w.Sleep(10 * time.Millisecond)
				w.Settle()
			}
			if attached != before+1 {
				w.Failf("C16/conforming-peer-not-attached", "a conforming peer connected to %s but was not attached (attached %d -> %d)", kind, before, attached)
				return nil
			}
		}
		return p
	}
	base := strings.TrimPrefix(kind, "x")
	pairLike := base == "pair" || base == "pair1"
	var hostiles []*c16Peer
	var control *c16Peer
	if !pairLike {
		control = connect(true)
		if control == nil {
			return
		}
	}
	// drain what the application can receive right now
	drain := func() [][]byte {
		var out [][]byte
		if !canRecv(kind) {
			return out
		}
		for i := 0; i < 64; i++ {
			c := w.Do("Recv", func() (interface{}, error) { return s.Recv() })
			c.Wait(20 * time.Millisecond)
			w.Settle()
			if !c.Returned() || c.Err != nil {
				break
			}
			out = append(out, c.Val.([]byte))
		}
		return out
	}
	seq := 0
	controlExchange := func() bool {
		// the control peer's exchange never stops
		if pairLike {
			// PAIR has one peer at a time: the hostile one must be gone first,
			// then a conforming peer must be admitted and served
			for _, h := range hostiles {
				if !h.gone {
					h.c.Reset()
					h.alive, h.gone = false, true
				}
			}
			if control != nil {
				control.c.Close()
			}
			w.Sleep(30 * time.Millisecond)
			w.Settle()
			control = connect(true)
			if control == nil {
				return false
			}
		}
		seq++
		tag := fmt.Sprintf("control-%d", seq)
		if canRecv(kind) && plainInbound(kind) {
			payload := inbound(kind, uint32(seq), tag)
			w.Go("control write", func() { control.c.Write(wcFrame(ipc, payload)) })
			w.Sleep(time.Millisecond)
			w.Settle()
			got := drain()
			found := false
			for _, g := range got {
				if string(g) == tag {
					found = true
				} else if !strings.HasPrefix(string(g), "control-") {
					w.Failf("C16/pollution:"+kind, "%s delivered %q which no well-formed in-limit message dictates", kind, clip(g))
					return false
				}
			}
			if !found {
				w.Failf("C16/control-peer-starved:"+kind, "%s: the well-behaved peer's message %q was not delivered after hostile traffic on other connections", kind, tag)
				return false
			}
			w.Probe("control-exchange-ok")
			w.Delivery++
			return true
		}
		if canSend(kind) && !canRecv(kind) {
			// pub/push: the control peer must keep receiving what the socket sends
			c := w.Do("Send", func() (interface{}, error) { return nil, SendBody(s, kind, []byte(tag)) })
			c.Wait(20 * time.Millisecond)
			w.Settle()
			if !c.Returned() {
				w.Failf("C16/control-peer-starved:"+kind, "%s Send blocks", kind)
				return false
			}
			rc := w.Do("control read", func() (interface{}, error) { return wcReadFrame(control.c, ipc, 1<<20) })
			if !rc.Wait(50*time.Millisecond) || rc.Err != nil {
				// push distributes among peers: hostile ones that completed a handshake may take it
				if strings.HasSuffix(kind, "push") {
					return true
				}
				w.Failf("C16/control-peer-starved:"+kind, "%s: the well-behaved peer no longer receives what the socket sends (%v)", kind, rc.Err)
				return false
			}
			w.Probe("control-exchange-ok")
			w.Delivery++
		}
		return true
	}
	if !controlExchange() {
		return
	}
	body := 0
	for op := 0; op < nops && !w.Failed(); op++ {
		k := w.Choose(simrt.SProg, 12)
		a := w.Choose(simrt.SProg, 1<<16)
		var expect [][]byte
		switch {
		case k == 0: // handshake never completes
			p := connect(false)
			if p == nil {
				return
			}
			if pairLike {
				continue
			}
			w.Sleep(300 * time.Millisecond) // the accept loop pauses 10ms after every failed handshake: let those pass
			w.Settle()
			n := a % 8
			w.Op("hostile: stalls after %d header bytes", n)
			w.Fault("hs-stall")
			p.c.Write(wcHeader(peerProto)[:n])
			w.Settle()
			// another peer attaches at the same instant regardless
			t0 := w.Now()
			before := attached
			c2, _ := nt.Dial(name)
			w.Go("peer hs", func() { c2.Write(wcHeader(peerProto)); wcReadHeader(c2) })
			w.Settle()
			if attached != before+1 || w.Now() != t0 {
				w.Failf("C16/stalled-handshake-delays-others", "a peer that never completes its handshake is connected; a conforming peer connecting now was not attached at the same instant (attached %d -> %d)", before, attached)
				return
			}
			hostiles = append(hostiles, &c16Peer{c: c2, alive: true})
			w.Probe("attach-despite-stalled-handshake")
		case k == 1: // malformed / mismatched handshake
			p := connect(false)
			if p == nil {
				return
			}
			h := wcHeader(peerProto)
			hangup := false
			switch a % 5 {
			case 4:
				// hangs up in an orderly way (FIN, not a reset) after 0..7
				// correct header bytes: a port probe, a health check
				h = h[:a/5%8]
				hangup = true
			case 0:
				h[a/4%8] ^= byte(1 + a/32%255)
			case 1:
				h = wcHeader(0x7777) // some other protocol
			case 2:
				h = []byte("GET / HTTP/1.0\r\n\r\n")
			case 3:
				h = wireBody(8+a%40, a)
			}
			w.Op("hostile: bad handshake % x", clip(h))
			w.Fault("hs-corrupt")
			before := attached
			p.c.Write(h)
			if hangup {
				w.Op("hostile: hangs up after %d header bytes", len(h))
				w.Fault("hs-hangup")
				p.c.Close()
			}
			w.Sleep(time.Millisecond)
			w.Settle()
			if attached != before && (len(h) < 8 || !bytes.Equal(h[:8], wcHeader(peerProto))) {
				w.Failf("C16/bad-handshake-accepted:"+kind, "%s attached a peer after the header % x", kind, clip(h))
				return
			}
			if hangup && !pairLike {
				// the listener goes on accepting: a conforming peer attaches
				q := connect(true)
				if q == nil {
					return
				}
				hostiles = append(hostiles, q)
				w.Probe("attach-after-orderly-hangup")
			}
		default:
			// everything else needs a hostile peer that completed its handshake
			var p *c16Peer
			for _, h := range hostiles {
				if h.alive {
					p = h
				}
			}
			if pairLike && control != nil {
				control.c.Close()
				control = nil
				w.Sleep(30 * time.Millisecond)
				w.Settle()
			}
			if p == nil || (k == 2 && !pairLike) {
				p = connect(true)
				if p == nil {
					return
				}
				hostiles = append(hostiles, p)
			}
			switch {
			case k <= 5: // protocol-level bodies: every short length, and random ones
				n := a % 14
				if k == 5 {
					n = a % 300
				}
				if limit > 0 && n > limit {
					n = limit
				}
				body++
				payload := wireBody(n, body)
				if a%3 == 0 && n >= 4 {
					copy(payload, inboundHeader(kind, uint32(body)))
				}
				w.Op("hostile: well-formed frame, %d-byte payload % x", n, clip(payload))
				w.Fault("msg-malformed")
				p.c.Write(wcFrame(ipc, payload))
				if b, ok := deliverable(kind, payload); ok {
					expect = append(expect, b)
				}
			case k == 6: // sizes around the limit
				if limit == 0 || limit > 2000 {
					continue
				}
				n := limit - 2 + a%5
				if n < 0 {
					n = 0
				}
				body++
				payload := wireBody(n, body)
				if n >= 4 {
					copy(payload, inboundHeader(kind, uint32(body)))
				}
				w.Op("hostile: frame of %d bytes, limit %d", n, limit)
				p.c.Write(wcFrame(ipc, payload))
				if n <= limit {
					if b, ok := deliverable(kind, payload); ok {
						expect = append(expect, b)
					}
					if n == limit {
						w.Probe("frame-equal-to-limit")
					}
				} else {
					p.alive = false
					w.Fault("oversize")
					w.Settle()
					if !c16Closed(w, p) {
						w.Failf("C16/oversize-not-dropped:"+kind, "%s (MaxRecvSize %d): a frame of %d bytes arrived; the connection is still open at the same instant", kind, limit, n)
						return
					}
					w.Probe("over-limit-connection-dropped")
				}
			case k == 7: // huge or negative announcement, no body
				if limit == 0 {
					continue
				}
				var lb [8]byte
				switch a % 4 {
				case 0:
					binary.BigEndian.PutUint64(lb[:], 1<<63-1)
				case 1:
					binary.BigEndian.PutUint64(lb[:], 1<<63) // negative as int64
				case 2:
					binary.BigEndian.PutUint64(lb[:], uint64(limit)+1+uint64(a))
				case 3:
					binary.BigEndian.PutUint64(lb[:], ^uint64(0))
				}
				w.Op("hostile: announces length %#x and sends nothing", lb)
				w.Fault("oversize")
				var pre []byte
				if ipc {
					pre = []byte{1}
				}
				p.c.Write(append(pre, lb[:]...))
				p.alive = false
				w.Settle()
				if !c16Closed(w, p) {
					w.Failf("C16/oversize-not-dropped:"+kind, "%s (MaxRecvSize %d): a peer announced a message of %#x bytes; the connection was not dropped at once", kind, limit, lb)
					return
				}
				if mx, _, _, _, _ := mangos.VerifLedgerStats(); mx > limit && mx > 70000 {
					w.Failf("C16/allocated-announced-size:"+kind, "%s (MaxRecvSize %d): the largest message buffer requested is %d bytes", kind, limit, mx)
					return
				}
				w.Probe("huge-announcement-dropped")
			case k == 8: // truncated frame then silence, or then close
				n := 10 + a%50
				if big := 66000 + 1013*(a%200); a%4 == 3 && (limit == 0 || limit >= big) {
					// a frame beyond the largest buffer class, most of it sent: an
					// end of stream inside it is not the end of the message
					n = big
					w.Probe("large-frame-truncated")
				}
				if limit > 0 && n > limit {
					n = limit
				}
				f := wcFrame(ipc, wireBody(n, a))
				cut := 1 + a%(len(f)-1)
				if n > 60000 {
					cut = len(f) - 1 - (a*7919)%(n/2)
				}
				w.Op("hostile: %d of %d frame bytes, then %s", cut, len(f), []string{"silence", "close"}[a%2])
				w.Fault("junk")
				p.c.Write(f[:cut])
				p.alive = false
				if a%2 == 1 {
					p.c.Close()
				}
			case k == 9: // junk after the handshake
				j := wireBody(1+a%64, a)
				if ipc {
					j[0] = 1
				}
				if limit == 0 {
					// MaxRecvSize 0 = "no limit, trusted peers only": keep the
					// length field that this junk will be read as below 64 KiB
					off := 0
					if ipc {
						off = 1
					}
					for i := off; i < off+6 && i < len(j); i++ {
						j[i] = 0
					}
				}
				// keep the announced length small so this is a (probably) parsable frame start
				w.Op("hostile: junk % x", clip(j))
				w.Fault("junk")
				p.c.Write(j)
				p.alive = false
			case k == 10: // abrupt reset
				w.Op("hostile: resets")
				w.Fault("reset")
				p.c.Reset()
				p.alive = false
			case k == 11:
				w.Sleep(time.Duration(1+a%20) * time.Millisecond)
			}
		}
		w.Sleep(time.Millisecond)
		w.Settle()
		if w.Failed() {
			return
		}
		got := drain()
		if kind == "req" || kind == "surveyor" || !canRecv(kind) {
			if len(got) > 0 {
				w.Failf("C16/pollution:"+kind, "%s delivered %q although no request/survey is outstanding", kind, clip(got[0]))
				return
			}
		} else if k >= 2 && k <= 6 {
			gs, es := asStrings(got), asStrings(expect)
			if strings.Join(gs, "\x00") != strings.Join(es, "\x00") {
				class := "C16/pollution:" + kind
				if len(gs) < len(es) {
					class = "C16/well-formed-message-lost:" + kind
				}
				w.Failf(class, "%s (MaxRecvSize %d): an independent parse of what the hostile peer sent dictates %d deliveries %q; the application received %d: %q", kind, limit, len(es), clipAll(expect), len(got), clipAll(got))
				return
			}
			w.Delivery += len(got)
		} else if len(got) > 0 {
			w.Failf("C16/pollution:"+kind, "%s delivered %q after handshake-level or framing garbage", kind, clip(got[0]))
			return
		}
		if !controlExchange() {
			return
		}
	}
}

func c16Closed(w *W, p *c16Peer) bool {
	// the library closed its end: a read at the peer's end sees EOF / reset
	rc := w.Do("peer read", func() (interface{}, error) {
		buf := make([]byte, 16)
		for {
			_, err := p.c.Read(buf)
			if err != nil {
				return nil, err
			}
		}
	})
	w.Settle()
	return rc.Returned()
}

func asStrings(bs [][]byte) []string {
	var out []string
	for _, b := range bs {
		out = append(out, string(b))
	}
	sort.Strings(out)
	return out
}

func clipAll(bs [][]byte) [][]byte {
	var out [][]byte
	for _, b := range bs {
		out = append(out, clip(b))
	}
	return out
}

func init() {
	register(&Scenario{Name: "hostile-peers", Prop: "C16", Horizon: time.Hour, Weight: 47, Run: c16Run})
}

// c16Real: hostile peers against the real tcp and ws transports on loopback
// (engine R: wall clock, OS scheduling; only timing-free oracles with generous
// real-time bounds). Covers transport/tcp and transport/ws receive paths,
// which the simulator cannot host.
func c16Real(w *W) {
	kind := []string{"pull", "bus", "sub", "pair", "xrep", "xsurveyor", "star"}[w.Choose(simrt.SShape, 7)]
	tran := w.simFallback([]string{"tcp", "ws", "tls+tcp", "wss"}[w.Choose(simrt.SShape, 4)])
	limit := []int{100, 1000, 5000}[w.Choose(simrt.SShape, 3)]
	srvCfg, cliCfg := tlsConfigs()
	// engine R: real sockets. engine B: the same hostile peers against the real
	// tcp / ws / tls+tcp / wss listener code (with crypto/tls, net/http and
	// gorilla) on the simulated network, under the decided schedule
	rawDial := func(hostport string) (net.Conn, error) { return net.Dial("tcp", hostport) }
	if !w.Real {
		srvCfg, cliCfg = simTLS()
		w.UseNet(NetCfg{Segment: w.Choose(simrt.SShape, 2) == 0})
		rawDial = func(hostport string) (net.Conn, error) { return curNet.Dial(NetKey("tcp://" + hostport)) }
	}
	w.SetShape("kind", kind)
	w.SetShape("tran", tran)
	w.SetShape("limit", limit)
	s := w.Sock(kind)
	defer s.Close()
	mustSet(w, s, mangos.OptionMaxRecvSize, limit)
	mustSet(w, s, mangos.OptionRecvDeadline, 80*time.Millisecond)
	if kind == "sub" {
		mustSet(w, s, mangos.OptionSubscribe, "zz-another-topic") // (a non-empty subscription is looked at first)
		mustSet(w, s, mangos.OptionSubscribe, "")
	}
	url := tran + "://" + loopIP + ":0"
	var lopts map[string]interface{}
	if tran == "ws" || tran == "wss" {
		url = tran + "://" + loopIP + ":0/sp"
	}
	if !w.Real {
		url = tran + "://" + NetKey(w.Addr("tcp"))
		if tran == "ws" || tran == "wss" {
			url += "/sp"
		}
	}
	if tran == "tls+tcp" || tran == "wss" {
		lopts = map[string]interface{}{mangos.OptionTLSConfig: srvCfg}
	}
	l, err := s.NewListener(url, lopts)
	if err != nil || l.Listen() != nil {
		w.Failf("HARNESS/listen", "%v", err)
		return
	}
	addr := l.Address()
	hostport := strings.TrimPrefix(strings.TrimPrefix(strings.TrimPrefix(strings.TrimPrefix(addr, "tls+tcp://"), "tcp://"), "wss://"), "ws://")
	hostport = strings.TrimSuffix(hostport, "/sp")
	info := s.Info()
	pairLike := kind == "pair"
	// a conforming connection: returns send(payload) and close
	type peerT struct {
		send  func([]byte) error
		close func()
		alive func() bool // false once mangos closed the connection
		reset func()      // abrupt loss: RST instead of an orderly close
	}
	rst := func(c net.Conn) {
		if tc, ok := c.(*tls.Conn); ok {
			c = tc.NetConn()
		}
		if tcp, ok := c.(*net.TCPConn); ok {
			_ = tcp.SetLinger(0)
		}
		if nc, ok := c.(*NetConn); ok {
			nc.Reset()
			return
		}
		_ = c.Close()
	}
	connect := func() *peerT {
		if tran == "tcp" || tran == "tls+tcp" {
			var c net.Conn
			var err error
			c, err = rawDial(hostport)
			if err == nil && tran == "tls+tcp" {
				tc := tls.Client(c, cliCfg)
				tc.SetDeadline(time.Now().Add(20 * time.Second))
				if err = tc.Handshake(); err != nil {
					c.Close()
				}
				tc.SetDeadline(time.Time{})
				c = tc
			}
			if err != nil {
				return nil
			}
			c.Write(wcHeader(protoOf(peerKind[kind])))
			c.SetReadDeadline(time.Now().Add(20 * time.Second))
			if _, _, err := wcReadHeader(c); err != nil {
				c.Close()
				return nil
			}
			return &peerT{
				send:  func(p []byte) error { _, err := c.Write(wcFrame(false, p)); return err },
				close: func() { c.Close() },
				reset: func() { rst(c) },
				alive: func() bool {
					c.SetReadDeadline(time.Now().Add(10 * time.Second))
					_, err := c.Read(make([]byte, 1))
					ne, ok := err.(net.Error)
					return err == nil || (ok && ne.Timeout())
				},
			}
		}
		d := &websocket.Dialer{Subprotocols: []string{info.SelfName + ".sp.nanomsg.org"}, TLSClientConfig: cliCfg, HandshakeTimeout: 20 * time.Second}
		if !w.Real {
			d.HandshakeTimeout = 0
			d.NetDialContext = func(ctx context.Context, network, a string) (net.Conn, error) { return rawDial(a) }
		}
		c, _, err := d.Dial(addr, nil)
		if err != nil {
			return nil
		}
		return &peerT{
			send:  func(p []byte) error { return c.WriteMessage(websocket.BinaryMessage, p) },
			close: func() { c.Close() },
			reset: func() { rst(c.UnderlyingConn()) },
			alive: func() bool {
				c.SetReadDeadline(time.Now().Add(10 * time.Second))
				_, _, err := c.ReadMessage()
				ne, ok := err.(net.Error)
				return err == nil || (ok && ne.Timeout())
			},
		}
	}
	// drain takes what the application can receive. With expect > 0 it keeps
	// trying (80ms receive deadline per attempt) until that many messages are
	// in or 15s of real time have passed: on a loaded machine "not there after
	// 80ms" means nothing. Oracles that need absence only get the short look.
	drain := func(expect int) [][]byte {
		var out [][]byte
		end := time.Now().Add(15 * time.Second)
		for i := 0; i < 400; i++ {
			b, err := s.Recv()
			if err != nil {
				if len(out) >= expect || time.Now().After(end) {
					break
				}
				continue
			}
			out = append(out, b)
		}
		return out
	}
	seq := 0
	controlOK := func() bool {
		p := connect()
		if p == nil {
			w.Failf("C16/conforming-peer-not-attached", "%s over %s: a conforming peer cannot connect after hostile traffic", kind, tran)
			return false
		}
		defer p.close()
		seq++
		tag := fmt.Sprintf("control-%d", seq)
		w.Sleep(20 * time.Millisecond)
		if err := p.send(inbound(kind, uint32(seq), tag)); err != nil {
			w.Failf("C16/control-peer-starved:"+kind, "control write: %v", err)
			return false
		}
		for _, g := range drain(1) {
			if string(g) == tag {
				w.Probe("control-exchange-ok")
				w.Delivery++
				return true
			}
			if !strings.HasPrefix(string(g), "control-") {
				w.Failf("C16/pollution:"+kind, "%s over %s delivered %q", kind, tran, clip(g))
				return false
			}
		}
		w.Failf("C16/control-peer-starved:"+kind, "%s over %s: the well-behaved peer's message was not delivered after hostile traffic", kind, tran)
		return false
	}
	if !controlOK() {
		return
	}
	nops := 2 + w.Choose(simrt.SShape, 5)
	for op := 0; op < nops && !w.Failed(); op++ {
		k := w.Choose(simrt.SProg, 7)
		a := w.Choose(simrt.SProg, 1<<16)
		switch k {
		case 6: // a conforming, attached peer vanishes with a reset
			if pairLike {
				continue
			}
			p := connect()
			if p == nil {
				w.Failf("C16/conforming-peer-not-attached", "cannot connect")
				return
			}
			w.Sleep(20 * time.Millisecond)
			w.Op("hostile: an attached peer's connection is reset")
			w.Fault("reset")
			p.reset()
		case 0: // raw junk at connection level
			c, err := rawDial(hostport)
			if err != nil {
				continue
			}
			w.Op("hostile: %d junk bytes on a fresh connection", 1+a%200)
			w.Fault("junk")
			c.Write(wireBody(1+a%200, a))
			w.Sleep(10 * time.Millisecond)
			c.Close()
		case 1: // handshake never completes
			c, err := rawDial(hostport)
			if err != nil {
				continue
			}
			w.Op("hostile: connects and stays silent")
			w.Fault("hs-stall")
			w.OnCleanup(func() { c.Close() })
			w.Sleep(30 * time.Millisecond)
			oc := w.Do("Listener.GetOption", func() (interface{}, error) { return l.GetOption(mangos.OptionMaxRecvSize) })
			if !oc.Wait(20 * time.Second) {
				w.Failf("C12/call-never-returns:Listener.GetOption", "%s over %s: a peer connected and stays silent; GetOption on the listener does not return", kind, tran)
				return
			}
			w.Probe("silent-peer-does-not-block-listener")
		case 2, 3: // message around the limit
			if pairLike {
				continue
			}
			p := connect()
			if p == nil {
				w.Failf("C16/conforming-peer-not-attached", "cannot connect")
				return
			}
			n := limit - 1 + a%3
			payload := wireBody(n, a)
			copy(payload, inboundHeader(kind, 7))
			w.Op("hostile: message of %d bytes, limit %d", n, limit)
			w.Sleep(20 * time.Millisecond)
			_ = p.send(payload)
			body, ok := deliverable(kind, payload)
			exp := 0
			if n <= limit && ok {
				exp = 1
			}
			got := drain(exp)
			if n <= limit {
				if ok && (len(got) != 1 || !bytes.Equal(got[0], body)) {
					w.Failf("C16/well-formed-message-lost:"+kind, "%s over %s (MaxRecvSize %d): a %d-byte message was not delivered intact (got %d messages)", kind, tran, limit, n, len(got))
					return
				}
				if n == limit {
					w.Probe("frame-equal-to-limit")
				}
			} else {
				w.Fault("oversize")
				if len(got) != 0 {
					w.Failf("C16/oversize-delivered:"+kind, "%s over %s (MaxRecvSize %d): a %d-byte message was delivered", kind, tran, limit, n)
					return
				}
				if p.alive() {
					w.Failf("C16/oversize-not-dropped:"+kind, "%s over %s (MaxRecvSize %d): after a %d-byte message the connection is still open 10s later", kind, tran, limit, n)
					return
				}
				w.Probe("over-limit-connection-dropped")
			}
			p.close()
		case 4: // tcp: absurd announcement; ws: HTTP without upgrade
			if tran == "tls+tcp" || tran == "wss" {
				continue
			}
			c, err := rawDial(hostport)
			if err != nil {
				continue
			}
			if tran == "tcp" {
				w.Op("hostile: announces 2^63-1 bytes")
				w.Fault("oversize")
				c.Write(wcHeader(protoOf(peerKind[kind])))
				c.Write([]byte{0x7f, 0xff, 0xff, 0xff, 0xff, 0xff, 0xff, 0xff})
				c.SetReadDeadline(time.Now().Add(10 * time.Second))
				buf := make([]byte, 64)
				closed := false
				for i := 0; i < 64; i++ { // (segmented reads may deliver mangos' own header byte by byte)
					if _, err := c.Read(buf); err != nil {
						ne, ok := err.(net.Error)
						closed = !(ok && ne.Timeout())
						break
					}
				}
				if !closed && !pairLike {
					w.Failf("C16/oversize-not-dropped:"+kind, "%s over tcp (MaxRecvSize %d): a peer announced 2^63-1 bytes; the connection is still open 10s later", kind, limit)
					return
				}
				w.Probe("huge-announcement-dropped")
			} else {
				w.Op("hostile: plain HTTP GET without upgrade")
				c.Write([]byte("GET /sp HTTP/1.1\r\nHost: x\r\n\r\n"))
				w.Sleep(20 * time.Millisecond)
			}
			c.Close()
		case 5: // truncated frame then close
			if tran != "tcp" || pairLike {
				continue
			}
			c, err := rawDial(hostport)
			if err != nil {
				continue
			}
			w.Op("hostile: truncated frame")
			w.Fault("junk")
			c.Write(wcHeader(protoOf(peerKind[kind])))
			f := wcFrame(false, wireBody(50, a))
			c.Write(f[:1+a%(len(f)-1)])
			w.Sleep(10 * time.Millisecond)
			c.Close()
		}
		if len(drain(0)) > 0 && k != 2 && k != 3 {
			w.Failf("C16/pollution:"+kind, "%s over %s delivered something after connection-level garbage", kind, tran)
			return
		}
		if !controlOK() {
			return
		}
	}
}

func init() {
	register(&Scenario{Name: "hostile-peers-real-transports", Prop: "C16", Engine: "R", Weight: 1, Run: c16Real})
	register(&Scenario{Name: "hostile-peers-real-listeners-sim", Prop: "C16", Horizon: time.Hour, Weight: 8, Run: c16Real})
}

// impostorProto is a real protocol implementation that announces other
// protocol numbers than its own (inproc has no wire handshake: the transport
// compares the two sockets' announced numbers).
type impostorProto struct {
	mangos.ProtocolBase
	self, peer uint16
}

func (p *impostorProto) Info() mangos.ProtocolInfo {
	i := p.ProtocolBase.Info()
	i.Self, i.Peer = p.self, p.peer
	return i
}

// c16Inproc: a peer that announces the wrong protocol - in either direction,
// or both - is not admitted over inproc either, whichever side dials; a
// conforming peer still is.
func c16Inproc(w *W) {
	kind := allKinds[w.Choose(simrt.SShape, len(allKinds))]
	w.SetShape("kind", kind)
	w.SetShape("tran", "inproc")
	s := w.Sock(kind)
	defer s.Close()
	attached := 0
	s.SetPipeEventHook(func(ev mangos.PipeEvent, p mangos.Pipe) {
		if ev == mangos.PipeEventAttached {
			attached++
		}
	})
	me, pk := protoOf(kind), protoOf(peerKind[kind])
	addr := w.Addr("inproc")
	if err := s.Listen(addr); err != nil {
		w.Failf("HARNESS/listen", "%v", err)
		return
	}
	cases := []struct {
		what       string
		self, peer uint16
	}{
		{"announces another protocol of its own but the right peer", 0x7770, me},
		{"announces the right protocol of its own but expects another peer", pk, 0x7770},
		{"announces other numbers in both directions", 0x7770, 0x7771},
	}
	for i := 0; i < 3 && !w.Failed(); i++ {
		c := cases[w.Choose(simrt.SProg, len(cases))]
		imp := protocol.MakeSocket(&impostorProto{ProtocolBase: protoCtors[peerKind[kind]](), self: c.self, peer: c.peer})
		w.socks = append(w.socks, imp)
		before := attached
		w.Fault("hs-corrupt")
		if w.Choose(simrt.SProg, 2) == 0 {
			w.Op("an inproc peer that %s (%#x/%#x) dials the %s socket", c.what, c.self, c.peer, kind)
			call := w.Do("impostor.Dial", func() (interface{}, error) {
				return nil, imp.DialOptions(addr, map[string]interface{}{mangos.OptionDialAsynch: false})
			})
			if !call.Wait(time.Second) {
				w.Failf("C12/call-never-returns:Dial", "a synchronous inproc Dial by a peer with the wrong protocol numbers does not return")
				return
			}
			if call.Err == nil {
				w.Failf("C16/bad-handshake-accepted:"+kind, "inproc: a peer that %s (self %#x, peer %#x) dialled a %s socket (self %#x, peer %#x) and Dial succeeded", c.what, c.self, c.peer, kind, me, pk)
				return
			}
		} else {
			ia := w.Addr("inproc")
			if err := imp.Listen(ia); err != nil {
				w.Failf("HARNESS/listen", "%v", err)
				return
			}
			w.Op("the %s socket dials an inproc listener that %s (%#x/%#x)", kind, c.what, c.self, c.peer)
			call := w.Do("Dial(impostor)", func() (interface{}, error) {
				return nil, s.DialOptions(ia, map[string]interface{}{mangos.OptionDialAsynch: false})
			})
			if !call.Wait(time.Second) {
				w.Failf("C12/call-never-returns:Dial", "a synchronous inproc Dial to a listener with the wrong protocol numbers does not return")
				return
			}
			if call.Err == nil {
				w.Failf("C16/bad-handshake-accepted:"+kind, "inproc: a %s socket (self %#x, peer %#x) dialled a listener that %s (self %#x, peer %#x) and Dial succeeded", kind, me, pk, c.what, c.self, c.peer)
				return
			}
		}
		w.Sleep(time.Millisecond)
		w.Settle()
		if attached != before {
			w.Failf("C16/bad-handshake-accepted:"+kind, "inproc: the %s socket attached a pipe to a peer that %s", kind, c.what)
			return
		}
		imp.Close()
	}
	good := w.Sock(peerKind[kind])
	defer good.Close()
	if err := good.Dial(addr); err != nil {
		w.Failf("C16/conforming-peer-not-attached", "inproc: after peers with wrong protocol numbers a conforming %s peer cannot dial the %s socket: %v", peerKind[kind], kind, err)
		return
	}
	w.Sleep(time.Millisecond)
	w.Settle()
	if attached == 0 {
		w.Failf("C16/conforming-peer-not-attached", "inproc: a conforming peer dialled the %s socket but nothing was attached", kind)
		return
	}
	w.Probe("inproc-wrong-protocol-refused")
	w.Delivery++
}

func init() {
	register(&Scenario{Name: "inproc-protocol-numbers", Prop: "C16", Horizon: time.Hour, Weight: 3, Run: c16Inproc})
}

// c16ManyStalled: many peers (8-48) connect and never complete their
// handshake - silent, or a few bytes of a header - to a listener on a stream
// transport (also the real tcp / ipc / tls+tcp listener code on the simulated
// network; over tls+tcp the peers are silent before the TLS hello). None of
// them may delay a conforming peer: it connects afterwards (or in the middle),
// must be attached within 50 simulated ms and exchange a message; every call
// on the listener still returns.
func c16ManyStalled(w *W) {
	kind := []string{"pull", "bus", "sub", "pair", "xrep", "xsurveyor", "star", "rep"}[w.Choose(simrt.SShape, 8)]
	tran := w.simFallback([]string{"sim", "simipc", "tcp", "ipc", "tls+tcp", "ws", "wss"}[w.Choose(simrt.SShape, 7)])
	nstall := 8 + w.Choose(simrt.SShape, 41)
	w.SetShape("kind", kind)
	w.SetShape("tran", tran)
	w.SetShape("stalled", nstall)
	nt := w.UseNet(NetCfg{Segment: w.Choose(simrt.SShape, 2) == 0})
	s := w.Sock(kind)
	defer s.Close()
	if kind == "sub" {
		mustSet(w, s, mangos.OptionSubscribe, "")
	}
	attached := 0
	s.SetPipeEventHook(func(ev mangos.PipeEvent, p mangos.Pipe) {
		if ev == mangos.PipeEventAttached {
			attached++
		}
	})
	laddr := w.Addr(tran)
	l, err := s.NewListener(laddr, w.EpOpts(laddr, true, nil))
	if err != nil {
		w.Failf("HARNESS/newlistener", "%v", err)
		return
	}
	if err := l.Listen(); err != nil {
		w.Failf("HARNESS/listen", "%v", err)
		return
	}
	peerProto := protoOf(peerKind[kind])
	var stalled []*NetConn
	stallOne := func() {
		c, err := nt.Dial(NetKey(laddr))
		if err != nil {
			w.Failf("HARNESS/dial", "%v", err)
			return
		}
		w.Fault("hs-stall")
		if tran != "tls+tcp" && tran != "ws" && tran != "wss" {
			if n := w.Choose(simrt.SProg, 8); n > 0 {
				c.Write(wcHeader(peerProto)[:n])
			}
		}
		stalled = append(stalled, c)
	}
	before := w.Choose(simrt.SProg, nstall+1) // so many stall before the good peer connects, the rest while it does
	for i := 0; i < before; i++ {
		stallOne()
		if w.Choose(simrt.SProg, 4) == 0 {
			w.Settle()
		}
	}
	w.Op("%s over %s: %d peers stalled in the handshake, then a conforming peer (and %d more stalling meanwhile)", kind, tran, before, nstall-before)
	good := w.Sock(peerKind[kind])
	defer good.Close()
	if peerKind[kind] == "sub" {
		mustSet(w, good, mangos.OptionSubscribe, "")
	}
	t0 := w.Now()
	dc := w.Do("good.Dial", func() (interface{}, error) {
		return nil, good.DialOptions(laddr, w.EpOpts(laddr, false, map[string]interface{}{mangos.OptionDialAsynch: false}))
	})
	for i := before; i < nstall; i++ {
		stallOne()
	}
	for i := 0; i < 50 && (attached == 0 || !dc.Returned()); i++ {
		w.Sleep(time.Millisecond)
		w.Settle()
	}
	if attached == 0 || !dc.Returned() || dc.Err != nil {
		w.Failf("C16/stalled-handshake-delays-others", "%s over %s: with %d peers stalled in their handshake a conforming peer was not attached within 50ms (attached=%d, Dial returned=%v err=%v, started at %v)%s", kind, tran, nstall, attached, dc.Returned(), dc.Err, t0, w.BlockedReport())
		return
	}
	for _, c := range []*Call{
		w.Do("Listener.GetOption", func() (interface{}, error) { return l.GetOption(mangos.OptionMaxRecvSize) }),
		w.Do("Listener.SetOption", func() (interface{}, error) { return nil, l.SetOption(mangos.OptionMaxRecvSize, 4096) }),
		w.Do("Listener.Address", func() (interface{}, error) { return l.Address(), nil }),
	} {
		if !c.Wait(time.Second) {
			w.Failf("C12/call-never-returns:"+c.Label, "%s over %s: %d peers are stalled in their handshake; %s on the listener does not return%s", kind, tran, nstall, c.Label, w.BlockedReport())
			return
		}
	}
	// one message through the conforming connection, in a direction the pattern has
	from, to, fk := good, s, peerKind[kind]
	if kind == "xsurveyor" {
		from, to, fk = s, good, kind // the survey goes out first
	}
	_ = from.SetOption(mangos.OptionSendDeadline, 100*time.Millisecond)
	_ = to.SetOption(mangos.OptionRecvDeadline, 200*time.Millisecond)
	rc := w.Do("Recv", func() (interface{}, error) { return to.RecvMsg() })
	w.Sleep(time.Millisecond)
	if err := SendBody(from, fk, []byte("after-the-stallers")); err != nil {
		w.Failf("C16/control-peer-starved:"+kind, "%s over %s: Send on the conforming connection: %v", kind, tran, err)
		return
	}
	if !rc.Wait(time.Second) || rc.Err != nil {
		w.Failf("C16/control-peer-starved:"+kind, "%s over %s: with %d stalled peers the conforming peer's message was not delivered (returned=%v err=%v)", kind, tran, nstall, rc.Returned(), rc.Err)
		return
	}
	m := rc.Val.(*mangos.Message)
	if string(m.Body) != "after-the-stallers" {
		w.Failf("C16/pollution:"+kind, "%s over %s delivered %q", kind, tran, clip(m.Body))
	}
	m.Free()
	w.Delivery++
	w.Probe("many-stalled-handshakes")
	// the stallers go away in tape-chosen ways before the hygiene census
	for _, c := range stalled {
		switch w.Choose(simrt.SProg, 3) {
		case 0:
			c.Close()
		case 1:
			c.Reset()
		}
	}
}

func init() {
	register(&Scenario{Name: "many-stalled-handshakes", Prop: "C16", Horizon: time.Hour, Weight: 3, Run: c16ManyStalled})
}

// c16BadBurst: a burst of peers whose handshakes are malformed (wrong magic,
// wrong protocol, garbage) and fail at once, then a conforming peer: it is
// attached within a second of simulated time - failed handshakes cost the
// others next to nothing, however many there were in a row.
func c16BadBurst(w *W) {
	kind := []string{"pull", "bus", "sub", "pair", "xrep", "rep", "star"}[w.Choose(simrt.SShape, 7)]
	tran := w.simFallback([]string{"sim", "simipc", "tcp", "ipc"}[w.Choose(simrt.SShape, 4)])
	nbad := 10 + w.Choose(simrt.SShape, 30)
	w.SetShape("kind", kind)
	w.SetShape("tran", tran)
	w.SetShape("bad", nbad)
	nt := w.UseNet(NetCfg{})
	s := w.Sock(kind)
	defer s.Close()
	if kind == "sub" {
		mustSet(w, s, mangos.OptionSubscribe, "")
	}
	attached := 0
	s.SetPipeEventHook(func(ev mangos.PipeEvent, p mangos.Pipe) {
		if ev == mangos.PipeEventAttached {
			attached++
		}
	})
	laddr := w.Addr(tran)
	if err := w.ListenOn(s, laddr); err != nil {
		w.Failf("HARNESS/listen", "%v", err)
		return
	}
	peerProto := protoOf(peerKind[kind])
	for i := 0; i < nbad; i++ {
		c, err := nt.Dial(NetKey(laddr))
		if err != nil {
			w.Failf("HARNESS/dial", "%v", err)
			return
		}
		h := wcHeader(peerProto)
		switch w.Choose(simrt.SProg, 3) {
		case 0:
			h[1] = 'X' // not an SP header
		case 1:
			h = wcHeader(peerProto ^ 0x3f0) // a protocol that does not pair up
		case 2:
			h[7] = 0xee // reserved byte
		}
		w.Fault("hs-corrupt")
		c.Write(h)
		if w.Choose(simrt.SProg, 3) == 0 {
			w.Sleep(time.Millisecond)
		}
	}
	good := w.Sock(peerKind[kind])
	defer good.Close()
	if peerKind[kind] == "sub" {
		mustSet(w, good, mangos.OptionSubscribe, "")
	}
	t0 := w.Now()
	dc := w.Do("good.Dial", func() (interface{}, error) {
		return nil, good.DialOptions(laddr, w.EpOpts(laddr, false, map[string]interface{}{mangos.OptionDialAsynch: false}))
	})
	for i := 0; i < 1000 && attached == 0; i++ {
		w.Sleep(time.Millisecond)
		w.Settle()
	}
	if attached == 0 || !dc.Returned() || dc.Err != nil {
		w.Failf("C16/bad-handshakes-delay-others:"+kind, "%s over %s: %d peers with malformed handshakes in a row, then a conforming peer: %v later it is not attached (Dial returned=%v err=%v, Attached events %d)", kind, tran, nbad, w.Now()-t0, dc.Returned(), dc.Err, attached)
		return
	}
	w.Delivery++
	w.Probe("attach-after-burst-of-bad-handshakes")
}

func init() {
	register(&Scenario{Name: "burst-of-bad-handshakes", Prop: "C16", Horizon: time.Hour, Weight: 4, Run: c16BadBurst})
}
