package harness

import (
	"errors"
	"fmt"
	"sync"
	"syscall"
	"time"

	"go.nanomsg.org/mangos/v3"
	"go.nanomsg.org/mangos/v3/verifsim/simrt"
)

// C11: sockets are safe for concurrent use. Random programs: 3-6 tasks x 5-30
// calls from the whole public API against a connected socket with background
// traffic. Tier 1 (engine B): no panic, no wedge, every call returns and with a
// result its sequential contract allows. Tier 2 (engine F, -race build): the
// same programs with real parallelism; the Go race detector's reports are
// collected by the driver.

var c11OK = map[string][]error{
	"Send":        {nil, mangos.ErrSendTimeout, mangos.ErrClosed, mangos.ErrProtoState, mangos.ErrProtoOp, mangos.ErrNoPeers, mangos.ErrCanceled},
	"Recv":        {nil, mangos.ErrRecvTimeout, mangos.ErrClosed, mangos.ErrProtoState, mangos.ErrProtoOp, mangos.ErrNoPeers, mangos.ErrCanceled},
	"SetOption":   {nil, mangos.ErrBadOption, mangos.ErrBadValue, mangos.ErrClosed},
	"GetOption":   {nil, mangos.ErrBadOption, mangos.ErrClosed},
	"OpenContext": {nil, mangos.ErrProtoOp, mangos.ErrClosed},
	"Close":       {nil, mangos.ErrClosed},
	"Dial":        {nil, mangos.ErrClosed, mangos.ErrConnRefused, mangos.ErrAddrInUse, mangos.ErrBadProto},
	"Listen":      {nil, mangos.ErrClosed, mangos.ErrAddrInUse},
	"PipeClose":   {nil},
}

func c11Allowed(op string, err error) bool {
	// a synchronous dial over tcp / ipc / tls+tcp to an address nobody listens
	// on fails with the operating system's error, not with mangos' own
	if op == "Dial" && (errors.Is(err, syscall.ECONNREFUSED) || errors.Is(err, syscall.ENOENT)) {
		return true
	}
	for _, e := range c11OK[op] {
		if e == err {
			return true
		}
	}
	return false
}

var c11Opts = []struct {
	name string
	vals []interface{}
}{
	{mangos.OptionRecvDeadline, []interface{}{time.Millisecond, 3 * time.Millisecond}},
	{mangos.OptionSendDeadline, []interface{}{time.Millisecond, 3 * time.Millisecond}},
	{mangos.OptionReadQLen, []interface{}{0, 1, 2, 16}},
	{mangos.OptionWriteQLen, []interface{}{0, 1, 2, 16}},
	{mangos.OptionTTL, []interface{}{1, 3, 8}},
	{mangos.OptionBestEffort, []interface{}{true, false}},
	{mangos.OptionFailNoPeers, []interface{}{true, false}},
	{mangos.OptionRetryTime, []interface{}{time.Millisecond, 10 * time.Millisecond}},
	{mangos.OptionSurveyTime, []interface{}{time.Millisecond, 10 * time.Millisecond}},
	{mangos.OptionMaxRecvSize, []interface{}{0, 100, 100000}},
	{mangos.OptionReconnectTime, []interface{}{time.Millisecond, 5 * time.Millisecond}},
	{mangos.OptionMaxReconnectTime, []interface{}{time.Duration(0), 20 * time.Millisecond}},
	{mangos.OptionDialAsynch, []interface{}{true, false}},
	{mangos.OptionSubscribe, []interface{}{"", "a"}},
	{mangos.OptionUnsubscribe, []interface{}{"", "a"}},
	{mangos.OptionRaw, []interface{}{true}},
	{mangos.OptionKeepAliveTime, []interface{}{time.Second, time.Duration(0)}},
	{mangos.OptionKeepAlive, []interface{}{true, false}},
	{mangos.OptionNoDelay, []interface{}{true, false}},
}

type c11Op struct {
	kind string
	a, b int
}

func c11Run(w *W) {
	kind := allKinds[w.Choose(simrt.SShape, len(allKinds))]
	ntask := 3 + w.Choose(simrt.SShape, 4)
	tran := w.simFallback([]string{"msg", "inproc", "tcp", "ipc", "tls+tcp", "ws", "wss"}[w.Choose(simrt.SShape, 7)]) // tcp / ipc / tls+tcp: the real endpoint code on the simulated network
	w.SetShape("kind", kind)
	w.SetShape("tasks", ntask)
	w.SetShape("tran", tran)
	mn := w.UseMsgNet()
	w.UseNet(NetCfg{})
	s := w.Sock(kind)
	_ = s.SetOption(mangos.OptionRecvDeadline, 2*time.Millisecond)
	_ = s.SetOption(mangos.OptionSendDeadline, 2*time.Millisecond)
	_ = s.SetOption(mangos.OptionReconnectTime, 2*time.Millisecond)
	if kind == "sub" {
		_ = s.SetOption(mangos.OptionSubscribe, "")
	}
	var mu sync.Mutex // guards the harness' own shared state (engine F runs tasks in parallel)
	var pipes []mangos.Pipe
	var dialers []mangos.Dialer
	var listeners []mangos.Listener
	openCtx := 0
	extraPeers := 0
	hookN := 0
	s.SetPipeEventHook(func(ev mangos.PipeEvent, p mangos.Pipe) {
		if ev == mangos.PipeEventAttached {
			mu.Lock()
			pipes = append(pipes, p)
			mu.Unlock()
		}
		if ev == mangos.PipeEventAttaching {
			// an application callback that takes a moment now and then: the
			// accept loop that runs it is away from Accept meanwhile
			mu.Lock()
			hookN++
			slow := hookN%3 == 0
			mu.Unlock()
			if slow {
				simrt.Sleep(300 * time.Microsecond)
			}
		}
	})
	laddr := w.Addr(tran)
	absent := w.Addr(tran) // nobody ever listens here
	var silentL *NetListener
	l0, err := s.NewListener(laddr, w.EpOpts(laddr, true, nil))
	if err != nil || l0.Listen() != nil {
		w.Failf("HARNESS/listen", "%v", err)
		return
	}
	listeners = append(listeners, l0)
	if d0, err := s.NewDialer(absent, w.EpOpts(absent, false, map[string]interface{}{mangos.OptionDialAsynch: true})); err == nil {
		dialers = append(dialers, d0)
		_ = d0.Dial()
	}
	// on the stream transports also a dialer whose peer accepts the connection
	// and then says nothing: its Dial stays in flight for the whole program,
	// and no other call may have to wait for it
	if tran != "msg" && tran != "inproc" && curNet != nil {
		silent := w.Addr(tran)
		if hl, err := curNet.Listen(NetKey(silent)); err == nil {
			silentL = hl
			if d1, err := s.NewDialer(silent, w.EpOpts(silent, false, map[string]interface{}{mangos.OptionDialAsynch: true})); err == nil {
				dialers = append(dialers, d1)
				_ = d1.Dial()
				w.Probe("dial-in-flight-to-silent-peer")
			}
		}
	}
	// peers with background traffic
	stop := w.NewEvent()
	var peers []mangos.Socket
	var mpeers []*MsgPipe
	npeer := 1 + w.Choose(simrt.SShape, 2)
	for i := 0; i < npeer; i++ {
		if tran == "msg" {
			if p := mn.Connect(laddr); p != nil {
				mpeers = append(mpeers, p)
			}
		} else {
			ps := w.Sock(peerKind[kind])
			_ = ps.SetOption(mangos.OptionRecvDeadline, 2*time.Millisecond)
			_ = ps.SetOption(mangos.OptionSendDeadline, 2*time.Millisecond)
			_ = ps.SetOption(mangos.OptionReconnectTime, 2*time.Millisecond)
			if peerKind[kind] == "sub" {
				_ = ps.SetOption(mangos.OptionSubscribe, "")
			}
			if err := w.DialOn(ps, laddr); err == nil {
				peers = append(peers, ps)
			}
		}
	}
	for i, p := range mpeers {
		i, p := i, p
		w.Go("traffic", func() {
			for n := 0; n < 60 && !stop.IsSet(); n++ {
				p.Inject(inbound(kind, uint32(n+1), fmt.Sprintf("bg%d-%d", i, n)))
				p.Take()
				w.Sleep(500 * time.Microsecond)
			}
		})
	}
	for i, ps := range peers {
		i, ps := i, ps
		w.Go("traffic", func() {
			for n := 0; n < 60 && !stop.IsSet(); n++ {
				_ = ps.Send([]byte(fmt.Sprintf("bg%d-%d", i, n)))
				_, _ = ps.Recv()
				w.Sleep(300 * time.Microsecond)
			}
		})
	}
	w.Sleep(time.Millisecond)
	// the program: drawn up front so that it does not depend on the schedule
	progs := make([][]c11Op, ntask)
	closer := w.Choose(simrt.SProg, ntask+2) // task that closes the socket at its end (or nobody)
	for t := range progs {
		n := 5 + w.Choose(simrt.SProg, 26)
		for i := 0; i < n; i++ {
			k := []string{"Send", "Send", "Recv", "Recv", "SetOption", "SetOption", "GetOption", "Context", "Dial", "Listen", "PipeClose", "Sleep", "EndpointOption", "EndpointOption", "PipeOption", "PeerDial", "EndpointClose", "SetHook", "EndpointInfo"}[w.Choose(simrt.SProg, 19)]
			progs[t] = append(progs[t], c11Op{k, w.Choose(simrt.SProg, 1<<16), w.Choose(simrt.SProg, 1<<16)})
		}
		if t == closer {
			progs[t] = append(progs[t], c11Op{"Close", 0, 0})
		}
	}
	for t, prog := range progs {
		var names []string
		for _, o := range prog {
			names = append(names, o.kind)
		}
		w.Op("task%d: %v", t, names)
	}
	check := func(op string, err error) {
		if !c11Allowed(op, err) {
			w.Failf("C11/result-outside-contract:"+op, "%s on %s returned %v while other goroutines used the socket; its sequential contract allows %v", op, kind, err, c11OK[op])
		}
	}
	var calls []*Call
	for t, prog := range progs {
		t, prog := t, prog
		calls = append(calls, w.Do(fmt.Sprintf("task%d", t), func() (interface{}, error) {
			done := 0
			for _, op := range prog {
				if w.Failed() {
					break
				}
				switch op.kind {
				case "Send":
					check("Send", SendBody(s, kind, []byte(fmt.Sprintf("t%d-%d", t, done))))
				case "Recv":
					m, err := s.RecvMsg()
					if m != nil {
						m.Free()
					}
					check("Recv", err)
				case "SetOption":
					o := c11Opts[op.a%len(c11Opts)]
					check("SetOption", s.SetOption(o.name, o.vals[op.b%len(o.vals)]))
				case "GetOption":
					o := c11Opts[op.a%len(c11Opts)]
					_, err := s.GetOption(o.name)
					check("GetOption", err)
				case "Context":
					c, err := s.OpenContext()
					check("OpenContext", err)
					if err == nil {
						_ = c.SetOption(mangos.OptionRecvDeadline, time.Millisecond)
						_ = c.SetOption(mangos.OptionSendDeadline, time.Millisecond)
						check("Send", c.Send([]byte("ctx")))
						_, err := c.Recv()
						check("Recv", err)
						// (at most a handful stay open: the socket's context set is a
						// pointer-keyed map, whose iteration order is reproducible
						// only while it fits one group of 8)
						mu.Lock()
						keep := op.a%2 == 1 && openCtx < 5
						if keep {
							openCtx++
						}
						mu.Unlock()
						if !keep {
							check("Close", c.Close())
						}
					}
				case "Dial":
					d, err := s.NewDialer(absent, w.EpOpts(absent, false, map[string]interface{}{mangos.OptionDialAsynch: true}))
					check("Dial", err)
					if err == nil {
						mu.Lock()
						dialers = append(dialers, d)
						mu.Unlock()
						check("Dial", d.Dial())
					}
				case "Listen":
					mu.Lock()
					na := w.Addr(tran)
					mu.Unlock()
					l, err := s.NewListener(na, w.EpOpts(na, true, nil))
					check("Listen", err)
					if err == nil {
						mu.Lock()
						listeners = append(listeners, l)
						mu.Unlock()
						check("Listen", l.Listen())
					}
				case "PipeClose":
					mu.Lock()
					var p mangos.Pipe
					if len(pipes) > 0 {
						p = pipes[op.a%len(pipes)]
					}
					mu.Unlock()
					if p != nil {
						check("PipeClose", p.Close())
					}
				case "EndpointOption":
					// dialers and listeners forward some options to the transport and
					// others up to the socket: both directions take locks
					o := c11Opts[op.a%len(c11Opts)]
					mu.Lock()
					var ep interface {
						GetOption(string) (interface{}, error)
						SetOption(string, interface{}) error
					}
					if n := len(dialers) + len(listeners); n > 0 {
						i := op.b % n
						if i < len(dialers) {
							ep = dialers[i]
						} else {
							ep = listeners[i-len(dialers)]
						}
					}
					mu.Unlock()
					if ep != nil {
						if op.b%3 == 0 {
							err := ep.SetOption(o.name, o.vals[op.b%len(o.vals)])
							if !c11Allowed("SetOption", err) {
								check("SetOption", err)
							}
						} else {
							_, err := ep.GetOption(o.name)
							if !c11Allowed("GetOption", err) && err != mangos.ErrBadProperty {
								check("GetOption", err)
							}
						}
					}
				case "PipeOption":
					mu.Lock()
					var p mangos.Pipe
					if len(pipes) > 0 {
						p = pipes[op.a%len(pipes)]
					}
					mu.Unlock()
					if p != nil {
						o := c11Opts[op.b%len(c11Opts)]
						_, err := p.GetOption(o.name)
						if !c11Allowed("GetOption", err) && err != mangos.ErrBadProperty {
							check("GetOption", err)
						}
						_ = p.Address()
					}
				case "PeerDial":
					// another socket dials this one synchronously, possibly while
					// this one is being closed or its accept loop is busy: the
					// Dial must come back (attached, refused or closed)
					mu.Lock()
					ok := extraPeers < 4
					if ok {
						extraPeers++
					}
					mu.Unlock()
					if ok {
						ps := w.Sock(peerKind[kind])
						_ = ps.SetOption(mangos.OptionRecvDeadline, 2*time.Millisecond)
						_ = ps.SetOption(mangos.OptionSendDeadline, 2*time.Millisecond)
						// (any of the socket's listeners: inproc waiters of different
						// addresses share one condition variable)
						// (Address takes the transport listener's lock: never call
						// into the library with the harness' own mutex held)
						mu.Lock()
						var tl mangos.Listener
						if n := len(listeners); n > 0 {
							tl = listeners[op.b%n]
						}
						mu.Unlock()
						target := laddr
						if tl != nil {
							target = tl.Address()
						}
						_ = ps.DialOptions(target, w.EpOpts(target, false, map[string]interface{}{mangos.OptionDialAsynch: false}))
						if op.a%2 == 0 {
							_ = ps.Send([]byte("hello"))
						}
						w.Sleep(time.Duration(op.b%1000) * time.Microsecond)
						_ = ps.Close()
					}
				case "EndpointClose":
					// a dialer or listener is closed while others use it and the socket
					mu.Lock()
					var ep interface{ Close() error }
					if n := len(dialers) + len(listeners); n > 1 {
						i := 1 + op.b%(n-1) // (never the first listener: the peers' traffic runs over it)
						if i < len(listeners) {
							ep = listeners[i]
						} else {
							ep = dialers[i-len(listeners)]
						}
					}
					mu.Unlock()
					if ep != nil {
						check("Close", ep.Close())
					}
				case "SetHook":
					// the hook is replaced while connections come and go
					prev := s.SetPipeEventHook(func(ev mangos.PipeEvent, p mangos.Pipe) {
						if ev == mangos.PipeEventAttached {
							mu.Lock()
							pipes = append(pipes, p)
							mu.Unlock()
						}
					})
					if op.a%2 == 0 && prev != nil {
						s.SetPipeEventHook(prev)
					}
				case "EndpointInfo":
					mu.Lock()
					var l mangos.Listener
					var d mangos.Dialer
					var p mangos.Pipe
					if n := len(listeners); n > 0 {
						l = listeners[op.a%n]
					}
					if n := len(dialers); n > 0 {
						d = dialers[op.a%n]
					}
					if n := len(pipes); n > 0 {
						p = pipes[op.b%n]
					}
					mu.Unlock()
					if l != nil {
						_ = l.Address()
					}
					if d != nil {
						_ = d.Address()
					}
					if p != nil {
						_, _, _, _ = p.ID(), p.Listener(), p.Dialer(), p.Address()
					}
					_ = s.Info()
				case "Sleep":
					w.Sleep(time.Duration(op.a%2000) * time.Microsecond)
				case "Close":
					check("Close", s.Close())
				}
				done++
			}
			return done, nil
		}))
	}
	for _, c := range calls {
		if !c.Wait(5 * time.Second) {
			if !w.Free && w.WedgeCheck("C11") {
				return
			}
			w.Failf("C11/call-never-returns", "%s: every call in the program is bounded by a 1-3ms deadline, yet the task has not finished after 5s (completed %v calls)%s", c.Label, c.Val, w.BlockedReport())
			return
		}
		if n, ok := c.Val.(int); ok {
			w.Delivery += n
		}
	}
	stop.Set()
	if silentL != nil {
		// the silent peer hangs up at last (a dial still in flight to a peer
		// that stays silent for ever is C10's dedicated cell, a known finding)
		silentL.Close()
	}
	// the socket is closed by several goroutines at the same moment (or once
	// more, if a task of the program closed it already): every Close returns,
	// nil or the closed error, and at most one of them nil
	var closers []*Call
	for k := 1 + w.Choose(simrt.SProg, 4); k > 0; k-- {
		closers = append(closers, w.Do("Socket.Close(concurrent)", func() (interface{}, error) { return nil, s.Close() }))
	}
	nilCloses := 0
	for _, c := range closers {
		if !c.Wait(5 * time.Second) {
			w.Failf("C11/call-never-returns", "%d goroutines called Socket.Close at the same moment; one has not returned after 5s%s", len(closers), w.BlockedReport())
			return
		}
		if c.Err == nil {
			nilCloses++
		} else if c.Err != mangos.ErrClosed {
			w.Failf("C11/result-outside-contract:Close", "concurrent Socket.Close returned %v", c.Err)
			return
		}
	}
	if nilCloses > 1 {
		w.Failf("C11/result-outside-contract:Close", "%d goroutines closed the socket at the same moment and %d of them were told they had closed it", len(closers), nilCloses)
		return
	}
	if len(closers) > 1 {
		w.Probe("socket-closed-by-several-goroutines-at-once")
	}
	for _, ps := range peers {
		ps.Close()
	}
	w.Sleep(100 * time.Millisecond)
	w.Settle()
	if !w.Free {
		w.WedgeCheck("C11")
	}
}

func init() {
	register(&Scenario{Name: "concurrent-api", Prop: "C11", Horizon: time.Hour, Weight: 4, Run: c11Run})
	register(&Scenario{Name: "concurrent-api-race", Prop: "C11R", Engine: "F", Horizon: time.Hour, Weight: 24, Run: c11Run})
	// "every call returns a result its sequential contract allows" needs a
	// model of what the calls mean; the two checks that have one and overlap
	// their calls run here as well: REQ batches of overlapping Send / Recv /
	// Close explained by a serialisation (C03), REP / RESPONDENT requests
	// answered by two goroutines at once (C05)
	register(&Scenario{Name: "req-calls-linearizable", Prop: "C11", Horizon: 30 * time.Minute, Weight: 1, Run: c03Run})
	register(&Scenario{Name: "concurrent-replies", Prop: "C11", Horizon: time.Hour, Weight: 1, Run: c05Run})
}

// c11InprocTwo: two inproc addresses. The accept loop of address A is away for
// a long time (a slow Attaching callback) with a dialer waiting for it; the
// listener of address B is healthy. inproc keeps the waiters of all addresses
// on one condition variable: dials to B must not be held up by A's state -
// whoever is woken, nobody may be left waiting for a listener that sits in
// Accept.
func c11InprocTwo(w *W) {
	kind := []string{"bus", "pull", "rep", "star", "sub"}[w.Choose(simrt.SShape, 5)]
	w.SetShape("kind", kind)
	w.SetShape("tran", "inproc")
	var all []mangos.Socket
	defer func() {
		for _, s := range all {
			s.Close()
		}
	}()
	const stall = 10 * time.Second
	// both: the accept loops of both addresses are away (B's for twice as
	// long), each with a dialer waiting, B's having started to wait first
	both := w.Choose(simrt.SShape, 2) == 0
	w.SetShape("both_accept_loops_away", both)
	addrs := []string{w.Addr("inproc"), w.Addr("inproc")}
	for ai, a := range addrs {
		ai := ai
		l := w.Sock(kind)
		all = append(all, l)
		n := 0
		l.SetPipeEventHook(func(ev mangos.PipeEvent, p mangos.Pipe) {
			if ev == mangos.PipeEventAttaching && (ai == 0 || both) {
				n++
				if n == 1 {
					simrt.Sleep(stall * time.Duration(1+ai)) // the accept loop is away from Accept
				}
			}
		})
		if err := l.Listen(a); err != nil {
			w.Failf("HARNESS/listen", "%v", err)
			return
		}
	}
	dial := func(i int, a string) *Call {
		d := w.Sock(peerKind[kind])
		all = append(all, d)
		return w.Do(fmt.Sprintf("dialer%d.Dial(%s)", i, a), func() (interface{}, error) {
			return nil, d.DialOptions(a, map[string]interface{}{mangos.OptionDialAsynch: false})
		})
	}
	if both {
		y1 := dial(10, addrs[1])
		w.Settle()
		y2 := dial(11, addrs[1]) // waits for B
		w.Settle()
		x1 := dial(0, addrs[0])
		w.Settle()
		x2 := dial(1, addrs[0]) // waits for A, behind B's waiter
		w.Settle()
		if !y1.Returned() || !x1.Returned() || y2.Returned() || x2.Returned() {
			return // (not the situation this scenario is about)
		}
		w.Sleep(stall + time.Second)
		w.Settle()
		if !x2.Returned() {
			w.WedgeCheck("C11")
			w.Failf("C11/call-never-returns", "%s: the slow callback of its listener returned %v ago and the accept loop is back in Accept (another address's accept loop is still away, with a dialer of its own waiting); the Dial is still waiting%s", x2.Label, time.Second, w.BlockedReport())
			return
		}
		w.Sleep(stall)
		w.Settle()
		if !y2.Returned() {
			w.WedgeCheck("C11")
			w.Failf("C11/call-never-returns", "%s: the slow callback of its listener returned %v ago and the accept loop is back in Accept; the Dial is still waiting%s", y2.Label, time.Second, w.BlockedReport())
			return
		}
		w.Probe("inproc-both-accept-loops-away-all-dials-returned")
		w.Delivery += 4
		return
	}
	x1 := dial(0, addrs[0])
	w.Settle()
	x2 := dial(1, addrs[0]) // waits: A is registered but nobody is in Accept
	w.Settle()
	if !x1.Returned() || x2.Returned() {
		return // (not the situation this scenario is about)
	}
	// several dials to the healthy address, back to back
	nb := 2 + w.Choose(simrt.SProg, 3)
	var ys []*Call
	for i := 0; i < nb; i++ {
		ys = append(ys, dial(2+i, addrs[1]))
		for y := w.Choose(simrt.SProg, 12); y > 0; y-- {
			simrt.Yield()
		}
	}
	w.Sleep(time.Second)
	w.Settle()
	for _, c := range ys {
		if !c.Returned() {
			w.WedgeCheck("C11")
			w.Failf("C11/call-never-returns", "%s: this listener is open and its accept loop is in Accept; another address's accept loop is busy in a callback (with a dialer waiting for it); the synchronous Dial has not returned after 1s%s", c.Label, w.BlockedReport())
			return
		}
	}
	w.Sleep(stall)
	w.Settle()
	if !x2.Returned() {
		w.WedgeCheck("C11")
		w.Failf("C11/call-never-returns", "%s: the slow callback of its listener returned %v ago, the accept loop is back in Accept, the Dial is still waiting%s", x2.Label, time.Second, w.BlockedReport())
		return
	}
	w.Probe("inproc-two-addresses-all-dials-returned")
	w.Delivery += 2 + len(ys)
}

func init() {
	register(&Scenario{Name: "inproc-two-addresses", Prop: "C11", Horizon: time.Hour, Weight: 1, Run: c11InprocTwo})
	// C13 / C12: "the socket, its listener and its dialer carry on accepting
	// and redialling" - a listener that is back in Accept serves the dialer
	// that waits for it, whatever other addresses' listeners are doing
	register(&Scenario{Name: "inproc-listener-back-in-accept-serves-its-waiter", Prop: "C13", Horizon: time.Hour, Weight: 2, Run: c11InprocTwo})
	register(&Scenario{Name: "inproc-listener-back-in-accept-serves-its-waiter", Prop: "C12", Horizon: time.Hour, Weight: 1, Run: c11InprocTwo})
}

// c12InprocWrongProto: an inproc listener is dialled by sockets of a protocol
// it does not speak (refused with a protocol error), before or at the same
// moment as a dial of the right protocol: the refusals cost the listener
// nothing - the right peer attaches at once.
func c12InprocWrongProto(w *W) {
	kind := []string{"rep", "pull", "sub", "bus", "respondent", "pair", "star"}[w.Choose(simrt.SShape, 7)]
	wrongs := []string{"pub", "push", "req", "surveyor", "pair1"}
	nwrong := 1 + w.Choose(simrt.SShape, 3)
	concurrent := w.Choose(simrt.SShape, 2) == 0
	w.SetShape("kind", kind)
	w.SetShape("tran", "inproc")
	w.SetShape("wrong_dials", nwrong)
	w.SetShape("concurrent", concurrent)
	var all []mangos.Socket
	defer func() {
		for _, s := range all {
			s.Close()
		}
	}()
	l := w.Sock(kind)
	all = append(all, l)
	attached := 0
	l.SetPipeEventHook(func(ev mangos.PipeEvent, p mangos.Pipe) {
		if ev == mangos.PipeEventAttached {
			attached++
		}
	})
	addr := w.Addr("inproc")
	if err := l.Listen(addr); err != nil {
		w.Failf("HARNESS/listen", "%v", err)
		return
	}
	w.Settle()
	var wcalls []*Call
	for i := 0; i < nwrong; i++ {
		wk := wrongs[w.Choose(simrt.SProg, len(wrongs))]
		if peerKind[wk] == kind || wk == peerKind[kind] {
			continue
		}
		d := w.Sock(wk)
		all = append(all, d)
		w.Fault("proto-refuse")
		wcalls = append(wcalls, w.Do(fmt.Sprintf("%s.Dial (wrong protocol for %s)", wk, kind), func() (interface{}, error) {
			return nil, d.DialOptions(addr, map[string]interface{}{mangos.OptionDialAsynch: false})
		}))
		if !concurrent {
			w.Settle()
		}
	}
	good := w.Sock(peerKind[kind])
	all = append(all, good)
	gc := w.Do(fmt.Sprintf("%s.Dial (right protocol)", peerKind[kind]), func() (interface{}, error) {
		return nil, good.DialOptions(addr, map[string]interface{}{mangos.OptionDialAsynch: false})
	})
	w.Sleep(time.Second)
	w.Settle()
	for _, c := range wcalls {
		if !c.Returned() {
			w.WedgeCheck("C12")
			w.Failf("C12/call-never-returns", "%s has not returned after 1s%s", c.Label, w.BlockedReport())
			return
		}
		if c.Err == nil {
			w.Failf("C15/wrong-protocol-accepted", "%s to a %s listener over inproc succeeded", c.Label, kind)
			return
		}
	}
	if !gc.Returned() || gc.Err != nil || attached != 1 {
		w.WedgeCheck("C12")
		w.Failf("C12/listener-stopped-accepting", "an inproc %s listener refused %d dial(s) of sockets of other protocols; the dial of a %s socket: returned=%v err=%v, %d pipe(s) attached after 1s%s", kind, len(wcalls), peerKind[kind], gc.Returned(), errName(gc.Err), attached, w.BlockedReport())
		return
	}
	w.Probe("inproc-right-peer-attached-after-wrong-protocol-dials")
	w.Delivery++
}

func init() {
	register(&Scenario{Name: "inproc-wrong-protocol-dials-then-the-right-one", Prop: "C12", Horizon: time.Hour, Weight: 2, Run: c12InprocWrongProto})
}
