package harness

import "strings"

// Per-pattern wire knowledge used by scripted peers (from the SP RFCs:
// request/reply and survey carry a backtrace of 32-bit words ending with one
// whose top bit is set; PAIR1 and STAR carry a 32-bit hop count; the others
// carry no header).

// inboundHeader returns a header a directly connected peer would put in front
// of the body so that a socket of this kind accepts the message. n makes ids
// distinct.
func inboundHeader(kind string, n uint32) []byte {
	switch strings.TrimPrefix(kind, "x") {
	case "rep", "respondent":
		return u32(0x80000000 | n)
	case "req", "surveyor":
		return u32(0x80000000 | n) // only the raw forms accept an arbitrary id
	case "pair1", "star":
		return []byte{0, 0, 0, 0}
	}
	return nil
}

// inbound returns wire bytes a direct peer may send that the socket of this
// kind delivers to the application (raw kinds and header-less patterns; cooked
// req/surveyor need a matching id and are handled by their own benches).
func inbound(kind string, n uint32, body string) []byte {
	return append(inboundHeader(kind, n), body...)
}

func canRecv(kind string) bool {
	switch kind {
	case "pub", "xpub", "push", "xpush":
		return false
	}
	return true
}

func canSend(kind string) bool {
	switch kind {
	case "sub", "xsub", "pull", "xpull":
		return false
	}
	return true
}

func hasContexts(kind string) bool {
	switch kind {
	case "req", "rep", "sub", "surveyor", "respondent":
		return true
	}
	return false
}

// plainInbound: kinds for which inbound() is delivered without any prior
// action of the application.
func plainInbound(kind string) bool {
	switch kind {
	case "req", "surveyor", "pub", "xpub", "push", "xpush", "sub":
		return false
	}
	return true
}

// isRaw reports whether kind is a raw ("x") pattern.
func isRaw(kind string) bool { return strings.HasPrefix(kind, "x") }

// rawHeader returns a well-formed protocol header for an application message
// sent on a raw socket of this kind (pipe = target pipe id for xrep /
// xrespondent).
func rawHeader(kind string, pipe uint32, n uint32) []byte {
	switch kind {
	case "xpair1", "xstar":
		return []byte{0, 0, 0, 0}
	case "xreq", "xsurveyor":
		return u32(0x80000000 | n)
	case "xrep", "xrespondent":
		return append(u32(pipe), u32(0x80000000|n)...)
	}
	return nil
}
