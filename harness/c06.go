package harness

import (
	"bytes"
	"fmt"
	"time"

	"go.nanomsg.org/mangos/v3"
	"go.nanomsg.org/mangos/v3/verifsim/simrt"
)

// C06: SUB delivers exactly the matching messages; PUB reaches every subscriber.

var c6Topics = [][]byte{{}, []byte("a"), []byte("ab"), []byte("abc"), []byte("b"), {0}, {0xff}, {0xff, 0}, []byte("a\x00"), []byte("ab")}

type c6Entry struct {
	body     string
	optional bool
}

type c6Ctx struct {
	idx   int
	c     mangos.Context // nil: the socket's default context
	subs  [][]byte
	queue []c6Entry
	got   int
}

func (c *c6Ctx) matches(b []byte) bool {
	for _, t := range c.subs {
		if bytes.HasPrefix(b, t) {
			return true
		}
	}
	return false
}

func c06Sub(w *W) {
	kind := "sub"
	if w.Choose(simrt.SShape, 6) == 0 {
		kind = "xsub"
	}
	tran := w.simFallback([]string{"inproc", "sim", "simipc", "tcp", "ipc", "tls+tcp", "ws", "wss"}[w.Choose(simrt.SShape, 8)])
	npub := 1 + w.Choose(simrt.SShape, 2)
	nctx := 1
	if kind == "sub" {
		nctx = 1 + w.Choose(simrt.SShape, 3)
	}
	overflow := w.Choose(simrt.SShape, 5) == 0
	qlen := 128
	if overflow {
		qlen = w.Choose(simrt.SShape, 4) // 0: unbuffered, only a Recv already waiting gets a message
	}
	nops := 5 + w.Choose(simrt.SShape, 16)
	w.SetShape("kind", kind)
	w.SetShape("tran", tran)
	w.SetShape("pubs", npub)
	w.SetShape("ctxs", nctx)
	w.SetShape("qlen", qlen)
	w.UseNet(NetCfg{Segment: w.Choose(simrt.SShape, 2) == 0})
	s := w.Sock(kind)
	defer s.Close()
	mustSet(w, s, mangos.OptionReadQLen, qlen)
	mustSet(w, s, mangos.OptionRecvDeadline, time.Millisecond)
	addr := w.Addr(tran)
	if err := w.ListenOn(s, addr); err != nil {
		w.Failf("HARNESS/listen", "%v", err)
		return
	}
	var pubs []mangos.Socket
	for i := 0; i < npub; i++ {
		p := w.Sock("pub")
		defer p.Close()
		if err := w.DialOn(p, addr); err != nil {
			w.Failf("HARNESS/dial", "%v", err)
			return
		}
		pubs = append(pubs, p)
	}
	w.Settle()
	ctxs := []*c6Ctx{{idx: 0}}
	for i := 1; i < nctx; i++ {
		c, err := s.OpenContext()
		if err != nil {
			w.Failf("HARNESS/ctx", "%v", err)
			return
		}
		ctxs = append(ctxs, &c6Ctx{idx: i, c: c})
	}
	// topics are given alternately as a string and as a []byte in a scratch
	// buffer of the caller, which the caller overwrites as soon as the call has
	// returned (it is the caller's: a subscription must not depend on it)
	optN := 0
	setopt := func(c *c6Ctx, n string, v interface{}) error {
		var scratch []byte
		if t, ok := v.([]byte); ok && (n == mangos.OptionSubscribe || n == mangos.OptionUnsubscribe) {
			optN++
			if optN%2 == 0 {
				v = string(t)
			} else {
				scratch = append(make([]byte, 0, len(t)+8), t...)
				v = scratch
			}
		}
		var err error
		if c.c != nil {
			err = c.c.SetOption(n, v)
		} else {
			err = s.SetOption(n, v)
		}
		for i := range scratch {
			scratch[i] = 'z'
		}
		return err
	}
	recv := func(c *c6Ctx) ([]byte, error) {
		if c.c != nil {
			return c.c.Recv()
		}
		return s.Recv()
	}
	seq := 0
	emptySent := false
	published := map[string]bool{}
	// doRecv performs one Recv on c and checks it against the model queue.
	doRecv := func(c *c6Ctx) bool {
		call := w.Do(fmt.Sprintf("ctx%d.Recv", c.idx), func() (interface{}, error) { return recv(c) })
		call.Wait(10 * time.Millisecond)
		w.Settle()
		if !call.Returned() {
			w.Failf("C18/late", "SUB Recv with 1ms deadline still pending")
			return false
		}
		if call.Err != nil {
			if call.Err != mangos.ErrRecvTimeout {
				w.Failf("C06/recv-error", "ctx%d Recv: %v", c.idx, call.Err)
				return false
			}
			if !overflow {
				for _, e := range c.queue {
					if !e.optional {
						w.Failf("C06/matching-message-lost", "ctx%d (topics %q): the published message %q matches, its queue never overflowed, yet Recv finds nothing", c.idx, c.subs, e.body)
						return false
					}
				}
			}
			c.queue = nil
			return false
		}
		b := call.Val.([]byte)
		if !published[string(b)] {
			w.Failf("C06/invented-message", "ctx%d received %q which nobody published", c.idx, b)
			return false
		}
		if kind == "sub" && !c.matches(b) {
			w.Failf("C06/non-matching-delivered", "ctx%d (topics %q) received %q, which matches none of its current subscriptions", c.idx, c.subs, b)
			return false
		}
		// locate it in the model queue
		found := -1
		for i, e := range c.queue {
			if e.body == string(b) {
				found = i
				break
			}
			if !e.optional && !overflow {
				w.Failf("C06/order-or-loss", "ctx%d received %q while the earlier matching message %q has not been delivered (lost, reordered or duplicated)", c.idx, b, e.body)
				return false
			}
		}
		if found < 0 {
			w.Failf("C06/duplicate-or-unexpected", "ctx%d received %q which is not (or no longer) in its expected queue %v", c.idx, b, c.queue)
			return false
		}
		c.queue = c.queue[found+1:]
		c.got++
		w.Delivery++
		return true
	}
	for op := 0; op < nops && !w.Failed(); op++ {
		k := w.Choose(simrt.SProg, 10)
		a := w.Choose(simrt.SProg, 64)
		c := ctxs[a%len(ctxs)]
		switch {
		case k <= 3: // publish 1..3 messages from one publisher, possibly racing a (un)subscribe on some context
			p := pubs[(a/4)%len(pubs)]
			n := 1 + w.Choose(simrt.SProg, 3)
			race := kind == "sub" && w.Choose(simrt.SProg, 4) == 0
			var bodies [][]byte
			for i := 0; i < n; i++ {
				seq++
				t := c6Topics[w.Choose(simrt.SProg, len(c6Topics))]
				body := append(append([]byte(nil), t...), fmt.Sprintf("#%d", seq)...)
				if !emptySent && w.Choose(simrt.SProg, 12) == 0 {
					// a publication with an empty body (once per run, so that it
					// stays identifiable): it matches the empty subscription only
					body = []byte{}
					emptySent = true
					w.Probe("empty-publication")
				}
				bodies = append(bodies, body)
				published[string(body)] = true
			}
			var rc *c6Ctx
			var rtopic []byte
			runsub := false
			if race {
				rc = ctxs[(a/8)%len(ctxs)]
				rtopic = c6Topics[w.Choose(simrt.SProg, len(c6Topics))]
				runsub = w.Choose(simrt.SProg, 2) == 0
				if !runsub && len(rc.subs) > 0 && w.Choose(simrt.SProg, 4) != 0 {
					// (mostly a topic the context really has: that Unsubscribe
					// rebuilds the queue the racing publication is heading for)
					rtopic = rc.subs[w.Choose(simrt.SProg, len(rc.subs))]
				}
				w.Probe("subscribe-races-publish")
			}
			w.Op("pub%d publishes %q (race=%v)", (a/4)%len(pubs), bodies, race)
			pc := w.Do("publish", func() (interface{}, error) {
				for _, b := range bodies {
					if err := SendOwn(p, b); err != nil {
						return nil, err
					}
				}
				return nil, nil
			})
			before := map[*c6Ctx][][]byte{}
			for _, cx := range ctxs {
				before[cx] = append([][]byte(nil), cx.subs...)
			}
			if race {
				name := mangos.OptionUnsubscribe
				if runsub {
					name = mangos.OptionSubscribe
				}
				// (the option call starts somewhere along the publication's way
				// through the publisher, the connection and the subscriber's
				// receiver: the main task lets a drawn number of steps pass first)
				for k := w.Choose(simrt.SProg, 120); k > 0; k-- {
					simrt.Yield()
				}
				rcall := w.Do("race-"+name, func() (interface{}, error) { return nil, setopt(rc, name, rtopic) })
				w.Settle()
				if !rcall.Returned() {
					w.Failf("C12/call-never-returns:SetOption", "%s did not return", name)
					return
				}
				c6Apply(w, rc, name, rtopic, rcall.Err, overflow)
			}
			w.Settle()
			if !pc.Returned() || pc.Err != nil {
				w.Failf("C06/publish-failed", "PUB Send returned=%v err=%v", pc.Returned(), errName(pc.Err))
				return
			}
			for _, cx := range ctxs {
				for _, b := range bodies {
					mb := kind == "xsub" || matchAny(before[cx], b)
					ma := kind == "xsub" || cx.matches(b)
					switch {
					case mb && ma:
						cx.queue = append(cx.queue, c6Entry{string(b), false})
					case mb || ma:
						cx.queue = append(cx.queue, c6Entry{string(b), true})
					}
				}
				if overflow && len(cx.queue) > qlen {
					w.Probe("queue-overflow")
				}
			}
		case k <= 5: // subscribe / unsubscribe (settled)
			if kind != "sub" {
				continue
			}
			name := mangos.OptionSubscribe
			if k == 5 {
				name = mangos.OptionUnsubscribe
			}
			t := c6Topics[w.Choose(simrt.SProg, len(c6Topics))]
			if k == 5 && len(c.subs) > 0 && w.Choose(simrt.SProg, 4) != 0 {
				t = c.subs[w.Choose(simrt.SProg, len(c.subs))]
			}
			call := w.Do(name, func() (interface{}, error) { return nil, setopt(c, name, t) })
			w.Settle()
			if !call.Returned() {
				w.WedgeCheck("C12")
				w.Failf("C12/call-never-returns:SetOption", "%s did not return", name)
				return
			}
			w.Op("ctx%d %s %q -> %v", c.idx, name, t, errName(call.Err))
			c6Apply(w, c, name, t, call.Err, overflow)
		case k <= 8: // receive
			w.Op("ctx%d Recv", c.idx)
			doRecv(c)
		case k == 9 && kind == "sub" && a%4 == 1 && len(ctxs) < 5:
			// a context opened in the middle of the history, after the socket
			// and other contexts have subscriptions and queued messages: it
			// starts with no subscription (matches nothing) and shares none
			nc, err := s.OpenContext()
			if err != nil {
				w.Failf("C06/open-context", "OpenContext: %v", err)
				return
			}
			_ = nc.SetOption(mangos.OptionRecvDeadline, time.Millisecond)
			ctxs = append(ctxs, &c6Ctx{idx: len(ctxs), c: nc})
			w.Op("open context ctx%d", len(ctxs)-1)
			w.Probe("context-opened-mid-history")
		case k == 9:
			// a Recv that is already blocked must survive a subscription change on
			// its own context and still get the next matching message
			if kind != "sub" || len(c.queue) > 0 || overflow {
				w.Sleep(time.Duration(1+a) * time.Millisecond)
				break
			}
			if !doRecvEmpty(w, c, recv) {
				return
			}
			_ = setopt(c, mangos.OptionRecvDeadline, 200*time.Millisecond)
			blocked := w.Do(fmt.Sprintf("ctx%d.Recv(blocked)", c.idx), func() (interface{}, error) { return recv(c) })
			w.Settle()
			name := mangos.OptionSubscribe
			t := c6Topics[w.Choose(simrt.SProg, len(c6Topics))]
			if len(c.subs) > 1 && w.Choose(simrt.SProg, 2) == 0 {
				name = mangos.OptionUnsubscribe
				t = c.subs[w.Choose(simrt.SProg, len(c.subs))]
			}
			call := w.Do(name, func() (interface{}, error) { return nil, setopt(c, name, t) })
			w.Settle()
			if !call.Returned() {
				w.Failf("C12/call-never-returns:SetOption", "%s did not return while a Recv was blocked", name)
				return
			}
			c6Apply(w, c, name, t, call.Err, overflow)
			w.Op("ctx%d %s %q while a Recv is blocked", c.idx, name, t)
			_ = setopt(c, mangos.OptionRecvDeadline, time.Millisecond)
			if len(c.subs) == 0 || blocked.Returned() {
				blocked.Wait(300 * time.Millisecond)
				break
			}
			seq++
			body := append(append([]byte(nil), c.subs[0]...), fmt.Sprintf("#%d", seq)...)
			published[string(body)] = true
			if err := SendOwn(pubs[0], body); err != nil {
				w.Failf("C06/publish-failed", "%v", err)
				return
			}
			w.Sleep(time.Millisecond)
			w.Settle()
			for _, cx := range ctxs {
				if cx != c && cx.matches(body) {
					cx.queue = append(cx.queue, c6Entry{string(body), false})
				}
			}
			if !blocked.Returned() || blocked.Err != nil || string(blocked.Val.([]byte)) != string(body) {
				blocked.Wait(300 * time.Millisecond)
				w.Failf("C06/matching-message-lost", "ctx%d: a Recv was blocked (200ms deadline) when %s(%q) was applied; the matching message %q published right after was not handed to it (returned=%v err=%v)", c.idx, name, t, body, blocked.Returned(), errName(blocked.Err))
				return
			}
			w.Probe("blocked-recv-survives-subscription-change")
			w.Delivery++
		}
		w.Settle()
	}
	// drain every context: everything mandatory must come out
	for _, c := range ctxs {
		for i := 0; i < 400 && !w.Failed(); i++ {
			if !doRecv(c) {
				break
			}
		}
	}
}

func matchAny(subs [][]byte, b []byte) bool {
	for _, t := range subs {
		if bytes.HasPrefix(b, t) {
			return true
		}
	}
	return false
}

// c6Apply applies a returned Subscribe/Unsubscribe to the model.
func c6Apply(w *W, c *c6Ctx, name string, t []byte, err error, overflow bool) {
	has := -1
	for i, x := range c.subs {
		if bytes.Equal(x, t) {
			has = i
		}
	}
	if name == mangos.OptionSubscribe {
		if err != nil {
			w.Failf("C06/subscribe-failed", "Subscribe(%q): %v", t, err)
			return
		}
		if has < 0 {
			c.subs = append(c.subs, append([]byte(nil), t...))
		}
		return
	}
	if has < 0 {
		if err != mangos.ErrBadValue {
			w.Failf("C06/unsubscribe-unknown-topic", "Unsubscribe(%q) of a topic that is not subscribed returned %v", t, errName(err))
		}
		return
	}
	if err != nil {
		w.Failf("C06/unsubscribe-failed", "Unsubscribe(%q): %v", t, err)
		return
	}
	c.subs = append(c.subs[:has], c.subs[has+1:]...)
	// queued messages that no longer match must not be delivered any more
	var q []c6Entry
	for _, e := range c.queue {
		if c.matches([]byte(e.body)) {
			q = append(q, e)
		}
	}
	if len(q) < len(c.queue) {
		w.Probe("unsubscribe-dropped-queued")
	}
	c.queue = q
	w.Probe("unsubscribe-filters-queue")
}

// c06Pub: a PUB (or XPUB) socket with scripted subscribers: every message goes
// to every connected subscriber, once, in order, unmodified.
func c06Pub(w *W) {
	kind := []string{"pub", "xpub"}[w.Choose(simrt.SShape, 2)]
	nsub := 1 + w.Choose(simrt.SShape, 4)
	nmsg := 1 + w.Choose(simrt.SShape, 12)
	nsend := 1 + w.Choose(simrt.SShape, 3)
	w.SetShape("kind", kind)
	w.SetShape("subs", nsub)
	w.SetShape("senders", nsend)
	mn := w.UseMsgNet()
	addr := w.Addr("msg")
	s := w.Sock(kind)
	defer s.Close()
	if err := w.ListenOn(s, addr); err != nil {
		w.Failf("HARNESS/listen", "%v", err)
		return
	}
	var pipes []*MsgPipe
	for i := 0; i < nsub; i++ {
		mn.ConnectWith(addr, func(p *MsgPipe) { pipes = append(pipes, p) })
	}
	w.Settle()
	var calls []*Call
	sent := map[int][]string{}
	for t := 0; t < nsend; t++ {
		t := t
		for i := 0; i < nmsg; i++ {
			sent[t] = append(sent[t], fmt.Sprintf("t%d-%d", t, i))
		}
		calls = append(calls, w.Do(fmt.Sprintf("sender%d", t), func() (interface{}, error) {
			for _, b := range sent[t] {
				if err := SendOwn(s, []byte(b)); err != nil {
					return nil, err
				}
			}
			return nil, nil
		}))
	}
	// a subscriber may join or leave meanwhile
	if w.Choose(simrt.SProg, 3) == 0 && len(pipes) > 1 {
		w.Fault("close")
		pipes[0].ClosePeer()
	}
	w.Settle()
	for _, c := range calls {
		if !c.Returned() || c.Err != nil {
			w.Failf("C06/publish-failed", "%s returned=%v err=%v", c.Label, c.Returned(), errName(c.Err))
			return
		}
	}
	for _, p := range pipes {
		if !p.Open() {
			continue
		}
		next := map[int]int{}
		for _, m := range p.Sent() {
			if len(m.Header) != 0 {
				w.Failf("C06/pub-header", "%s put a header %x on a publication", kind, m.Header)
				return
			}
			var t, i int
			if _, err := fmt.Sscanf(string(m.Body), "t%d-%d", &t, &i); err != nil {
				w.Failf("C06/invented-message", "subscriber %s got %q", p.Name, m.Body)
				return
			}
			if i != next[t] {
				w.Failf("C06/pub-order-or-loss", "subscriber %s got %q from sender %d but expected its message %d next", p.Name, m.Body, t, next[t])
				return
			}
			next[t]++
			w.Delivery++
		}
		for t := 0; t < nsend; t++ {
			// 128-deep per-pipe queue and an unbounded reader: nothing may be dropped
			if next[t] != nmsg && nsend*nmsg <= 100 {
				w.Failf("C06/pub-not-to-every-subscriber", "subscriber %s received %d of sender %d's %d messages", p.Name, next[t], t, nmsg)
				return
			}
		}
	}
}

func init() {
	register(&Scenario{Name: "sub-matching", Prop: "C06", Horizon: time.Hour, Weight: 60, Run: c06Sub})
	register(&Scenario{Name: "pub-fanout", Prop: "C06", Horizon: time.Hour, Weight: 20, Run: c06Pub})
}

// doRecvEmpty makes sure nothing is queued for c in the real socket either.
func doRecvEmpty(w *W, c *c6Ctx, recv func(*c6Ctx) ([]byte, error)) bool {
	for i := 0; i < 200; i++ {
		call := w.Do("drain", func() (interface{}, error) { return recv(c) })
		call.Wait(10 * time.Millisecond)
		w.Settle()
		if !call.Returned() {
			return false
		}
		if call.Err != nil {
			return true
		}
	}
	return false
}

// c06UnsubRace: a publication is on its way into a SUB context (from a
// scripted publisher, so that the arrival is a few steps long) while an
// unrelated topic of that context is unsubscribed: the publication matches a
// subscription the context has before and after, so it is delivered - exactly
// once, whichever of the two got there first, and the Unsubscribe returns.
func c06UnsubRace(w *W) {
	useCtx := w.Choose(simrt.SShape, 2) == 0
	rounds := 2 + w.Choose(simrt.SShape, 6)
	qlen := []int{1, 2, 128}[w.Choose(simrt.SShape, 3)]
	w.SetShape("ctx", useCtx)
	w.SetShape("rounds", rounds)
	w.SetShape("qlen", qlen)
	mn := w.UseMsgNet()
	addr := w.Addr("msg")
	s := w.Sock("sub")
	defer s.Close()
	mustSet(w, s, mangos.OptionReadQLen, qlen)
	var obj interface {
		SetOption(string, interface{}) error
		Recv() ([]byte, error)
	} = s
	if useCtx {
		c, err := s.OpenContext()
		if err != nil {
			w.Failf("HARNESS/ctx", "%v", err)
			return
		}
		obj = c
	}
	mustSet(w, obj, mangos.OptionSubscribe, "keep/")
	mustSet(w, obj, mangos.OptionRecvDeadline, 5*time.Millisecond)
	if err := w.ListenOn(s, addr); err != nil {
		w.Failf("HARNESS/listen", "%v", err)
		return
	}
	p := mn.Connect(addr)
	w.Settle()
	if p == nil {
		w.Failf("HARNESS/connect", "no connection")
		return
	}
	for r := 0; r < rounds && !w.Failed(); r++ {
		mustSet(w, obj, mangos.OptionSubscribe, "other/")
		w.Settle()
		body := fmt.Sprintf("keep/%d", r)
		p.Inject([]byte(body))
		for k := w.Choose(simrt.SProg, 14); k > 0; k-- {
			simrt.Yield()
		}
		uc := w.Do("Unsubscribe(other/)", func() (interface{}, error) { return nil, obj.SetOption(mangos.OptionUnsubscribe, "other/") })
		w.Settle()
		if !uc.Returned() {
			if !w.WedgeCheck("C12") {
				w.Failf("C12/call-never-returns:SetOption", "Unsubscribe of an unrelated topic does not return while a publication arrives")
			}
			return
		}
		if uc.Err != nil {
			w.Failf("C06/unsubscribe-failed", "Unsubscribe(other/): %v", uc.Err)
			return
		}
		rc := w.Do("Recv", func() (interface{}, error) { return obj.Recv() })
		rc.Wait(20 * time.Millisecond)
		w.Settle()
		if !rc.Returned() || rc.Err != nil || string(rc.Val.([]byte)) != body {
			w.Failf("C06/matching-message-lost", "the context is subscribed to keep/ throughout; %q arrived while the unrelated topic other/ was being unsubscribed; Recv returned=%v (%q, %v)", body, rc.Returned(), rc.Val, rc.Err)
			return
		}
		rc2 := w.Do("Recv(nothing more)", func() (interface{}, error) { return obj.Recv() })
		rc2.Wait(20 * time.Millisecond)
		w.Settle()
		if rc2.Returned() && rc2.Err == nil {
			w.Failf("C06/duplicate-or-unexpected", "%q was delivered once already; another Recv returned %q", body, rc2.Val)
			return
		}
		w.Delivery++
	}
	w.Probe("unsubscribe-races-an-arriving-publication")
}

func init() {
	register(&Scenario{Name: "sub-unsubscribe-races-arrival", Prop: "C06", Horizon: time.Hour, Weight: 3, Run: c06UnsubRace})
}
