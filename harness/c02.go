package harness

import (
	"fmt"
	"sort"
	"strings"
	"time"

	"go.nanomsg.org/mangos/v3"
	"go.nanomsg.org/mangos/v3/verifsim/simrt"
)

// C02: PAIR and PUSH/PULL deliver each message exactly once, in order.

type c2Recv struct {
	name string
	s    mangos.Socket
	got  []string
	pipe []uint32 // pipe id each message arrived on
	done *Call
	// keep, when set, selects messages the application keeps instead of
	// releasing them (to use the same Message object again later)
	keep func(body string) bool
	kept []*mangos.Message
}

func c2StartReceiver(w *W, name string, s mangos.Socket, idle time.Duration) *c2Recv {
	r := &c2Recv{name: name, s: s}
	mustSet(w, s, mangos.OptionRecvDeadline, idle)
	r.done = w.Do("receiver "+name, func() (interface{}, error) {
		for {
			m, err := s.RecvMsg()
			if err == mangos.ErrRecvTimeout {
				continue // idle: keep receiving until the socket is closed
			}
			if err != nil {
				return nil, err
			}
			r.got = append(r.got, string(m.Body))
			var id uint32
			if m.Pipe != nil {
				id = m.Pipe.ID()
			}
			r.pipe = append(r.pipe, id)
			if r.keep != nil && r.keep(string(m.Body)) {
				r.kept = append(r.kept, m)
			} else {
				m.Free()
			}
			w.Delivery++
		}
	})
	return r
}

// c2CheckOrder: per (pipe, sender) the sequence numbers ascend; no duplicates.
func c2CheckOrder(w *W, r *c2Recv, key string) bool {
	seen := map[string]bool{}
	last := map[string]int{}
	for i, b := range r.got {
		if seen[b] {
			w.Failf("C02/duplicate:"+key, "%s received %q twice", r.name, b)
			return false
		}
		seen[b] = true
		var snd string
		var seq int
		parts := strings.Split(b, ":")
		if len(parts) != 3 {
			w.Failf("C02/invented:"+key, "%s received %q which nobody sent", r.name, b)
			return false
		}
		snd = parts[0] + ":" + parts[1]
		fmt.Sscanf(parts[2], "%d", &seq)
		k := fmt.Sprintf("%d/%s", r.pipe[i], snd)
		if l, ok := last[k]; ok && seq < l {
			w.Failf("C02/reordered:"+key, "%s received %s seq %d after seq %d on the same connection", r.name, snd, seq, l)
			return false
		}
		last[k] = seq
	}
	return true
}

func c2Senders(w *W, s mangos.Socket, kind, who string, nsend, nmsg int, accepted map[string]bool) []*Call {
	var calls []*Call
	for t := 0; t < nsend; t++ {
		t := t
		calls = append(calls, w.Do(fmt.Sprintf("sender %s:%d", who, t), func() (interface{}, error) {
			for i := 0; i < nmsg; i++ {
				b := fmt.Sprintf("%s:%d:%d", who, t, i)
				if err := SendBody(s, kind, []byte(b)); err != nil {
					return i, err
				}
				accepted[b] = true
			}
			return nmsg, nil
		}))
	}
	return calls
}

func c02Pair(w *W) {
	kind := []string{"pair", "xpair", "pair1", "xpair1"}[w.Choose(simrt.SShape, 4)]
	tran := w.simFallback([]string{"inproc", "sim", "simipc", "tcp", "ipc", "tls+tcp", "ws", "wss"}[w.Choose(simrt.SShape, 8)])
	qs := []int{0, 1, 2, 128}
	wq, rq := qs[w.Choose(simrt.SShape, 4)], qs[w.Choose(simrt.SShape, 4)]
	nsend := 1 + w.Choose(simrt.SShape, 3)
	nmsg := 1 + w.Choose(simrt.SShape, 12)
	extra := w.Choose(simrt.SShape, 3)
	// dialOut: instead of others dialling A, A itself (which has its peer)
	// also dials a second PAIR socket C: A's own protocol refuses that
	// connection for as long as B is there, and must take it once B has gone
	dialOut := w.Choose(simrt.SShape, 4) == 0
	if dialOut {
		extra = 0
	}
	w.SetShape("dialout", dialOut)
	w.SetShape("kind", kind)
	w.SetShape("tran", tran)
	w.SetShape("wq", wq)
	w.SetShape("rq", rq)
	w.SetShape("senders", nsend)
	w.SetShape("extra", extra)
	w.UseNet(NetCfg{Segment: w.Choose(simrt.SShape, 2) == 0, BufCap: []int{0, 64, 300}[w.Choose(simrt.SShape, 3)], Latency: []time.Duration{0, 0, 200 * time.Microsecond}[w.Choose(simrt.SShape, 3)]})
	qkey := fmt.Sprintf("%s:wq=%d:rq=%d", kind, wq, rq)
	a, b := w.Sock(kind), w.Sock(kind)
	var extras []mangos.Socket
	defer func() {
		a.Close()
		b.Close()
		for _, e := range extras {
			e.Close()
		}
	}()
	for _, s := range []mangos.Socket{a, b} {
		mustSet(w, s, mangos.OptionWriteQLen, wq)
		mustSet(w, s, mangos.OptionReadQLen, rq)
		mustSet(w, s, mangos.OptionReconnectTime, 20*time.Millisecond)
	}
	addr := w.Addr(tran)
	attA := 0
	// the application may turn the first connection attempts away (closing the
	// pipe in its Attaching callback, the documented way): such a pipe never
	// was the peer, and the next attempt is admitted
	turnAway := []int{0, 0, 1, 2}[w.Choose(simrt.SShape, 4)]
	w.SetShape("turned_away_first", turnAway)
	a.SetPipeEventHook(func(ev mangos.PipeEvent, p mangos.Pipe) {
		if ev == mangos.PipeEventAttaching && turnAway > 0 {
			turnAway--
			w.Fault("reject-hook")
			_ = p.Close()
			w.Probe("peer-turned-away-in-attaching-hook")
			return
		}
		if ev == mangos.PipeEventAttached {
			attA++
		}
	})
	if err := w.ListenOn(a, addr); err != nil {
		w.Failf("HARNESS/listen", "%v", err)
		return
	}
	if err := w.DialOn(b, addr); err != nil {
		w.Failf("HARNESS/dial", "%v", err)
		return
	}
	for i := 0; i < 400 && attA == 0; i++ {
		w.Sleep(time.Millisecond)
		w.Settle()
	}
	if attA != 1 {
		if w.Shape["turned_away_first"] != 0 {
			w.Failf("C02/pair-not-readmitting", "%s over %s: the first connection attempt(s) were turned away by the application's Attaching callback; 400ms (20 reconnect intervals) later no peer has been admitted (attached=%d)", kind, tran, attA)
			return
		}
		w.Failf("HARNESS/attach", "A-B did not attach (attA=%d)", attA)
		return
	}
	attA = 0
	ra := c2StartReceiver(w, "A", a, 300*time.Millisecond)
	rb := c2StartReceiver(w, "B", b, 300*time.Millisecond)
	accepted := map[string]bool{}
	calls := c2Senders(w, a, kind, "A", nsend, nmsg, accepted)
	calls = append(calls, c2Senders(w, b, kind, "B", 1, nmsg, accepted)...)
	var c mangos.Socket
	if dialOut {
		c = w.Sock(kind)
		extras = append(extras, c)
		addr2 := w.Addr(tran)
		if err := w.ListenOn(c, addr2); err != nil {
			w.Failf("HARNESS/listen", "%v", err)
			return
		}
		d, err := a.NewDialer(addr2, w.EpOpts(addr2, false, map[string]interface{}{mangos.OptionDialAsynch: true, mangos.OptionReconnectTime: 20 * time.Millisecond, mangos.OptionMaxReconnectTime: 20 * time.Millisecond}))
		if err == nil {
			err = d.Dial()
		}
		if err != nil {
			w.Failf("HARNESS/dial-out", "%v", err)
			return
		}
		w.Fault("proto-refuse")
	}
	// others try to join meanwhile
	for i := 0; i < extra; i++ {
		e := w.Sock(kind)
		mustSet(w, e, mangos.OptionReconnectTime, 20*time.Millisecond)
		mustSet(w, e, mangos.OptionDialAsynch, true)
		extras = append(extras, e)
		if err := w.DialOn(e, addr); err != nil {
			w.Failf("HARNESS/extra-dial", "%v", err)
			return
		}
		w.Fault("proto-refuse")
	}
	for _, c := range calls {
		if !c.Wait(20 * time.Second) {
			w.WedgeCheck("C12")
			w.Failf("C02/send-never-completes:"+qkey, "%s: both ends are receiving and connected, yet %s has not finished after 20s (it sent %v messages)", qkey, c.Label, c.Val)
			return
		}
		if c.Err != nil {
			w.Failf("C02/send-failed:"+qkey, "%s: %v", c.Label, c.Err)
			return
		}
	}
	w.Sleep(time.Second)
	w.Settle()
	if attA > 0 {
		w.Failf("C02/second-pair-peer-admitted", "the PAIR socket A reported %d more Attached pipes while its first peer was connected", attA)
		return
	}
	for _, r := range []*c2Recv{ra, rb} {
		if !c2CheckOrder(w, r, qkey) {
			return
		}
	}
	got := map[string]bool{}
	for _, x := range ra.got {
		got[x] = true
	}
	for _, x := range rb.got {
		got[x] = true
	}
	var missing []string
	for x := range accepted {
		if !got[x] {
			missing = append(missing, x)
		}
	}
	sort.Strings(missing)
	if len(missing) > 0 {
		w.Failf("C02/lost:"+qkey, "%s over %s: %d accepted messages never arrived although the connection stayed up: %v", qkey, tran, len(missing), missing)
		return
	}
	for _, x := range ra.got {
		if !strings.HasPrefix(x, "B:") {
			w.Failf("C02/misdelivered:"+qkey, "A received %q", x)
			return
		}
	}
	// the first peer goes; one of the others must get in and be able to talk
	if extra > 0 {
		b.Close()
		w.Sleep(500 * time.Millisecond)
		w.Settle()
		if attA == 0 {
			w.Failf("C02/pair-not-readmitting", "the first peer left 500ms ago, %d other sockets keep redialling every 20ms, none was attached", extra)
			return
		}
		w.Probe("pair-second-peer-after-first-left")
	}
	if dialOut {
		b.Close()
		w.Sleep(500 * time.Millisecond)
		w.Settle()
		if attA == 0 {
			w.Failf("C02/pair-not-readmitting", "A's first peer left 500ms ago; A's own dialer to the listening PAIR socket C redials every 20ms, yet A attached nothing")
			return
		}
		rc := c2StartReceiver(w, "C", c, 300*time.Millisecond)
		call := w.Do("A.Send(to C)", func() (interface{}, error) { return nil, SendBody(a, kind, []byte("A:to-C")) })
		if !call.Wait(5*time.Second) || call.Err != nil {
			w.Failf("C02/send-never-completes:"+qkey+":second-peer", "A is connected to its second peer C, Send returned=%v err=%v", call.Returned(), call.Err)
			return
		}
		w.Sleep(time.Second)
		w.Settle()
		ok := false
		for _, x := range rc.got {
			ok = ok || x == "A:to-C"
		}
		if !ok {
			w.Failf("C02/lost:"+qkey+":second-peer", "the message A sent to its second peer C never arrived (C got %v)", rc.got)
			return
		}
		w.Probe("pair-dials-second-peer-after-first-left")
	}
}

func c02Push(w *W) {
	kind := []string{"push", "xpush"}[w.Choose(simrt.SShape, 2)]
	pkind := []string{"pull", "xpull"}[w.Choose(simrt.SShape, 2)]
	tran := w.simFallback([]string{"inproc", "sim", "simipc", "tcp", "ipc", "tls+tcp", "ws", "wss"}[w.Choose(simrt.SShape, 8)])
	qs := []int{0, 1, 2, 128}
	wq, rq := qs[w.Choose(simrt.SShape, 4)], qs[w.Choose(simrt.SShape, 4)]
	npull := 1 + w.Choose(simrt.SShape, 3)
	nsend := 1 + w.Choose(simrt.SShape, 3)
	nmsg := 1 + w.Choose(simrt.SShape, 12)
	faulty := w.Choose(simrt.SShape, 4) == 0 && npull > 1
	w.SetShape("kind", kind)
	w.SetShape("pull", pkind)
	w.SetShape("tran", tran)
	w.SetShape("wq", wq)
	w.SetShape("rq", rq)
	w.SetShape("pulls", npull)
	w.SetShape("senders", nsend)
	w.SetShape("faulty", faulty)
	w.UseNet(NetCfg{Segment: w.Choose(simrt.SShape, 2) == 0, BufCap: []int{0, 64, 300}[w.Choose(simrt.SShape, 3)]})
	qkey := fmt.Sprintf("%s:wq=%d", kind, wq)
	s := w.Sock(kind)
	defer s.Close()
	mustSet(w, s, mangos.OptionWriteQLen, wq)
	addr := w.Addr(tran)
	if err := w.ListenOn(s, addr); err != nil {
		w.Failf("HARNESS/listen", "%v", err)
		return
	}
	var recvs []*c2Recv
	var pulls []mangos.Socket
	victim := 0
	stalledVictim := false
	if faulty {
		victim = w.Choose(simrt.SProg, npull)
		stalledVictim = w.Choose(simrt.SProg, 2) == 0
	}
	for i := 0; i < npull; i++ {
		p := w.Sock(pkind)
		defer p.Close()
		mustSet(w, p, mangos.OptionReadQLen, rq)
		if err := w.DialOn(p, addr); err != nil {
			w.Failf("HARNESS/dial", "%v", err)
			return
		}
		pulls = append(pulls, p)
		if stalledVictim && i == victim {
			// this one never reads: what is sent to it stays in flight until it goes
			recvs = append(recvs, &c2Recv{name: fmt.Sprintf("pull%d", i), s: p})
			w.Probe("stalled-pull-peer-lost")
			continue
		}
		recvs = append(recvs, c2StartReceiver(w, fmt.Sprintf("pull%d", i), p, 300*time.Millisecond))
	}
	w.Settle()
	accepted := map[string]bool{}
	calls := c2Senders(w, s, kind, "P", nsend, nmsg, accepted)
	if faulty {
		w.Sleep(time.Duration(w.Choose(simrt.SProg, 300)) * time.Microsecond)
		if stalledVictim && w.Choose(simrt.SProg, 2) == 0 {
			// (the stalled peer goes only when everything has been sent: what was
			// given to it is blocked in its connection, the rest has arrived)
			for _, c := range calls {
				c.Wait(5 * time.Second)
			}
			w.Settle()
		}
		w.Fault("close")
		w.Op("pull%d closes mid-way", victim)
		pulls[victim].Close()
	}
	for _, c := range calls {
		if !c.Wait(20 * time.Second) {
			w.WedgeCheck("C12")
			w.Failf("C02/send-never-completes:"+qkey, "%s: %d PULL peers are connected and receiving, yet %s has not finished after 20s (it sent %v messages)", qkey, npull, c.Label, c.Val)
			return
		}
		if c.Err != nil {
			w.Failf("C02/send-failed:"+qkey, "%s: %v", c.Label, c.Err)
			return
		}
	}
	w.Sleep(time.Second)
	w.Settle()
	count := map[string]int{}
	for _, r := range recvs {
		if !c2CheckOrder(w, r, qkey) {
			return
		}
		for _, x := range r.got {
			count[x]++
			if !accepted[x] && !faulty {
				w.Failf("C02/invented:"+qkey, "%s received %q which was not accepted by Send", r.name, x)
				return
			}
		}
	}
	for x, n := range count {
		if n > 1 {
			w.Failf("C02/duplicate:"+qkey, "%q was delivered to %d PULL peers", x, n)
			return
		}
	}
	if faulty && !w.Failed() {
		// from here on every connection stays up: whatever is accepted now must
		// reach exactly one of the surviving PULL peers
		before := map[string]bool{}
		for _, r := range recvs {
			for _, x := range r.got {
				before[x] = true
			}
		}
		acc2 := map[string]bool{}
		calls2 := c2Senders(w, s, kind, "Q", 1, nmsg, acc2)
		for _, c := range calls2 {
			if !c.Wait(20 * time.Second) {
				w.WedgeCheck("C12")
				w.Failf("C02/send-never-completes-after-peer-loss:"+kind, "%s: a PULL peer left earlier; %d peers are still connected and receiving, yet %s has not finished after 20s", kind, npull-1, c.Label)
				return
			}
		}
		w.Sleep(time.Second)
		w.Settle()
		cnt2 := map[string]int{}
		for i, r := range recvs {
			if i == victim {
				continue
			}
			for _, x := range r.got {
				if acc2[x] {
					cnt2[x]++
				}
			}
		}
		for x := range acc2 {
			if cnt2[x] != 1 {
				w.Failf("C02/lost-after-peer-loss:"+kind, "%s: one PULL peer left earlier and the remaining %d connections stayed up; the message %q accepted afterwards was delivered %d times", kind, npull-1, x, cnt2[x])
				return
			}
		}
		w.Probe("delivery-after-peer-loss")
	}
	if !faulty {
		var missing []string
		for x := range accepted {
			if count[x] == 0 {
				missing = append(missing, x)
			}
		}
		sort.Strings(missing)
		if len(missing) > 0 {
			w.Failf("C02/lost:"+qkey, "%s over %s: %d accepted messages never arrived although every connection stayed up: %v", qkey, tran, len(missing), missing)
			return
		}
	}
}

func init() {
	register(&Scenario{Name: "pair", Prop: "C02", Horizon: time.Hour, Run: c02Pair})
	register(&Scenario{Name: "pushpull", Prop: "C02", Horizon: time.Hour, Run: c02Push})
	register(&Scenario{Name: "pair-handover", Prop: "C02", Horizon: time.Hour, Run: c02Handover})
}

// c02Handover: the first PAIR peer is lost in the middle of the traffic (its
// pipe sender blocked in a write under back-pressure, later messages queued
// behind it) and another peer takes over. "On connection failure messages may
// be lost but never duplicated or reordered within a connection": what the
// second peer receives from one sender task ascends.
func c02Handover(w *W) {
	kind := []string{"pair", "xpair", "pair1", "xpair1"}[w.Choose(simrt.SShape, 4)]
	tran := w.simFallback([]string{"sim", "simipc", "inproc", "tcp", "ipc", "tls+tcp", "ws", "wss"}[w.Choose(simrt.SShape, 8)])
	wq := []int{8, 2, 128, 1}[w.Choose(simrt.SShape, 4)]
	nmsg := 6 + w.Choose(simrt.SShape, 20)
	w.SetShape("kind", kind)
	w.SetShape("tran", tran)
	w.SetShape("wq", wq)
	w.UseNet(NetCfg{Segment: w.Choose(simrt.SShape, 2) == 0, BufCap: []int{64, 300, 64, 0}[w.Choose(simrt.SShape, 4)]})
	qkey := fmt.Sprintf("%s:wq=%d:handover", kind, wq)
	a, b, c := w.Sock(kind), w.Sock(kind), w.Sock(kind)
	defer a.Close()
	defer b.Close()
	defer c.Close()
	mustSet(w, a, mangos.OptionWriteQLen, wq)
	for _, s := range []mangos.Socket{b, c} {
		mustSet(w, s, mangos.OptionReconnectTime, 5*time.Millisecond)
		mustSet(w, s, mangos.OptionMaxReconnectTime, 5*time.Millisecond)
	}
	addr := w.Addr(tran)
	if err := w.ListenOn(a, addr); err != nil {
		w.Failf("HARNESS/listen", "%v", err)
		return
	}
	if err := w.DialOn(b, addr); err != nil {
		w.Failf("HARNESS/dial", "%v", err)
		return
	}
	w.Sleep(2 * time.Millisecond)
	w.Settle()
	// B reads slowly (so A's queue and socket buffer towards it fill up)
	rb := &c2Recv{name: "B", s: b}
	mustSet(w, b, mangos.OptionRecvDeadline, 2*time.Millisecond)
	mustSet(w, b, mangos.OptionReadQLen, 1) // (or B's own receive queue would swallow everything at once)
	stopB := false
	w.Do("slow receiver B", func() (interface{}, error) {
		for !stopB {
			m, err := b.RecvMsg()
			if err == mangos.ErrClosed {
				return nil, nil
			}
			if err == nil {
				rb.got = append(rb.got, string(m.Body))
				rb.pipe = append(rb.pipe, 1)
				m.Free()
			}
			simrt.Sleep(time.Millisecond)
		}
		return nil, nil
	})
	rc := c2StartReceiver(w, "C", c, 300*time.Millisecond)
	accepted := map[string]bool{}
	// half of the runs: B talks too and A does not read for now (tiny receive
	// queue), so the pipe is back-pressured in both directions when B is lost
	bothWays := w.Choose(simrt.SShape, 2) == 0
	w.SetShape("both_ways", bothWays)
	if bothWays {
		mustSet(w, a, mangos.OptionReadQLen, 1)
		mustSet(w, b, mangos.OptionSendDeadline, 50*time.Millisecond)
		w.Do("B talks", func() (interface{}, error) {
			for i := 0; i < 6; i++ {
				if err := SendBody(b, kind, []byte(fmt.Sprintf("B:0:%d", i))); err != nil {
					return i, nil
				}
			}
			return 6, nil
		})
	}
	calls := c2Senders(w, a, kind, "A", 1, nmsg, accepted)
	// C starts knocking; B goes away at some point of the traffic
	mustSet(w, c, mangos.OptionDialAsynch, true)
	if err := w.DialOn(c, addr); err != nil {
		w.Failf("HARNESS/dial", "%v", err)
		return
	}
	w.Sleep(time.Duration(w.Choose(simrt.SProg, 4000)) * time.Microsecond)
	for y := w.Choose(simrt.SNet, 40); y > 0; y-- {
		simrt.Yield()
	}
	w.Op("the first peer B is lost mid-traffic")
	w.Fault("close")
	stopB = true
	if tran != "inproc" && w.Choose(simrt.SProg, 2) == 0 {
		resetSomeConn(w, "")
	}
	b.Close()
	for _, call := range calls {
		if !call.Wait(20 * time.Second) {
			w.WedgeCheck("C12")
			w.Failf("C02/send-never-completes:"+qkey, "%s: the first peer left, a second peer redials every 5ms and is receiving, yet %s has not finished after 20s (it sent %v messages)", qkey, call.Label, call.Val)
			return
		}
	}
	w.Sleep(time.Second)
	w.Settle()
	w.Op("A sent %d, B received %d, C received %d", nmsg, len(rb.got), len(rc.got))
	if !c2CheckOrder(w, rb, qkey) || !c2CheckOrder(w, rc, qkey) {
		return
	}
	seen := map[string]bool{}
	for _, x := range append(append([]string(nil), rb.got...), rc.got...) {
		if seen[x] {
			w.Failf("C02/duplicate:"+qkey, "%q was delivered twice (to the first and to the second peer)", x)
			return
		}
		seen[x] = true
	}
	if len(rc.got) > 0 {
		w.Probe("pair-handover-mid-traffic")
	}
	w.Delivery += len(rb.got) + len(rc.got)
}

// c02Leaver: PUSH with a worker that takes one job and leaves at once (the
// connection ends the moment its first message has been handed over), next to
// a worker that stays. Whether the library learns of the departure before or
// after its sending goroutine has come back from that write is the
// scheduler's choice. Once the leaver is gone only live connections remain:
// every message accepted from then on reaches the worker that stayed, once.
func c02Leaver(w *W) {
	kind := []string{"push", "xpush"}[w.Choose(simrt.SShape, 2)]
	wq := []int{1, 2, 128}[w.Choose(simrt.SShape, 3)]
	rounds := 1 + w.Choose(simrt.SShape, 4)
	stayFirst := w.Choose(simrt.SShape, 2) == 0
	w.SetShape("kind", kind)
	w.SetShape("wq", wq)
	w.SetShape("rounds", rounds)
	mn := w.UseMsgNet()
	addr := w.Addr("msg")
	s := w.Sock(kind)
	defer s.Close()
	mustSet(w, s, mangos.OptionWriteQLen, wq)
	mustSet(w, s, mangos.OptionSendDeadline, 5*time.Second)
	if err := w.ListenOn(s, addr); err != nil {
		w.Failf("HARNESS/listen", "%v", err)
		return
	}
	var stay *MsgPipe
	if stayFirst {
		stay = mn.Connect(addr)
		w.Settle()
	}
	n := 0
	send := func(tag string) bool {
		n++
		body := fmt.Sprintf("%s-%d", tag, n)
		c := w.Do("Send "+body, func() (interface{}, error) { return nil, s.Send([]byte(body)) })
		w.Settle()
		if !c.Returned() {
			c.Wait(6 * time.Second)
		}
		if !c.Returned() || c.Err != nil {
			w.Failf("C02/send-never-completes-after-peer-loss:"+kind, "%s (WriteQLen %d): a worker that stays is connected and takes everything, yet Send(%s) returned=%v err=%v", kind, wq, body, c.Returned(), c.Err)
			return false
		}
		return true
	}
	for r := 0; r < rounds && !w.Failed(); r++ {
		leaver := mn.ConnectWith(addr, func(p *MsgPipe) {
			p.OnSend = func(WireMsg) {
				w.Fault("close")
				p.ClosePeer()
			}
		})
		w.Settle()
		if stay == nil {
			stay = mn.Connect(addr)
			w.Settle()
		}
		if leaver == nil || stay == nil {
			w.Failf("HARNESS/connect", "no connection")
			return
		}
		// jobs until the leaver has had its one
		for j := 0; j < 6 && leaver.Open() && !w.Failed(); j++ {
			if !send("job") {
				return
			}
		}
		if leaver.Open() {
			w.Probe("leaver-never-served")
			leaver.ClosePeer()
		}
		w.Sleep(time.Millisecond)
		w.Settle()
		w.Op("round %d: the leaver has gone, %s stays", r, stay.Name)
		// only the worker that stays is connected now
		var after []string
		for j := 0; j < 2+w.Choose(simrt.SProg, 3) && !w.Failed(); j++ {
			if !send("after") {
				return
			}
			after = append(after, fmt.Sprintf("after-%d", n))
		}
		w.Sleep(10 * time.Millisecond)
		w.Settle()
		got := map[string]int{}
		for _, m := range stay.Sent() {
			got[string(m.Body)]++
		}
		for _, a := range after {
			if got[a] != 1 {
				w.Failf("C02/lost-after-peer-loss:"+kind, "%s (WriteQLen %d): a worker took one job and left; after that only %s was connected (and takes everything); the message %q accepted then reached it %d times", kind, wq, stay.Name, a, got[a])
				return
			}
			w.Delivery++
		}
		w.Probe("worker-took-one-job-and-left")
	}
}

func init() {
	register(&Scenario{Name: "push-worker-takes-one-job-and-leaves", Prop: "C02", Horizon: time.Hour, Weight: 1, Run: c02Leaver})
}

// c02Admission: a PAIR socket reachable through several endpoints (two or
// three listeners, or listeners and a dialer of its own) while that many peers
// arrive at the same moment. At most one is a peer at any time - the others
// are refused -, exactly one after things settle, and the conversation with
// the admitted one works in both directions with nothing from the others in it.
func c02Admission(w *W) {
	kind := []string{"pair", "xpair", "pair1", "xpair1"}[w.Choose(simrt.SShape, 4)]
	tran := w.simFallback([]string{"inproc", "sim", "tcp", "ipc", "tls+tcp", "ws"}[w.Choose(simrt.SShape, 6)])
	nep := 2 + w.Choose(simrt.SShape, 2)
	w.SetShape("kind", kind)
	w.SetShape("tran", tran)
	w.SetShape("endpoints", nep)
	w.UseNet(NetCfg{Segment: w.Choose(simrt.SShape, 2) == 0})
	a := w.Sock(kind)
	var all []mangos.Socket
	defer func() {
		a.Close()
		for _, s := range all {
			s.Close()
		}
	}()
	mustSet(w, a, mangos.OptionReconnectTime, time.Hour) // (one attempt per endpoint in this run)
	cur, max := 0, 0
	a.SetPipeEventHook(func(ev mangos.PipeEvent, p mangos.Pipe) {
		switch ev {
		case mangos.PipeEventAttached:
			cur++
			if cur > max {
				max = cur
			}
		case mangos.PipeEventDetached:
			cur--
		}
	})
	var addrs []string
	for i := 0; i < nep; i++ {
		addr := w.Addr(tran)
		if err := w.ListenOn(a, addr); err != nil {
			w.Failf("HARNESS/listen", "%v", err)
			return
		}
		addrs = append(addrs, addr)
	}
	// every peer dials its own endpoint, all at the same instant
	var dials []*Call
	for i, addr := range addrs {
		p := w.Sock(kind)
		all = append(all, p)
		mustSet(w, p, mangos.OptionReconnectTime, time.Hour)
		mustSet(w, p, mangos.OptionRecvDeadline, 50*time.Millisecond)
		addr := addr
		dials = append(dials, w.Do(fmt.Sprintf("peer%d.Dial", i), func() (interface{}, error) { return nil, w.DialOn(p, addr) }))
	}
	for _, d := range dials {
		d.Wait(10 * time.Second)
	}
	w.Sleep(200 * time.Millisecond)
	w.Settle()
	if max > 1 {
		w.Failf("C02/pair-two-peers:"+kind, "%s over %s with %d endpoints: %d peers arriving at the same moment through different endpoints were attached at the same time", kind, tran, nep, max)
		return
	}
	if cur != 1 {
		w.Failf("C02/pair-not-admitting", "%s over %s with %d endpoints and as many peers arriving at once: %d peers attached after everything settled", kind, tran, nep, cur)
		return
	}
	w.Probe("concurrent-admission-through-several-endpoints")
	// the conversation: what A sends arrives at exactly one peer, once; what that
	// peer answers arrives at A
	mustSet(w, a, mangos.OptionSendDeadline, time.Second)
	mustSet(w, a, mangos.OptionRecvDeadline, time.Second)
	const n = 4
	for i := 0; i < n; i++ {
		if err := SendBody(a, kind, []byte(fmt.Sprintf("a%d", i))); err != nil {
			w.Failf("C02/send-failed:"+kind, "A's Send %d with one peer attached: %v", i, err)
			return
		}
	}
	w.Sleep(20 * time.Millisecond)
	w.Settle()
	got := 0
	var partner mangos.Socket
	for _, p := range all {
		mine := 0
		for {
			m, err := p.RecvMsg()
			if err != nil {
				break
			}
			mine++
			m.Free()
		}
		if mine > 0 {
			if partner != nil {
				w.Failf("C02/pair-two-peers:"+kind, "%s: A's messages arrived at two different peers", kind)
				return
			}
			partner = p
			got = mine
		}
	}
	if got != n {
		w.Failf("C02/lost:"+kind, "%s over %s: A sent %d messages to its one peer, %d arrived", kind, tran, n, got)
		return
	}
	if err := SendBody(partner, kind, []byte("back")); err != nil {
		w.Failf("C02/send-failed:"+kind, "the admitted peer's Send: %v", err)
		return
	}
	if m, err := a.RecvMsg(); err != nil || string(m.Body) != "back" {
		w.Failf("C02/lost:"+kind, "%s over %s: the admitted peer's message did not arrive at A (%v)", kind, tran, err)
		return
	}
	w.Delivery += n + 1
}

func init() {
	register(&Scenario{Name: "pair-concurrent-admission", Prop: "C02", Horizon: time.Hour, Weight: 1, Run: c02Admission})
}
