package harness

import (
	"context"
	"fmt"
	"net"
	"strings"
	"time"

	"github.com/gorilla/websocket"

	"go.nanomsg.org/mangos/v3"
	"go.nanomsg.org/mangos/v3/verifsim/simrt"
)

// C10: Close unblocks everything, fails later calls and releases everything.

func closedOK(err error) bool {
	return err == mangos.ErrClosed || err == mangos.ErrProtoOp
}

func c10Run(w *W) {
	kind := allKinds[w.Choose(simrt.SShape, len(allKinds))]
	tran := w.simFallback([]string{"msg", "inproc", "sim", "simipc", "tcp", "ipc", "tls+tcp", "ws", "wss"}[w.Choose(simrt.SShape, 9)])
	npeers := w.Choose(simrt.SShape, 3)
	what := []string{"socket", "socket", "context", "dialer", "listener", "pipe"}[w.Choose(simrt.SShape, 6)]
	stream := tran != "msg" && tran != "inproc"
	stall := stream
	stallers := 0
	if stall {
		stallers = w.Choose(simrt.SShape, 3)
	}
	asyncDial := w.Choose(simrt.SShape, 2) == 0
	w.SetShape("kind", kind)
	w.SetShape("tran", tran)
	w.SetShape("peers", npeers)
	w.SetShape("close", what)
	w.SetShape("stallers", stallers)
	w.SetShape("asyncdial", asyncDial)

	mn := w.UseMsgNet()
	mute := (tran == "sim" || tran == "simipc" || tran == "tcp" || tran == "ipc" || tran == "ws" || tran == "wss") && w.Choose(simrt.SShape, 3) == 0
	ncfg := NetCfg{}
	inflightBody := []byte("inflight")
	if mute {
		// (small connection buffers and messages larger than them, so that a
		// writer really blocks towards the peer that never reads)
		ncfg.BufCap = 64
		inflightBody = patBody("inflight", 700)
	}
	nt := w.UseNet(ncfg)
	s := w.Sock(kind)
	var all []mangos.Socket
	all = append(all, s)
	var pipes []mangos.Pipe
	s.SetPipeEventHook(func(ev mangos.PipeEvent, p mangos.Pipe) {
		if ev == mangos.PipeEventAttached {
			pipes = append(pipes, p)
		}
	})
	mustSet(w, s, mangos.OptionReconnectTime, 50*time.Millisecond)
	laddr := w.Addr(tran)
	l, err := s.NewListener(laddr, w.EpOpts(laddr, true, nil))
	if err != nil {
		w.Failf("HARNESS/newlistener", "%v", err)
		return
	}
	if c := w.Here("Listen", func() (interface{}, error) { return nil, l.Listen() }); c.Err != nil {
		w.Failf("HARNESS/listen", "%v", c.Err)
		return
	}
	// peers
	var peerSocks []mangos.Socket
	var msgPeers []*MsgPipe
	chatty := tran == "msg" && w.Choose(simrt.SShape, 2) == 0
	w.SetShape("chatty_peers", chatty)
	for i := 0; i < npeers; i++ {
		if tran == "msg" {
			var p *MsgPipe
			if chatty {
				// peers that answer whatever is sent to them, several times, with
				// the same header (the current request / survey id): replies keep
				// arriving while the close under test runs
				p = mn.ConnectWith(laddr, func(p *MsgPipe) {
					p.OnSend = func(m WireMsg) {
						raw := m.Bytes()
						if len(raw) < 4 {
							return
						}
						for k := 0; k < 3; k++ {
							p.Inject(append(append([]byte(nil), raw[:4]...), fmt.Sprintf("answer%d", k)...))
						}
					}
				})
			} else {
				p = mn.Connect(laddr)
			}
			if p != nil {
				msgPeers = append(msgPeers, p)
			}
			continue
		}
		ps := w.Sock(peerKind[kind])
		peerSocks = append(peerSocks, ps)
		all = append(all, ps)
		if err := w.DialOn(ps, laddr); err != nil {
			w.Failf("HARNESS/peer-dial", "%v", err)
			return
		}
	}
	// another socket that fails to bind the same address and is closed again
	// must not disturb this listener ("closing ... affects only that object")
	if w.Choose(simrt.SShape, 3) == 0 {
		s2 := w.Sock(kind)
		err := w.ListenOn(s2, laddr)
		if err == nil {
			w.Failf("C10/second-listener-accepted", "a second socket could listen on %s while the first still does", laddr)
			return
		}
		s2.Close()
		w.Settle()
		ok := false
		if tran == "msg" {
			if p := mn.Connect(laddr); p != nil {
				ok = true
				msgPeers = append(msgPeers, p)
			}
		} else {
			probe := w.Sock(peerKind[kind])
			all = append(all, probe)
			c := w.Do("probe.Dial", func() (interface{}, error) {
				return nil, probe.DialOptions(laddr, w.EpOpts(laddr, false, map[string]interface{}{mangos.OptionDialAsynch: false}))
			})
			c.Wait(time.Second)
			ok = c.Returned() && c.Err == nil
		}
		if !ok {
			w.Failf("C10/closing-other-socket-broke-listener", "socket B failed to listen on %s (in use) and was closed; now nobody can connect to the socket that owns that address", laddr)
			return
		}
		w.Probe("foreign-close-left-listener-alone")
	}
	// connections whose handshake never completes
	var stalled []*NetConn
	for i := 0; i < stallers; i++ {
		c, err := nt.Dial(NetKey(laddr))
		if err == nil {
			if w.Choose(simrt.SProg, 2) == 0 {
				c.Write([]byte{0, 'S', 'P'}) // part of a header
			}
			stalled = append(stalled, c)
			w.Fault("hs-stall")
		}
	}
	// a peer that completes the handshake and then never reads: whatever is sent
	// towards it fills the connection and leaves a writer of the library blocked
	// in the middle of a message when the close under test happens
	if mute && (tran == "ws" || tran == "wss") {
		// (over WebSocket: a gorilla client that completes the upgrade with the
		// right sub-protocol and then never reads a frame)
		_, cliTLS := simTLS()
		wd := &websocket.Dialer{Subprotocols: []string{s.Info().PeerName + ".sp.nanomsg.org"}, TLSClientConfig: cliTLS}
		wd.NetDialContext = func(ctx context.Context, network, a string) (net.Conn, error) {
			c, err := nt.Dial(NetKey("tcp://" + a))
			if err == nil {
				stalled = append(stalled, c)
			}
			return c, err
		}
		w.Go("mute ws peer", func() {
			if _, _, err := wd.Dial(laddr, nil); err == nil {
				w.Fault("backpressure")
				w.Probe("ws-peer-attached-that-never-reads")
			}
		})
	} else if mute {
		if c, err := nt.Dial(NetKey(laddr)); err == nil {
			c.Write(wcHeader(protoOf(peerKind[kind])))
			stalled = append(stalled, c)
			w.Go("mute peer", func() { wcReadHeader(c) })
			w.Fault("backpressure")
			w.Probe("peer-attached-that-never-reads")
		}
	}
	// a dialer towards nobody (redial timers pending) or towards a staller
	daddr := w.Addr(tran)
	var d mangos.Dialer
	if tran != "inproc" || true {
		dd, err := s.NewDialer(daddr, w.EpOpts(daddr, false, map[string]interface{}{mangos.OptionDialAsynch: true}))
		if err == nil {
			d = dd
			if asyncDial {
				w.Here("Dial(async, absent)", func() (interface{}, error) { return nil, d.Dial() })
			}
			if w.Choose(simrt.SProg, 4) == 0 {
				// a second dialer for the same address, started and closed again
				// before the close under test: the first one is still the socket's
				if d2, err := s.NewDialer(daddr, w.EpOpts(daddr, false, map[string]interface{}{mangos.OptionDialAsynch: true})); err == nil {
					w.Here("second dialer, same address: Dial", func() (interface{}, error) { return nil, d2.Dial() })
					w.Here("second dialer, same address: Close", func() (interface{}, error) { return nil, d2.Close() })
					w.Probe("second-dialer-for-the-same-address-closed")
				}
			}
		}
	}
	w.Settle()

	// operations in flight
	var ctx mangos.Context
	if hasContexts(kind) {
		ctx, _ = s.OpenContext()
	}
	type inflight struct {
		c     *Call
		onCtx bool
	}
	var fl []inflight
	nfl := 1 + w.Choose(simrt.SProg, 4)
	for i := 0; i < nfl; i++ {
		onCtx := ctx != nil && w.Choose(simrt.SProg, 2) == 0
		isRecv := w.Choose(simrt.SProg, 2) == 0
		var fn func() (interface{}, error)
		label := ""
		switch {
		case isRecv && onCtx:
			label, fn = "ctx.Recv", func() (interface{}, error) { return ctx.Recv() }
		case isRecv:
			label, fn = "Recv", func() (interface{}, error) { return s.Recv() }
		case onCtx:
			label, fn = "ctx.Send", func() (interface{}, error) { return nil, ctx.Send(inflightBody) }
		default:
			label, fn = "Send", func() (interface{}, error) { return nil, SendBody(s, kind, inflightBody) }
		}
		fl = append(fl, inflight{w.Do(fmt.Sprintf("%s#%d", label, i), fn), onCtx})
	}
	// the socket dials a peer that accepts but sends its SP header only after
	// the close under test
	var lateRelease *simrt.Event
	var lateConn *NetConn
	lateAccepted := false
	if stall && what == "socket" && w.Choose(simrt.SProg, 2) == 0 {
		haddr := w.Addr(tran)
		if hl, err := nt.Listen(NetKey(haddr)); err == nil {
			lateRelease = w.NewEvent()
			w.Go("late peer", func() {
				c, err := hl.AcceptSim()
				if err != nil {
					return
				}
				lateConn, lateAccepted = c, true
				lateRelease.Wait(time.Hour)
				if tran == "ws" || tran == "wss" {
					// (this peer does not speak HTTP: it hangs up, which ends the
					// upgrade request the dialer is waiting on)
					c.Close()
					return
				}
				c.Write(wcHeader(protoOf(peerKind[kind])))
				wcReadHeader(c)
			})
			w.OnCleanup(func() { hl.Close() })
			fl = append(fl, inflight{w.Do("DialOptions(late peer)", func() (interface{}, error) {
				return nil, s.DialOptions(haddr, w.EpOpts(haddr, false, map[string]interface{}{mangos.OptionDialAsynch: true, mangos.OptionReconnectTime: time.Hour}))
			}), false})
			w.Fault("hs-stall")
		}
	}
	// endpoint creation racing the close: NewDialer / NewListener apply their
	// options in several locked steps, Dial and Listen start background work;
	// a Close landing anywhere inside must still leave nothing behind
	var paddr string
	if nrace := w.Choose(simrt.SProg, 3); nrace > 0 {
		if tran != "msg" && w.Choose(simrt.SProg, 2) == 0 {
			// somebody who accepts: a leaked dialer would really connect
			ps := w.Sock(peerKind[kind])
			all = append(all, ps)
			paddr = w.Addr(tran)
			if err := w.ListenOn(ps, paddr); err != nil {
				paddr = ""
			}
		}
		for i := 0; i < nrace; i++ {
			target := daddr
			if paddr != "" {
				target = paddr
			}
			async := w.Choose(simrt.SProg, 2) == 0
			if w.Choose(simrt.SProg, 3) == 0 {
				fresh := w.Addr(tran)
				fl = append(fl, inflight{w.Do(fmt.Sprintf("ListenOptions#%d", i), func() (interface{}, error) {
					return nil, s.ListenOptions(fresh, map[string]interface{}{mangos.OptionMaxRecvSize: 4096})
				}), false})
				continue
			}
			fl = append(fl, inflight{w.Do(fmt.Sprintf("DialOptions#%d", i), func() (interface{}, error) {
				return nil, s.DialOptions(target, map[string]interface{}{mangos.OptionDialAsynch: async,
					mangos.OptionReconnectTime: 20 * time.Millisecond, mangos.OptionMaxReconnectTime: 40 * time.Millisecond, mangos.OptionMaxRecvSize: 4096})
			}), false})
		}
		w.Probe("endpoint-creation-races-close")
	}
	if w.Choose(simrt.SProg, 2) == 0 {
		w.Settle()
	}
	if w.Choose(simrt.SProg, 3) == 0 {
		w.Sleep(time.Duration(w.Choose(simrt.SProg, 120)) * time.Millisecond)
	}

	if chatty {
		stopChat := false
		defer func() { stopChat = true }()
		for i, p := range msgPeers {
			i, p := i, p
			w.Go("chatty peer", func() {
				for n := 0; n < 40 && !stopChat && p.Open(); n++ {
					p.Inject(inbound(kind, uint32(n+1), fmt.Sprintf("chat%d-%d", i, n)))
					simrt.Sleep(time.Duration(50+37*n%200) * time.Microsecond)
				}
			})
		}
		w.Probe("traffic-arrives-during-close")
	}
	// the close under test
	w.Op("Close %s (kind %s, %s, %d peers, %d stallers, %d calls in flight)", what, kind, tran, npeers, stallers, nfl)
	w.Fault("api-race")
	var cl *Call
	switch what {
	case "socket":
		cl = w.Do("Socket.Close", func() (interface{}, error) { return nil, s.Close() })
	case "context":
		if ctx == nil {
			what = "socket"
			cl = w.Do("Socket.Close", func() (interface{}, error) { return nil, s.Close() })
		} else {
			cl = w.Do("Context.Close", func() (interface{}, error) { return nil, ctx.Close() })
		}
	case "dialer":
		if d == nil {
			return
		}
		cl = w.Do("Dialer.Close", func() (interface{}, error) { return nil, d.Close() })
	case "listener":
		cl = w.Do("Listener.Close", func() (interface{}, error) { return nil, l.Close() })
	case "pipe":
		w.Settle()
		if len(pipes) == 0 {
			what = "socket"
			cl = w.Do("Socket.Close", func() (interface{}, error) { return nil, s.Close() })
		} else {
			p := pipes[w.Choose(simrt.SProg, len(pipes))]
			cl = w.Do("Pipe.Close", func() (interface{}, error) { return nil, p.Close() })
		}
	}
	t0 := w.Now()
	sockClosedOnce := false
	w.Settle()
	if w.Failed() {
		return
	}
	if w.WedgeCheck("C12") {
		return
	}
	if !cl.Returned() {
		w.Failf("C10/close-did-not-return:"+what, "%s still pending after the settle at %v", cl.Label, w.Now())
		return
	}
	if w.Now() != t0 {
		w.Failf("HARNESS/time", "time moved during settle")
	}
	switch what {
	case "socket":
		for _, f := range fl {
			if !f.c.Returned() {
				w.Failf("C10/call-not-unblocked:"+strings.SplitN(f.c.Label, "#", 2)[0], "%s on %s was pending when the socket was closed at %v and is still pending after the settle", f.c.Label, kind, t0)
				return
			}
			if f.c.Err != nil && !closedOK(f.c.Err) && f.c.RetTime == t0 && f.c.InvTime != t0 {
				// returned at the close instant with something else than closed
				w.Failf("C10/wrong-error-on-close:"+strings.SplitN(f.c.Label, "#", 2)[0], "%s on %s returned %v when the socket was closed", f.c.Label, kind, f.c.Err)
				return
			}
		}
		w.Probe("socket-close-unblocked-calls")
		for _, f := range fl {
			if strings.HasPrefix(f.c.Label, "DialOptions#") || strings.HasPrefix(f.c.Label, "ListenOptions#") {
				if f.c.RetStep > cl.InvStep && f.c.InvStep < cl.InvStep {
					if f.c.Err == mangos.ErrClosed {
						w.Probe("endpoint-creation-overlapped-close:closed")
					} else {
						w.Probe("endpoint-creation-overlapped-close:" + errName(f.c.Err))
					}
				}
			}
		}
		// later calls fail with a closed error (or unsupported, or return a queued message) at once
		later := []*Call{
			w.Do("Send(after close)", func() (interface{}, error) { return nil, SendBody(s, kind, []byte("x")) }),
			w.Do("Recv(after close)", func() (interface{}, error) { return s.Recv() }),
			w.Do("Dial(after close)", func() (interface{}, error) { return nil, s.Dial(w.Addr("msg")) }),
			w.Do("Listen(after close)", func() (interface{}, error) { return nil, s.Listen(w.Addr("msg")) }),
			w.Do("NewDialer(after close)", func() (interface{}, error) { _, e := s.NewDialer(w.Addr("msg"), nil); return nil, e }),
			w.Do("NewListener(after close)", func() (interface{}, error) { _, e := s.NewListener(w.Addr("msg"), nil); return nil, e }),
			w.Do("OpenContext(after close)", func() (interface{}, error) { _, e := s.OpenContext(); return nil, e }),
			w.Do("GetOption(after close)", func() (interface{}, error) { return s.GetOption(mangos.OptionMaxRecvSize) }),
		}
		// (a second Close sweeps up whatever the first one missed - an endpoint
		// registered while it ran - so most runs do without it)
		closedTwice := w.Choose(simrt.SProg, 4) == 0
		if closedTwice {
			later = append(later, w.Do("Close(again)", func() (interface{}, error) { return nil, s.Close() }))
		}
		sockClosedOnce = !closedTwice
		if ctx != nil {
			later = append(later,
				w.Do("ctx.Send(after close)", func() (interface{}, error) { return nil, ctx.Send([]byte("x")) }),
				w.Do("ctx.Recv(after close)", func() (interface{}, error) { return ctx.Recv() }),
				w.Do("ctx.Close(after close)", func() (interface{}, error) { return nil, ctx.Close() }))
		}
		w.Settle()
		if w.WedgeCheck("C12") {
			return
		}
		for _, c := range later {
			name := strings.SplitN(c.Label, "(", 2)[0]
			if !c.Returned() {
				w.Failf("C10/call-blocks-after-close:"+name, "%s on a closed %s socket did not return at once", c.Label, kind)
				return
			}
			if strings.HasPrefix(c.Label, "GetOption") {
				continue
			}
			if strings.HasPrefix(c.Label, "Recv") || strings.HasPrefix(c.Label, "ctx.Recv") {
				if c.Err == nil {
					continue // an already-queued message
				}
			}
			if !closedOK(c.Err) {
				w.Failf("C10/call-succeeds-after-close:"+name, "%s on a closed %s socket returned %v", c.Label, kind, errName(c.Err))
				return
			}
		}
	case "context":
		for _, f := range fl {
			if f.onCtx && !f.c.Returned() {
				w.Failf("C10/call-not-unblocked:ctx", "%s was pending when its context was closed and is still pending", f.c.Label)
				return
			}
		}
		w.Probe("context-close")
		// ... and only them: a Send blocked on the socket itself (REQ with no
		// peer yet) goes out as soon as a peer is there
		if kind == "req" && npeers == 0 {
			attachedPeer := false
			if tran == "msg" {
				attachedPeer = mn.Connect(laddr) != nil
			} else {
				ps := w.Sock("rep")
				all = append(all, ps)
				if err := ps.DialOptions(laddr, w.EpOpts(laddr, false, map[string]interface{}{mangos.OptionDialAsynch: false})); err == nil {
					attachedPeer = true
					w.Sleep(5 * time.Millisecond)
				}
			}
			if attachedPeer {
				w.Settle()
				for _, f := range fl {
					if !f.onCtx && strings.HasPrefix(f.c.Label, "Send#") && !f.c.Returned() {
						w.Failf("C10/context-close-harmed-others", "%s on the REQ socket was blocked for lack of a peer when one of the socket's other contexts was closed; a peer is attached now and the Send is still pending", f.c.Label)
						return
					}
				}
				w.Probe("context-close-leaves-other-senders")
			}
		}
	}
	// closing a part leaves the rest working: the socket still accepts
	if what != "socket" && what != "listener" && tran == "msg" {
		if p := mn.Connect(laddr); p == nil {
			w.Failf("C10/part-close-broke-listener", "after closing the %s nobody accepts on the socket's listener any more", what)
			return
		}
		w.Settle()
	}
	// a dialled connection whose handshake was pending when the socket was
	// closed completes now: the closed socket must not take it in
	if lateRelease != nil {
		lateRelease.Set()
		w.Settle()
		if lateAccepted {
			w.Probe("handshake-completes-after-close")
		}
	}
	// shut everything down; the peers stay silent; run the clock
	for _, x := range all {
		x := x
		if x == s && sockClosedOnce {
			continue // closed exactly once, by the close under test
		}
		w.Do("Close(all)", func() (interface{}, error) { return nil, x.Close() })
	}
	w.Settle()
	for _, p := range msgPeers {
		_ = p
	}
	w.Sleep(30 * time.Second)
	w.Settle()
	if w.Failed() {
		return
	}
	for _, f := range fl {
		if !f.c.Returned() {
			w.Failf("C10/call-not-unblocked:"+strings.SplitN(f.c.Label, "#", 2)[0], "%s on %s is still pending 30s after every socket was closed", f.c.Label, kind)
			return
		}
	}
	w.Delivery += len(fl)
	w.Census("C10", all...)
	if w.Failed() {
		return
	}
	w.QuietCheck(20 * time.Minute)
	if w.Failed() {
		return
	}
	// every connection of the simulated network is closed at the library's end
	open := 0
	var names []string
	for _, c := range nt.conns {
		isStaller := false
		for _, st := range stalled {
			if c == st {
				isStaller = true
			}
		}
		if isStaller || c == lateConn {
			continue
		}
		c.mu.Lock()
		if !c.closed && !*c.reset {
			open++
			names = append(names, fmt.Sprintf("%s->%s", c.local, c.remote))
		}
		c.mu.Unlock()
	}
	if open > 0 {
		w.Failf("C10/connection-left-open", "%d simulated connections are still open at the library's end after every socket was closed: %v", open, names)
		return
	}
	// listening addresses can be bound again
	if stream {
		if nt.Listening(NetKey(laddr)) {
			w.Failf("C10/address-still-bound", "%s is still bound after Close", laddr)
		}
	}
	if tran == "inproc" {
		s2 := w.Sock(kind)
		if err := w.ListenOn(s2, laddr); err != nil {
			w.Failf("C10/address-still-bound", "%s cannot be bound again after Close: %v", laddr, err)
		}
		s2.Close()
	}
}

func init() {
	register(&Scenario{Name: "close-everything", Prop: "C10", Horizon: time.Hour, Weight: 600, Run: c10Run})
	// the real OS transports (engine R): hostile and vanishing peers against
	// tcp / tls+tcp / ws / wss listeners, then every socket is closed and no
	// goroutine may be left executing library code (W.realCensus)
	register(&Scenario{Name: "close-real-transports", Prop: "C10", Engine: "R", Weight: 1, Run: c16Real})
	// the same inside the simulation (real tcp / ws / tls+tcp / wss listeners,
	// crypto/tls, net/http, gorilla on the simulated network): hostile and
	// vanishing peers, then every socket closed and the census
	register(&Scenario{Name: "close-after-hostile-peers-sim", Prop: "C10", Horizon: time.Hour, Weight: 40, Run: c16Real})
	// C14's last clause ("after the dialer or its socket is closed no new
	// connection attempt is started ... for Close at any phase") is decided by
	// the same runs: the close races Dial / NewDialer / redial timers, and the
	// quiet period sees any attempt made afterwards
	register(&Scenario{Name: "close-at-any-phase", Prop: "C14", Horizon: time.Hour, Weight: 3, Run: c10Run})
	// C11: Close racing Send, Recv, option calls, Dial, Listen and endpoint
	// creation from other goroutines is the densest concurrent program there
	// is; whatever one of those calls leaves behind because Close overtook it
	// (an endpoint registered after Close had swept the lists) shows in the
	// census
	register(&Scenario{Name: "close-racing-every-call", Prop: "C11", Horizon: time.Hour, Weight: 4, Run: c10Run})
}

// c10CloseFromHook: the application closes the listener (or the dialer, or the
// whole socket) from inside its pipe event hook - the one-shot server idiom
// `p.Listener().Close()` on the first connection. The hook runs on the
// goroutine that is attaching the pipe (the accept loop, or the dialer's);
// Close must still return, and afterwards nothing may be left behind.
func c10CloseFromHook(w *W) {
	kind := allKinds[w.Choose(simrt.SShape, len(allKinds))]
	tran := w.simFallback([]string{"inproc", "sim", "tcp", "ipc", "tls+tcp", "ws", "wss"}[w.Choose(simrt.SShape, 7)])
	on := []mangos.PipeEvent{mangos.PipeEventAttaching, mangos.PipeEventAttached}[w.Choose(simrt.SShape, 2)]
	what := []string{"endpoint", "socket", "pipe-then-endpoint", "pipe"}[w.Choose(simrt.SShape, 4)]
	side := []string{"listen", "dial"}[w.Choose(simrt.SShape, 2)]
	w.SetShape("kind", kind)
	w.SetShape("tran", tran)
	w.SetShape("on", int(on))
	w.SetShape("close", what)
	w.SetShape("side", side)
	w.UseNet(NetCfg{})
	s, peer := w.Sock(kind), w.Sock(peerKind[kind])
	defer s.Close()
	defer peer.Close()
	addr := w.Addr(tran)
	done := w.NewEvent()
	fired := false
	var hookErr error
	s.SetPipeEventHook(func(ev mangos.PipeEvent, p mangos.Pipe) {
		if ev != on || fired {
			return
		}
		fired = true
		w.Op("hook(%d) on pipe %x closes the %s", int(ev), p.ID(), what)
		switch what {
		case "socket":
			hookErr = s.Close()
		case "pipe":
			// (turning a peer away: only this connection goes; the endpoint
			// carries on)
			hookErr = p.Close()
		default:
			if what == "pipe-then-endpoint" {
				_ = p.Close()
			}
			if l := p.Listener(); l != nil {
				hookErr = l.Close()
			} else if d := p.Dialer(); d != nil {
				hookErr = d.Close()
			}
		}
		done.Set()
	})
	if side == "listen" {
		if err := w.ListenOn(s, addr); err != nil {
			w.Failf("HARNESS/listen", "%v", err)
			return
		}
		w.Go("peer dials", func() {
			_ = peer.DialOptions(addr, w.EpOpts(addr, false, map[string]interface{}{mangos.OptionDialAsynch: true, mangos.OptionReconnectTime: 50 * time.Millisecond}))
		})
	} else {
		if err := w.ListenOn(peer, addr); err != nil {
			w.Failf("HARNESS/listen", "%v", err)
			return
		}
		w.Go("socket dials", func() {
			_ = s.DialOptions(addr, w.EpOpts(addr, false, map[string]interface{}{mangos.OptionDialAsynch: true, mangos.OptionReconnectTime: 50 * time.Millisecond}))
		})
	}
	for i := 0; i < 100 && !fired; i++ {
		w.Sleep(time.Millisecond)
		w.Settle()
	}
	if !fired {
		if side == "dial" && kind != peerKind[peerKind[kind]] {
			return
		}
		w.Failf("HARNESS/attach", "%s over %s (%s side): no pipe event within 100ms", kind, tran, side)
		return
	}
	if !done.Wait(2 * time.Second) {
		if w.WedgeCheck("C10") {
			return
		}
		w.Failf("C10/close-never-returns", "%s over %s: Close of the %s called from the pipe event hook (event %d, %s side) has not returned after 2s%s", kind, tran, what, int(on), side, w.BlockedReport())
		return
	}
	if hookErr != nil && hookErr != mangos.ErrClosed {
		w.Failf("C10/close-failed", "Close from the hook returned %v", hookErr)
		return
	}
	w.Probe("close-from-hook")
	// later calls fail instead of blocking
	if what == "socket" {
		c := w.Do("Send(after close from hook)", func() (interface{}, error) { return nil, s.Send([]byte("x")) })
		if !c.Wait(time.Second) {
			w.Failf("C10/call-after-close-blocks", "%s: Send after the socket was closed from its hook is still pending", kind)
			return
		}
	}
	s.Close()
	peer.Close()
	w.Sleep(5 * time.Second)
	w.Settle()
	w.Census("C10", s, peer)
}

func init() {
	register(&Scenario{Name: "close-from-hook", Prop: "C10", Horizon: time.Hour, Weight: 40, Run: c10CloseFromHook})
	register(&Scenario{Name: "close-from-hook-keeps-working", Prop: "C12", Horizon: time.Hour, Weight: 1, Run: c10CloseFromHook})
	register(&Scenario{Name: "close-from-hook-lifecycle", Prop: "C13", Horizon: time.Hour, Weight: 1, Run: c10CloseFromHook})
	// C11: the hook runs on a goroutine of the library (accept loop, dialer);
	// a call made from it is one more concurrent caller and must return
	register(&Scenario{Name: "calls-from-the-event-hook", Prop: "C11", Horizon: time.Hour, Weight: 6, Run: c10CloseFromHook})
}

// c10DialSilentPeer: the dedicated cell for a dial that is still in flight
// when the socket is closed, against a peer that accepted the connection and
// then stays silent for good (no SP header, no TLS hello, no HTTP answer).
// "Whatever was in progress at the time" includes this: the dialer's goroutine
// and its connection must not outlive Close. (Known finding: the transport
// dialers have no way to abort a handshake and no handshake timeout, so both
// stay until the peer moves.) When the peer finally hangs up, everything must
// be gone - that part is asserted separately.
func c10DialSilentPeer(w *W) {
	kind := allKinds[w.Choose(simrt.SShape, len(allKinds))]
	tran := w.simFallback([]string{"sim", "simipc", "tcp", "ipc", "tls+tcp", "ws", "wss"}[w.Choose(simrt.SShape, 7)])
	what := []string{"socket", "dialer"}[w.Choose(simrt.SShape, 2)]
	w.SetShape("kind", kind)
	w.SetShape("tran", tran)
	w.SetShape("close", what)
	nt := w.UseNet(NetCfg{})
	addr := w.Addr(tran)
	hl, err := nt.Listen(NetKey(addr))
	if err != nil {
		w.Failf("HARNESS/listen", "%v", err)
		return
	}
	defer hl.Close()
	s := w.Sock(kind)
	d, err := s.NewDialer(addr, w.EpOpts(addr, false, map[string]interface{}{mangos.OptionDialAsynch: true, mangos.OptionReconnectTime: 10 * time.Millisecond}))
	if err != nil {
		w.Failf("HARNESS/newdialer", "%v", err)
		return
	}
	_ = d.Dial()
	w.Sleep(5 * time.Millisecond)
	w.Settle()
	w.Fault("hs-stall")
	w.Op("%s dials a peer over %s that accepts and stays silent; Close %s", kind, tran, what)
	var cl *Call
	if what == "socket" {
		cl = w.Do("Socket.Close", func() (interface{}, error) { return nil, s.Close() })
	} else {
		cl = w.Do("Dialer.Close", func() (interface{}, error) { return nil, d.Close() })
	}
	if !cl.Wait(time.Second) {
		w.Failf("C10/close-blocked", "%s over %s: Close of the %s does not return while a dial is in flight to a silent peer", kind, tran, what)
		return
	}
	if what == "dialer" {
		s.Close()
	}
	w.Sleep(30 * time.Second)
	w.Settle()
	outlived := ""
	if lt := w.LibTasks(); len(lt) > 0 {
		w.Probe("dial-in-flight-outlived-close")
		outlived = fmt.Sprintf("%s over %s: 30s after Close of the %s the dial to a peer that accepted and stays silent is still in flight: %d library tasks and %d connections remain (first: %s at %s)", kind, tran, what, len(lt), len(nt.OpenConns()), lt[0].ID, lt[0].ParkSite)
	}
	// the peer hangs up at last: now nothing may remain
	hl.Close()
	w.Sleep(30 * time.Second)
	w.Settle()
	w.NoHygiene = true
	if lt := w.LibTasks(); len(lt) > 0 {
		w.Failf("C10/goroutine-left:"+lt[0].Site, "%s over %s: the silent peer hung up 30s ago and the socket was closed before that; %d library tasks remain (first: %s at %s)", kind, tran, len(lt), lt[0].ID, lt[0].ParkSite)
		return
	}
	if oc := nt.OpenConns(); len(oc) > 0 {
		w.Failf("C10/connection-left-open", "%s over %s: after the peer hung up %d connections are still open at the library's end: %v", kind, tran, len(oc), oc)
		return
	}
	w.Delivery++
	// (reported last, so that anything else wrong in this run is reported first)
	if outlived != "" {
		w.Failf("C10/dial-to-silent-peer-outlives-close:"+tran, "%s", outlived)
	}
}

func init() {
	register(&Scenario{Name: "dial-to-silent-peer", Prop: "C10", Horizon: time.Hour, Weight: 6, Run: c10DialSilentPeer})
}

// c10CloseDuringBurst: Close lands while connections are at every stage
// between "accepted by the transport" and "attached": several peers connect in
// a burst, the application's Attaching callback is slow (the accept loop is
// away from Accept while it runs), and the socket or its listener is closed a
// tape-chosen moment later. Every connection the transport accepted must be
// closed at the library's end - also the ones whose handshake had completed
// but which nobody had collected yet.
func c10CloseDuringBurst(w *W) {
	kind := []string{"pull", "bus", "sub", "rep", "pair", "star", "xrep", "respondent"}[w.Choose(simrt.SShape, 8)]
	tran := w.simFallback([]string{"sim", "simipc", "tcp", "ipc", "tls+tcp", "ws", "wss"}[w.Choose(simrt.SShape, 7)])
	npeers := 2 + w.Choose(simrt.SShape, 5)
	what := []string{"socket", "listener"}[w.Choose(simrt.SShape, 2)]
	slow := time.Duration(1+w.Choose(simrt.SShape, 8)) * time.Millisecond
	after := time.Duration(w.Choose(simrt.SShape, 14)) * 500 * time.Microsecond
	if w.Choose(simrt.SShape, 3) == 0 {
		// the close comes at the very instant an Attaching callback returns and
		// the rest of that connection's admission runs (the accept loop takes
		// the connections one after the other, each callback lasting `slow`)
		after = time.Duration(1+w.Choose(simrt.SShape, npeers)) * slow
		w.SetShape("close_as_a_callback_returns", true)
	}
	w.SetShape("kind", kind)
	w.SetShape("tran", tran)
	w.SetShape("peers", npeers)
	w.SetShape("close", what)
	nt := w.UseNet(NetCfg{Segment: w.Choose(simrt.SShape, 2) == 0})
	s := w.Sock(kind)
	s.SetPipeEventHook(func(ev mangos.PipeEvent, p mangos.Pipe) {
		if ev == mangos.PipeEventAttaching {
			simrt.Sleep(slow)
		}
	})
	addr := w.Addr(tran)
	l, err := s.NewListener(addr, w.EpOpts(addr, true, nil))
	if err != nil || l.Listen() != nil {
		w.Failf("HARNESS/listen", "%v", err)
		return
	}
	var peers []mangos.Socket
	for i := 0; i < npeers; i++ {
		ps := w.Sock(peerKind[kind])
		peers = append(peers, ps)
		// (one attempt each: a peer that lost its connection must not come back)
		_ = ps.DialOptions(addr, w.EpOpts(addr, false, map[string]interface{}{mangos.OptionDialAsynch: true, mangos.OptionReconnectTime: time.Hour, mangos.OptionMaxReconnectTime: time.Hour}))
		if w.Choose(simrt.SProg, 3) == 0 {
			w.Sleep(time.Duration(w.Choose(simrt.SProg, 4)) * 500 * time.Microsecond)
		}
	}
	w.Sleep(after)
	w.Op("%s over %s: %d peers connecting, Attaching callback takes %v; Close %s %v later", kind, tran, npeers, slow, what, after)
	var cl *Call
	if what == "socket" {
		cl = w.Do("Socket.Close", func() (interface{}, error) { return nil, s.Close() })
	} else {
		cl = w.Do("Listener.Close", func() (interface{}, error) { return nil, l.Close() })
	}
	if !cl.Wait(2 * time.Second) {
		if w.WedgeCheck("C10") {
			return
		}
		w.Failf("C10/close-never-returns", "%s over %s: Close of the %s during a burst of connections has not returned after 2s%s", kind, tran, what, w.BlockedReport())
		return
	}
	w.Sleep(time.Second)
	w.Settle()
	if what == "listener" {
		s.Close()
		w.Sleep(time.Second)
		w.Settle()
	}
	w.NoHygiene = true
	// the peers are still open: whatever the library accepted and then closed
	// they have seen end; a connection still open now was left behind
	if oc := nt.OpenConns(); len(oc) > 0 {
		w.Failf("C10/connection-left-open", "%s over %s: %d peers connected in a burst while the Attaching callback was slow; the %s was closed %v later; 1-2s after that %d connection ends are still open: %v", kind, tran, npeers, what, after, len(oc), oc)
		return
	}
	for _, ps := range peers {
		ps.Close()
	}
	w.Sleep(5 * time.Second)
	w.Settle()
	w.Census("C10", append(peers, s)...)
	w.Probe("close-during-connection-burst")
}

func init() {
	register(&Scenario{Name: "close-during-connection-burst", Prop: "C10", Horizon: time.Hour, Weight: 60, Run: c10CloseDuringBurst})
	register(&Scenario{Name: "close-during-connection-burst-lifecycle", Prop: "C13", Horizon: time.Hour, Weight: 15, Run: c10CloseDuringBurst})
}

// c10ClosedWithOptions: "later calls fail with a closed error" whatever
// non-default options the socket (or context) was given before it was closed -
// fail-no-peers, best effort, deadlines, queue lengths change which checks a
// Send or Recv makes first; none of them comes before "closed".
func c10ClosedWithOptions(w *W) {
	kind := allKinds[w.Choose(simrt.SShape, len(allKinds))]
	useCtx := hasContexts(kind) && w.Choose(simrt.SShape, 2) == 0
	w.SetShape("kind", kind)
	w.SetShape("ctx", useCtx)
	mn := w.UseMsgNet()
	s := w.Sock(kind)
	defer s.Close()
	var obj ioObj = s
	var ctx mangos.Context
	if useCtx {
		c, err := s.OpenContext()
		if err != nil {
			w.Failf("HARNESS/ctx", "%v", err)
			return
		}
		ctx = c
		obj = c.(ioObj)
	}
	var set []string
	for _, o := range []struct {
		n string
		v interface{}
	}{{mangos.OptionFailNoPeers, true}, {mangos.OptionBestEffort, true}, {mangos.OptionSendDeadline, time.Millisecond}, {mangos.OptionRecvDeadline, time.Millisecond}, {mangos.OptionWriteQLen, 0}, {mangos.OptionReadQLen, 0}} {
		if w.Choose(simrt.SShape, 2) == 0 && obj.SetOption(o.n, o.v) == nil {
			set = append(set, o.n)
		}
	}
	w.SetShape("options", fmt.Sprint(set))
	if w.Choose(simrt.SShape, 2) == 0 {
		// (a peer that has been there and left)
		addr := w.Addr("msg")
		if w.ListenOn(s, addr) == nil {
			if p := mn.Connect(addr); p != nil {
				w.Settle()
				p.ClosePeer()
				w.Settle()
			}
		}
	}
	what := "socket"
	if ctx != nil && w.Choose(simrt.SShape, 2) == 0 {
		what = "context"
		w.Here("Context.Close", func() (interface{}, error) { return nil, ctx.Close() })
	} else {
		w.Here("Socket.Close", func() (interface{}, error) { return nil, s.Close() })
	}
	w.Settle()
	for i := 0; i < 3; i++ {
		for _, c := range []*Call{
			w.Do("Send(after close)", func() (interface{}, error) {
				if obj == ioObj(s) {
					return nil, SendBody(s, kind, []byte("x"))
				}
				return nil, obj.Send([]byte("x"))
			}),
			w.Do("Recv(after close)", func() (interface{}, error) { return obj.Recv() }),
		} {
			w.Settle()
			if !c.Returned() {
				w.Failf("C10/call-blocks-after-close:"+strings.SplitN(c.Label, "(", 2)[0], "%s on a closed %s %s (options set before: %v) did not return at once", c.Label, kind, what, set)
				return
			}
			if !closedOK(c.Err) && !(what == "context" && c.Err == mangos.ErrProtoState) {
				w.Failf("C10/call-succeeds-after-close:"+strings.SplitN(c.Label, "(", 2)[0]+":"+kind+":"+what, "%s on a closed %s %s (options set before: %v) returned %v", c.Label, kind, what, set, errName(c.Err))
				return
			}
		}
	}
	w.Probe("closed-with-non-default-options")
}

func init() {
	register(&Scenario{Name: "closed-socket-calls-with-options-set", Prop: "C10", Horizon: time.Hour, Weight: 20, Run: c10ClosedWithOptions})
}
