module verifharness

go 1.26

require (
	github.com/anishathalye/porcupine v1.3.0
	github.com/gorilla/websocket v1.5.3
	go.nanomsg.org/mangos/v3 v3.0.0
)

replace go.nanomsg.org/mangos/v3 => /nonexistent/use-modfile
