package harness

import (
	"fmt"
	"strings"
	"time"

	"go.nanomsg.org/mangos/v3"
	"go.nanomsg.org/mangos/v3/verifsim/simrt"
)

// C07, end to end: real SURVEYOR contexts against real RESPONDENT sockets
// with worker contexts over inproc and the stream mapping. c07Run decides the
// id / expiry rules against scripted respondents with an exact clock; here the
// whole path (surveyor -> core -> transport -> respondent context -> back)
// runs real code, so a response mislabelled or misrouted anywhere on it shows
// up as "context X collected a response to another survey".

func c07E2E(w *W) {
	tran := w.simFallback([]string{"inproc", "sim", "simipc", "tcp", "ipc", "tls+tcp", "ws", "wss"}[w.Choose(simrt.SShape, 8)])
	nq := 1 + w.Choose(simrt.SShape, 3)
	nresp := 1 + w.Choose(simrt.SShape, 3)
	nrc := 1 + w.Choose(simrt.SShape, 2)
	nround := 1 + w.Choose(simrt.SShape, 4)
	T := []time.Duration{20 * time.Millisecond, 100 * time.Millisecond}[w.Choose(simrt.SShape, 2)]
	w.SetShape("tran", tran)
	w.SetShape("surveyor_ctxs", nq)
	w.SetShape("respondents", nresp)
	w.SetShape("respondent_ctxs", nrc)
	// one respondent's connection is reset while surveys are in flight (the
	// survey message is shared between the per-respondent send queues)
	fault := tran != "inproc" && nresp >= 2 && w.Choose(simrt.SShape, 3) == 0
	faultRound := w.Choose(simrt.SShape, nround)
	faultYields := w.Choose(simrt.SShape, 80)
	faultDone := false
	w.SetShape("reset", fault)
	// rapid: a context issues its surveys back to back, abandoning each one
	// while the respondents' answers to it are still on their way (they land
	// in the middle of the cancellation); only the last survey is collected
	rapid := w.Choose(simrt.SShape, 3) == 0
	w.SetShape("rapid", rapid)
	w.UseNet(NetCfg{Segment: w.Choose(simrt.SShape, 2) == 0, BufCap: []int{0, 64, 300}[w.Choose(simrt.SShape, 3)]})
	sv := w.Sock("surveyor")
	defer sv.Close()
	mustSet(w, sv, mangos.OptionSurveyTime, T)
	addr := w.Addr(tran)
	if err := w.ListenOn(sv, addr); err != nil {
		w.Failf("HARNESS/listen", "%v", err)
		return
	}
	stop := false
	for i := 0; i < nresp; i++ {
		r := w.Sock("respondent")
		defer r.Close()
		if err := w.DialOn(r, addr); err != nil {
			w.Failf("HARNESS/dial", "%v", err)
			return
		}
		for j := 0; j < nrc; j++ {
			i, j := i, j
			var c mangos.Context
			if j > 0 || w.Choose(simrt.SShape, 2) == 0 {
				var err error
				if c, err = r.OpenContext(); err != nil {
					w.Failf("HARNESS/ctx", "%v", err)
					return
				}
				_ = c.SetOption(mangos.OptionRecvDeadline, 2*time.Millisecond)
			} else {
				mustSet(w, r, mangos.OptionRecvDeadline, 2*time.Millisecond)
			}
			slow := w.Choose(simrt.SShape, 3)
			w.Do(fmt.Sprintf("resp%d.worker%d", i, j), func() (interface{}, error) {
				for !stop {
					var b []byte
					var err error
					if c != nil {
						b, err = c.Recv()
					} else {
						b, err = r.Recv()
					}
					if err == mangos.ErrClosed {
						return nil, nil
					}
					if err != nil {
						continue
					}
					if slow > 0 {
						simrt.Sleep(time.Duration(slow) * 200 * time.Microsecond)
					}
					ans := []byte(fmt.Sprintf("r%d:re:%s", i, b))
					if c != nil {
						_ = c.Send(ans)
					} else {
						_ = r.Send(ans)
					}
				}
				return nil, nil
			})
		}
	}
	w.Sleep(time.Millisecond)
	w.Settle()
	type qc struct {
		idx int
		c   mangos.Context
	}
	qcs := []*qc{{idx: 0}}
	for i := 1; i < nq; i++ {
		c, err := sv.OpenContext()
		if err != nil {
			w.Failf("HARNESS/ctx", "%v", err)
			return
		}
		qcs = append(qcs, &qc{idx: i, c: c})
	}
	sizes := make([][]int, nq)
	for i := range sizes {
		for k := 0; k < nround; k++ {
			sizes[i] = append(sizes[i], []int{0, 1, 10, 60, 200, 2000}[w.Choose(simrt.SProg, 6)])
		}
	}
	need := nresp
	if fault {
		need = nresp - 1 // the respondent that was cut off may miss surveys
	}
	// called by a surveying context right after its Send returned: the survey
	// sits in the per-respondent queues / is being written
	injectFault := func(k int) {
		if !fault || faultDone || k != faultRound {
			return
		}
		faultDone = true
		for y := faultYields; y > 0; y-- {
			simrt.Yield()
		}
		var open []*NetConn
		for _, c := range curNet.conns {
			if !c.IsClosed() {
				open = append(open, c)
			}
		}
		if len(open) > 0 {
			c := open[faultYields%len(open)]
			w.Op("connection %s -> %s is reset", c.local, c.remote)
			w.Fault("reset")
			c.Reset()
		}
		// pool pressure: what was wrongly released is handed out again
		for i := 0; i < 4; i++ {
			x := mangos.NewMessage(64)
			x.Body = append(x.Body, "scratch-scratch-scratch"...)
			x.Free()
		}
	}
	var calls []*Call
	for _, q := range qcs {
		q := q
		send := func(b []byte) error {
			if q.c != nil {
				return q.c.Send(b)
			}
			return sv.Send(b)
		}
		recv := func() ([]byte, error) {
			if q.c != nil {
				return q.c.Recv()
			}
			return sv.Recv()
		}
		calls = append(calls, w.Do(fmt.Sprintf("surveyor.ctx%d", q.idx), func() (interface{}, error) {
			n := 0
			for k, sz := range sizes[q.idx] {
				body := patBody(fmt.Sprintf("c%d-%d", q.idx, k), sz)
				if err := send(body); err != nil {
					return n, fmt.Errorf("Send: %v", err)
				}
				injectFault(k)
				if rapid && k < len(sizes[q.idx])-1 {
					for y := (k*7 + q.idx*3) % 12; y > 0; y-- {
						simrt.Yield()
					}
					continue
				}
				from := map[string]bool{}
				for {
					got, err := recv()
					if err != nil {
						// the survey is over (expired): ErrProtoState, or a receive deadline
						if err != mangos.ErrProtoState && err != mangos.ErrRecvTimeout {
							return n, fmt.Errorf("context %d survey %q: Recv failed with %v", q.idx, clip(body), err)
						}
						break
					}
					i := strings.Index(string(got), ":re:")
					if i < 0 || string(got[i+4:]) != string(body) {
						return n, fmt.Errorf("context %d is surveying %q and collected %q: not a response to its current survey", q.idx, clip(body), clip(got))
					}
					who := string(got[:i])
					if from[who] {
						return n, fmt.Errorf("context %d survey %q: two responses from respondent %s", q.idx, clip(body), who)
					}
					from[who] = true
					n++
				}
				// every respondent is connected, answers within ~1ms, nothing is
				// lost (no faults, queues deeper than the run): all must be in
				if len(from) < need {
					return n, fmt.Errorf("context %d survey %q (survey time %v): %d of %d connected respondents' responses were collected (%v)", q.idx, clip(body), T, len(from), nresp, from)
				}
			}
			return n, nil
		}))
	}
	for _, c := range calls {
		if !c.Wait(time.Duration(nround)*(T+time.Second) + time.Second) {
			w.WedgeCheck("C12")
			w.Failf("C07/e2e-stuck", "%s has not finished", c.Label)
			return
		}
		if c.Err != nil {
			w.Failf("C07/e2e-wrong-response", "%v", c.Err)
			return
		}
		w.Delivery += c.Val.(int)
	}
	stop = true
	w.Probe("e2e-surveys-completed")
}

func init() {
	register(&Scenario{Name: "survey-end-to-end", Prop: "C07", Horizon: time.Hour, Weight: 1, Run: c07E2E})
}
