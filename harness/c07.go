package harness

import (
	"bytes"
	"encoding/binary"
	"fmt"
	"time"

	"go.nanomsg.org/mangos/v3"
	"go.nanomsg.org/mangos/v3/verifsim/simrt"
)

// C07: SURVEYOR delivers only responses to its current, unexpired survey.
// Sequential model, exact simulated clock; every operation is followed by a
// settle so the model is deterministic (concurrency is inside the library).

type c7Surv struct {
	n     int
	tag   string
	id    uint32
	start time.Duration
	T     time.Duration
	cap   int // depth of this survey's response queue (the context's ReadQLen when it was sent)
}

type c7Ctx struct {
	idx    int
	c      mangos.Context
	cur    *c7Surv
	prevID []uint32
	queue  []string
	recv   *Call
	closed bool
	n      int
	T      time.Duration
	qlen   int // ReadQLen set on this context (0: never set, the default applies)
}

func c07Run(w *W) {
	raw := false
	nctx := 1 + w.Choose(simrt.SShape, 3)
	npipes := 1 + w.Choose(simrt.SShape, 3)
	Ts := []time.Duration{time.Millisecond, 50 * time.Millisecond, time.Second, time.Minute}
	T := Ts[w.Choose(simrt.SShape, len(Ts))]
	nops := 4 + w.Choose(simrt.SShape, 14)
	w.SetShape("ctxs", nctx)
	w.SetShape("pipes", npipes)
	w.SetShape("T", T.String())
	_ = raw
	mn := w.UseMsgNet()
	addr := w.Addr("msg")
	if w.Choose(simrt.SShape, 6) == 0 {
		w.AlignIDSeed(uint32(w.Choose(simrt.SShape, 4)))
		w.SetShape("ids_cross_wrap", true)
	}
	s := w.Sock("surveyor")
	defer s.Close()
	mustSet(w, s, mangos.OptionSurveyTime, T)
	if err := s.Listen(addr); err != nil {
		w.Failf("HARNESS/listen", "%v", err)
		return
	}
	var pipes []*MsgPipe
	var wire []WireMsg
	for i := 0; i < npipes; i++ {
		mn.ConnectWith(addr, func(p *MsgPipe) {
			pipes = append(pipes, p)
			p.OnSend = func(m WireMsg) { wire = append(wire, m) }
		})
	}
	w.Settle()
	ctxs := []*c7Ctx{{idx: 0, T: T}}
	for i := 1; i < nctx; i++ {
		c, err := s.OpenContext()
		if err != nil {
			w.Failf("HARNESS/ctx", "%v", err)
			return
		}
		ctxs = append(ctxs, &c7Ctx{idx: i, c: c, T: T})
	}
	send := func(c *c7Ctx, b []byte) error {
		if c.c != nil {
			return c.c.Send(b)
		}
		return s.Send(b)
	}
	recv := func(c *c7Ctx) ([]byte, error) {
		if c.c != nil {
			return c.c.Recv()
		}
		return s.Recv()
	}
	// expire applies survey expiry to the model for the current instant.
	expire := func() {
		now := w.Now()
		for _, c := range ctxs {
			if c.cur != nil && c.cur.T > 0 && now >= c.cur.start+c.cur.T { // (an accepted survey time of zero: no limit)
				exp := c.cur.start + c.cur.T
				if c.recv != nil {
					if !c.recv.Returned() {
						w.Failf("C07/recv-blocks-after-expiry", "ctx%d: survey %s expired at %v but Recv is still pending at %v", c.idx, c.cur.tag, exp, now)
						return
					}
					if c.recv.Err != mangos.ErrProtoState {
						w.Failf("C07/wrong-result-at-expiry", "ctx%d: survey %s expired at %v; the pending Recv returned (%q, %v)", c.idx, c.cur.tag, exp, c.recv.Val, errName(c.recv.Err))
						return
					}
					if c.recv.RetTime != exp {
						w.Failf("C07/expiry-time", "ctx%d: survey %s started %v with survey time %v; the pending Recv returned at %v", c.idx, c.cur.tag, c.cur.start, c.cur.T, c.recv.RetTime)
						return
					}
					w.Probe("recv-released-at-expiry")
					c.recv = nil
				}
				c.prevID = append(c.prevID, c.cur.id)
				c.cur = nil
				c.queue = nil
			}
		}
	}
	respN := 0
	wireSeen := 0
	for op := 0; op < nops && !w.Failed(); op++ {
		k := w.Choose(simrt.SProg, 10)
		a := w.Choose(simrt.SProg, 64)
		c := ctxs[a%len(ctxs)]
		switch {
		case k <= 1: // new survey
			if c.closed {
				continue
			}
			c.n++
			sv := &c7Surv{n: c.n, tag: fmt.Sprintf("s%d-%d", c.idx, c.n), start: w.Now(), T: c.T, cap: 128}
			if c.qlen > 0 {
				sv.cap = c.qlen
			}
			w.Op("ctx%d survey %s", c.idx, sv.tag)
			// a respondent may connect at the very moment the survey is sent: it
			// gets this survey or not, and every later one
			fresh := map[*MsgPipe]bool{}
			if len(pipes) < npipes+3 && w.Choose(simrt.SProg, 4) == 0 {
				mn.ConnectWith(addr, func(p *MsgPipe) {
					pipes = append(pipes, p)
					fresh[p] = true
					p.OnSend = func(m WireMsg) { wire = append(wire, m) }
				})
				w.Op("a respondent connects while %s is being sent", sv.tag)
				w.Probe("respondent-connects-during-survey")
			}
			call := w.Do("Send "+sv.tag, func() (interface{}, error) { return nil, send(c, []byte(sv.tag)) })
			w.Settle()
			if !call.Returned() || call.Err != nil {
				w.Failf("C07/survey-send", "survey Send returned=%v err=%v", call.Returned(), errName(call.Err))
				return
			}
			// every attached respondent is sent the survey exactly once
			got := map[*MsgPipe]int{}
			for ; wireSeen < len(wire); wireSeen++ {
				m := wire[wireSeen]
				if string(m.Body) != sv.tag || len(m.Header) != 4 {
					w.Failf("C07/survey-on-wire", "unexpected transmission header=%x body=%q while sending %s", m.Header, m.Body, sv.tag)
					return
				}
				id := binary.BigEndian.Uint32(m.Header)
				if sv.id != 0 && id != sv.id {
					w.Failf("C07/survey-on-wire", "survey %s sent with two different ids", sv.tag)
					return
				}
				sv.id = id
				got[m.Pipe]++
			}
			for _, p := range pipes {
				if fresh[p] && got[p] <= 1 {
					continue
				}
				if p.Open() && got[p] != 1 {
					w.Failf("C07/survey-not-broadcast", "survey %s reached respondent %s %d times", sv.tag, p.Name, got[p])
					return
				}
			}
			if sv.id&0x80000000 == 0 && sv.id != 0 {
				w.Failf("C07/survey-id", "survey id %08x lacks the top bit", sv.id)
				return
			}
			if c.recv != nil {
				if !c.recv.Returned() || c.recv.Err != mangos.ErrCanceled {
					w.Failf("C07/recv-not-cancelled", "ctx%d: a new survey was sent while Recv was pending; Recv returned=%v (%v)", c.idx, c.recv.Returned(), errName(c.recv.Err))
					return
				}
				w.Probe("recv-cancelled-by-new-survey")
				c.recv = nil
			}
			if c.cur != nil {
				c.prevID = append(c.prevID, c.cur.id)
			}
			c.cur, c.queue = sv, nil
			w.Delivery++
		case k <= 5: // a respondent answers (or forges)
			var open []*MsgPipe
			for _, p := range pipes {
				if p.Open() {
					open = append(open, p)
				}
			}
			if len(open) == 0 {
				continue
			}
			p := open[(a/4)%len(open)]
			var id uint32
			what := ""
			short := false
			var lead []byte
			switch w.Choose(simrt.SProg, 9) {
			case 8:
				// routing words (no top bit) in front of the current survey's id:
				// a response's header is the id alone; this one is malformed
				if c.cur == nil {
					continue
				}
				for n := 1 + w.Choose(simrt.SProg, 3); n > 1; n-- {
					lead = append(lead, u32(uint32(w.Choose(simrt.SProg, 1<<30))&0x7fffffff)...)
				}
				id, what = uint32(w.Choose(simrt.SProg, 1<<30))&0x7fffffff, fmt.Sprintf("%d words without the top bit, then the current id", len(lead)/4+1)
				lead = append(lead, u32(id)...)
				lead = append(lead, u32(c.cur.id)...)
				w.Fault("msg-malformed")
				w.Probe("response-with-leading-routing-words")
			case 0, 1, 2, 3:
				if c.cur == nil {
					if len(c.prevID) == 0 {
						continue
					}
					id, what = c.prevID[len(c.prevID)-1], "expired/previous"
					w.Fault("msg-stale")
				} else {
					id, what = c.cur.id, "current"
				}
			case 4:
				if len(c.prevID) == 0 {
					continue
				}
				id, what = c.prevID[w.Choose(simrt.SProg, len(c.prevID))], "previous"
				w.Fault("msg-stale")
			case 5:
				id, what = uint32(w.Choose(simrt.SProg, 1<<30))|0x80000000, "random"
				w.Fault("msg-foreign")
			case 6:
				if c.cur == nil {
					continue
				}
				id, what = c.cur.id&0x7fffffff, "no-top-bit"
				w.Fault("msg-malformed")
			case 7:
				short, what = true, "short"
				w.Fault("msg-malformed")
			}
			respN++
			tag := fmt.Sprintf("resp%d", respN)
			if !short && w.Choose(simrt.SProg, 8) == 0 {
				tag = "" // an empty response: exactly the 4 id bytes on the wire
				w.Probe("empty-response")
			}
			var wireb []byte
			if short {
				wireb = []byte("xyz")[:w.Choose(simrt.SProg, 4)]
			} else if lead != nil {
				wireb = append(lead, tag...)
			} else {
				wireb = append(u32(id), tag...)
			}
			w.Op("respondent %s sends %s id=%08x (%s)", p.Name, tag, id, what)
			p.Inject(wireb)
			w.Settle()
			expire()
			if w.Failed() {
				return
			}
			if short {
				continue
			}
			// model: which context takes it?
			for _, cx := range ctxs {
				if cx.cur != nil && cx.cur.id == id && !cx.closed {
					if cx.recv != nil {
						if !cx.recv.Returned() || cx.recv.Err != nil || string(cx.recv.Val.([]byte)) != tag {
							w.Failf("C07/response-not-delivered", "ctx%d has survey %s open (until %v) and a Recv pending; response %s arrived at %v; Recv returned=%v (%v)", cx.idx, cx.cur.tag, cx.cur.start+cx.cur.T, tag, w.Now(), cx.recv.Returned(), errName(cx.recv.Err))
							return
						}
						w.Delivery++
						cx.recv = nil
					} else if len(cx.queue) < cx.cur.cap {
						cx.queue = append(cx.queue, tag)
					}
				}
			}
		case k <= 7: // Recv
			if c.recv != nil {
				continue
			}
			call := w.Do(fmt.Sprintf("ctx%d.Recv", c.idx), func() (interface{}, error) { return recv(c) })
			w.Settle()
			expire()
			if w.Failed() {
				return
			}
			w.Op("ctx%d Recv", c.idx)
			switch {
			case c.closed:
				// closed error, or "no survey in progress": both fail promptly
				if !call.Returned() || (call.Err != mangos.ErrClosed && call.Err != mangos.ErrProtoState) {
					w.Failf("C07/recv-on-closed-context", "returned=%v err=%v", call.Returned(), errName(call.Err))
					return
				}
			case c.cur == nil:
				if !call.Returned() {
					w.Failf("C07/recv-blocks-without-survey", "ctx%d has no survey in progress (none, or expired) but Recv blocks", c.idx)
					return
				}
				if call.Err != mangos.ErrProtoState {
					w.Failf("C07/delivery-without-survey", "ctx%d has no survey in progress but Recv returned (%q, %v)", c.idx, call.Val, errName(call.Err))
					return
				}
				w.Probe("recv-protostate")
			case len(c.queue) > 0:
				want := c.queue[0]
				c.queue = c.queue[1:]
				if !call.Returned() || call.Err != nil || string(call.Val.([]byte)) != want {
					w.Failf("C07/wrong-response", "ctx%d survey %s: expected the queued response %s, Recv returned=%v (%q, %v)", c.idx, c.cur.tag, want, call.Returned(), call.Val, errName(call.Err))
					return
				}
				w.Delivery++
			default:
				if call.Returned() {
					w.Failf("C07/spurious-recv-result", "ctx%d survey %s open, nothing queued, yet Recv returned (%q, %v)", c.idx, c.cur.tag, call.Val, errName(call.Err))
					return
				}
				c.recv = call
			}
		case k == 8 && a%5 == 1 && !c.closed:
			// the survey time is changed (it applies to surveys sent from now
			// on): the survey in progress keeps the time it was sent with
			nt := []time.Duration{T / 2, 2 * T, T, 3 * T, 0, T}[(a/5)%6]
			if nt < 0 {
				nt = T
			}
			if nt == 0 {
				// accepted, documented as "no limit" - for the surveys sent from
				// now on; the one in progress is neither cut short nor prolonged
				w.Probe("survey-time-set-to-zero-during-survey")
			}
			w.Op("ctx%d SetOption(SurveyTime, %v)", c.idx, nt)
			var err error
			if c.c != nil {
				err = c.c.SetOption(mangos.OptionSurveyTime, nt)
			} else {
				err = s.SetOption(mangos.OptionSurveyTime, nt)
			}
			if err != nil {
				w.Failf("C19/surveytime-rejected", "surveyor ctx%d SetOption(SurveyTime, %v): %v", c.idx, nt, err)
				return
			}
			c.T = nt
			w.Probe("survey-time-changed-during-survey")
		case k == 8 && a%5 == 0 && !c.closed:
			// the receive queue length is changed (it applies to surveys sent
			// from now on): the survey in progress, its queued responses and a
			// Recv waiting on it are unaffected
			q := []int{1, 2, 5, 128}[(a/5)%4]
			w.Op("ctx%d SetOption(ReadQLen, %d)", c.idx, q)
			var err error
			if c.c != nil {
				err = c.c.SetOption(mangos.OptionReadQLen, q)
			} else {
				err = s.SetOption(mangos.OptionReadQLen, q)
			}
			if err != nil {
				w.Failf("C19/readqlen-rejected", "surveyor ctx%d SetOption(ReadQLen, %d): %v", c.idx, q, err)
				return
			}
			c.qlen = q
			w.Probe("readqlen-changed-during-survey")
		case k == 8: // time passes: short of, exactly to, or beyond the expiry
			ds := []time.Duration{T / 3, T - 1, T, T + 1, 2 * T, time.Millisecond}
			d := ds[a%len(ds)]
			if c.cur != nil && c.cur.T > 0 && a%2 == 0 {
				// aim at this context's expiry instant
				rem := c.cur.start + c.cur.T - w.Now()
				d = []time.Duration{rem - 1, rem, rem + 1}[(a/2)%3]
				if d < 0 {
					d = 0
				}
			}
			w.Op("advance %v", d)
			w.Sleep(d)
			w.Settle()
			expire()
		case k == 9 && c.c == nil && len(ctxs) < nctx+2:
			// a context opened in the middle of the history, whatever surveys
			// are in progress on the socket and on the other contexts: it
			// starts without a survey and shares nothing with them
			nc, err := s.OpenContext()
			if err != nil {
				w.Failf("HARNESS/ctx", "%v", err)
				return
			}
			cx := &c7Ctx{idx: len(ctxs), c: nc, T: ctxs[0].T, qlen: ctxs[0].qlen} // (a new context starts with the socket's settings)
			ctxs = append(ctxs, cx)
			w.Op("ctx%d opened", cx.idx)
			w.Probe("context-opened-mid-history")
			if w.Choose(simrt.SProg, 2) == 0 {
				call := w.Do(fmt.Sprintf("ctx%d.Recv", cx.idx), func() (interface{}, error) { return recv(cx) })
				w.Settle()
				expire()
				if w.Failed() {
					return
				}
				if !call.Returned() {
					w.Failf("C07/recv-blocks-without-survey", "ctx%d was just opened and has sent no survey, but its Recv blocks", cx.idx)
					return
				}
				if call.Err != mangos.ErrProtoState {
					w.Failf("C07/delivery-without-survey", "ctx%d was just opened and has sent no survey, but its Recv returned (%q, %v)", cx.idx, call.Val, errName(call.Err))
					return
				}
			}
		case k == 9: // close a context
			if c.c == nil || c.closed {
				continue
			}
			w.Op("ctx%d Close", c.idx)
			w.Here("ctx.Close", func() (interface{}, error) { return nil, c.c.Close() })
			w.Settle()
			c.closed = true
			if c.recv != nil {
				if !c.recv.Returned() || c.recv.Err != mangos.ErrClosed {
					w.Failf("C10/call-not-unblocked:ctx", "context closed while Recv pending: returned=%v err=%v", c.recv.Returned(), errName(c.recv.Err))
					return
				}
				c.recv = nil
			}
			if c.cur != nil {
				c.prevID = append(c.prevID, c.cur.id)
			}
			c.cur, c.queue = nil, nil
		}
		w.Settle()
		expire()
		// no pending Recv may have returned without a modelled reason
		for _, cx := range ctxs {
			if cx.recv != nil && cx.recv.Returned() && !w.Failed() {
				w.Failf("C07/spurious-recv-result", "ctx%d: pending Recv returned (%q, %v) at %v without any modelled cause", cx.idx, cx.recv.Val, errName(cx.recv.Err), cx.recv.RetTime)
				return
			}
		}
	}
	_ = bytes.Equal
}

func init() {
	register(&Scenario{Name: "surveyor-responses", Prop: "C07", Horizon: 2 * time.Hour, Weight: 40, Run: c07Run})
	// C19: the survey time and the receive queue length are changed while
	// surveys are in progress (also to the accepted zero = no limit): they
	// take effect for the next survey, as documented, and disturb nothing
	register(&Scenario{Name: "survey-options-changed-mid-survey", Prop: "C19", Horizon: 2 * time.Hour, Weight: 4, Run: c07Run})
}
