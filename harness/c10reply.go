package harness

import (
	"fmt"
	"time"

	"go.nanomsg.org/mangos/v3"
	"go.nanomsg.org/mangos/v3/verifsim/simrt"
)

// C10 close-with-blocked-reply: a reply (REP, RESPONDENT, cooked on the
// socket or on a context, and their raw forms) blocked behind the full queue of
// a requester that has stopped reading - the one kind of blocked Send the
// close-everything scenario cannot create, because a reply needs a request
// first. Then one of: the socket is closed, the context the reply was sent on
// is closed, another context is closed, the requester goes away. The blocked
// Send returns at that instant with the closed error (socket / own context),
// stays blocked (another context's Close), or ends one way or the other
// (requester gone); afterwards calls fail with the closed error and the
// census is clean.
func c10BlockedReply(w *W) {
	kind := []string{"rep", "respondent", "xrep", "xrespondent"}[w.Choose(simrt.SShape, 4)]
	useCtx := !isRaw(kind) && w.Choose(simrt.SShape, 2) == 0
	qlen := w.Choose(simrt.SShape, 3)
	w.SetShape("kind", kind)
	w.SetShape("ctx", useCtx)
	w.SetShape("qlen", qlen)

	mn := w.UseMsgNet()
	addr := w.Addr("msg")
	s := w.Sock(kind)
	closed := false
	defer func() {
		if !closed {
			s.Close()
		}
	}()
	_ = s.SetOption(mangos.OptionWriteQLen, qlen)
	mn.Endpoint(addr).SendCap = 1 // the requester takes one message and stops reading
	if err := w.ListenOn(s, addr); err != nil {
		w.Failf("HARNESS/listen", "%v", err)
		return
	}
	peer := mn.Connect(addr)
	w.Settle()
	if peer == nil {
		w.Failf("HARNESS/connect", "no connection")
		return
	}
	var ctx, other mangos.Context
	if useCtx {
		var err error
		if ctx, err = s.OpenContext(); err != nil {
			w.Failf("HARNESS/ctx", "%v", err)
			return
		}
		if other, err = s.OpenContext(); err != nil {
			w.Failf("HARNESS/ctx", "%v", err)
			return
		}
	}
	recvMsg := func() (*mangos.Message, error) {
		if ctx != nil {
			return ctx.RecvMsg()
		}
		return s.RecvMsg()
	}
	sendMsg := func(m *mangos.Message) error {
		if ctx != nil {
			return ctx.SendMsg(m)
		}
		return s.SendMsg(m)
	}
	var blocked *Call
	for i := 0; i < qlen+6 && blocked == nil; i++ {
		peer.Inject(inbound(kind, uint32(i+1), fmt.Sprintf("request%d", i)))
		w.Settle()
		rc := w.Do("RecvMsg(request)", func() (interface{}, error) { return recvMsg() })
		w.Settle()
		if !rc.Returned() || rc.Err != nil {
			w.Failf("HARNESS/request", "%s: request %d not received (returned=%v err=%v)", kind, i, rc.Returned(), rc.Err)
			return
		}
		req := rc.Val.(*mangos.Message)
		hdr := append([]byte(nil), req.Header...)
		req.Free()
		i := i
		sc := w.Do(fmt.Sprintf("SendMsg(reply %d)", i), func() (interface{}, error) {
			m := mangos.NewMessage(16)
			if isRaw(kind) {
				m.Header = append(m.Header, hdr...)
			}
			m.Body = append(m.Body, fmt.Sprintf("reply%d", i)...)
			err := sendMsg(m)
			if err != nil {
				m.Free()
			}
			return nil, err
		})
		w.Settle()
		if !sc.Returned() {
			blocked = sc
		} else if sc.Err != nil {
			w.Failf("HARNESS/reply", "%s: reply %d failed: %v", kind, i, sc.Err)
			return
		}
	}
	if blocked == nil {
		w.Probe("reply-never-blocked")
		return
	}
	w.Probe("reply-blocked-behind-stalled-requester")
	w.Op("%s: a reply is blocked behind the stalled requester (WriteQLen %d, context %v)", kind, qlen, useCtx)
	if w.Choose(simrt.SProg, 2) == 0 {
		w.Sleep(time.Duration(1+w.Choose(simrt.SProg, 500)) * time.Millisecond)
		w.Settle()
		if blocked.Returned() {
			w.Failf("C18/no-deadline-returned", "%s: the reply blocked without a send deadline returned (%v) at %v although nothing changed", kind, blocked.Err, blocked.RetTime)
			return
		}
	}
	acts := []string{"socket-close", "requester-leaves"}
	if useCtx {
		acts = append(acts, "context-close", "other-context-close")
	}
	act := acts[w.Choose(simrt.SProg, len(acts))]
	w.SetShape("act", act)
	w.Op("%s", act)
	t0 := w.Now()
	var cl *Call
	switch act {
	case "socket-close":
		closed = true
		cl = w.Do("Socket.Close", func() (interface{}, error) { return nil, s.Close() })
	case "context-close":
		cl = w.Do("Context.Close", func() (interface{}, error) { return nil, ctx.Close() })
	case "other-context-close":
		cl = w.Do("other Context.Close", func() (interface{}, error) { return nil, other.Close() })
	case "requester-leaves":
		w.Fault("close")
		peer.ClosePeer()
	}
	w.Settle()
	if w.WedgeCheck("C12") {
		return
	}
	if cl != nil && !cl.Returned() {
		w.Failf("C10/close-did-not-return:"+act, "%s: %s is still pending after the settle at %v while a reply was blocked behind a stalled requester", kind, cl.Label, w.Now())
		return
	}
	switch act {
	case "socket-close", "context-close":
		if !blocked.Returned() {
			w.Failf("C10/call-not-unblocked:blocked-reply", "%s: %s was blocked behind a stalled requester when %s ran at %v and is still pending after the settle%s", kind, blocked.Label, cl.Label, t0, w.BlockedReport())
			return
		}
		if blocked.RetTime != t0 {
			w.Failf("C10/call-not-unblocked:blocked-reply", "%s: %s returned at %v, the close was at %v", kind, blocked.Label, blocked.RetTime, t0)
			return
		}
		if !closedOK(blocked.Err) {
			w.Failf("C10/wrong-error-on-close:blocked-reply", "%s: %s returned %v when %s ran", kind, blocked.Label, blocked.Err, cl.Label)
			return
		}
		w.Probe("blocked-reply-released-by-close")
		// later calls on the closed object fail with the closed error at once
		late := []*Call{
			w.Do("RecvMsg(after close)", func() (interface{}, error) { return recvMsg() }),
			w.Do("SendMsg(after close)", func() (interface{}, error) {
				m := mangos.NewMessage(4)
				err := sendMsg(m)
				if err != nil {
					m.Free()
				}
				return nil, err
			}),
		}
		w.Settle()
		for _, c := range late {
			if !c.Returned() {
				w.Failf("C10/call-blocks-after-close:"+act, "%s: %s is pending after %s", kind, c.Label, cl.Label)
				return
			}
			if c.Err == nil {
				if v, ok := c.Val.(*mangos.Message); ok && v != nil {
					continue // an already queued request: allowed
				}
				w.Failf("C10/call-succeeds-after-close:"+act, "%s: %s succeeded after %s", kind, c.Label, cl.Label)
				return
			}
			if !closedOK(c.Err) && c.Err != mangos.ErrProtoState {
				w.Failf("C10/wrong-error-after-close:"+act, "%s: %s returned %v after %s", kind, c.Label, c.Err, cl.Label)
				return
			}
		}
		if act == "context-close" {
			// the socket and the other context are unharmed: a new requester is served
			c10ReplyRound(w, kind, s, mn, addr, other, "after the context was closed")
		}
	case "other-context-close":
		if blocked.Returned() {
			w.Failf("C10/context-close-harmed-others", "%s: closing another context ended %s (%v), which was blocked on its own context", kind, blocked.Label, blocked.Err)
			return
		}
		w.Probe("blocked-reply-survives-other-context-close")
		closed = true
		sc := w.Do("Socket.Close", func() (interface{}, error) { return nil, s.Close() })
		t1 := w.Now()
		w.Settle()
		if !sc.Returned() || !blocked.Returned() || blocked.RetTime != t1 || !closedOK(blocked.Err) {
			w.Failf("C10/call-not-unblocked:blocked-reply", "%s: after the socket was closed at %v: Close returned=%v, %s returned=%v at %v with %v", kind, t1, sc.Returned(), blocked.Label, blocked.Returned(), blocked.RetTime, blocked.Err)
			return
		}
	case "requester-leaves":
		if !blocked.Returned() {
			w.Failf("C10/call-not-unblocked:blocked-reply", "%s: the requester went away at %v and %s, blocked behind its queue, is still pending%s", kind, t0, blocked.Label, w.BlockedReport())
			return
		}
		if blocked.Err != nil && !closedOK(blocked.Err) {
			w.Failf("C10/wrong-error-on-close:blocked-reply", "%s: %s returned %v when the requester went away", kind, blocked.Label, blocked.Err)
			return
		}
		w.Probe("blocked-reply-ended-by-requester-leaving")
		// the socket carries on with a new requester
		var on mangos.Context
		if ctx != nil {
			on = ctx
		}
		c10ReplyRound(w, kind, s, mn, addr, on, "after the stalled requester left")
	}
}

// c10ReplyRound: a fresh, reading requester connects, asks once and gets its answer.
func c10ReplyRound(w *W, kind string, sock mangos.Socket, mn *MsgNet, addr string, on mangos.Context, when string) {
	mn.Endpoint(addr).SendCap = 0
	p := mn.Connect(addr)
	w.Settle()
	if p == nil {
		w.Failf("C10/part-close-broke-listener", "%s: no new connection accepted %s", kind, when)
		return
	}
	p.Inject(inbound(kind, 4242, "again"))
	w.Settle()
	rc := w.Do("RecvMsg(new requester)", func() (interface{}, error) {
		if on != nil {
			return on.RecvMsg()
		}
		return sock.RecvMsg()
	})
	w.Settle()
	if !rc.Returned() || rc.Err != nil {
		w.Failf("C10/context-close-harmed-others", "%s: %s a new requester's request is not received (returned=%v err=%v)", kind, when, rc.Returned(), rc.Err)
		return
	}
	m := rc.Val.(*mangos.Message)
	sc := w.Do("SendMsg(new requester)", func() (interface{}, error) {
		m.Body = append(m.Body[:0], "answer"...)
		var err error
		if on != nil {
			err = on.SendMsg(m)
		} else {
			err = sock.SendMsg(m)
		}
		return nil, err
	})
	w.Settle()
	if !sc.Returned() || sc.Err != nil {
		w.Failf("C10/context-close-harmed-others", "%s: %s the answer to a new requester is not sent (returned=%v err=%v)", kind, when, sc.Returned(), sc.Err)
		return
	}
	if !p.WaitSent(1) {
		w.Failf("C10/context-close-harmed-others", "%s: %s the answer to a new requester never reached it", kind, when)
		return
	}
	w.Delivery++
	w.Probe("served-a-new-requester-afterwards")
}

func init() {
	register(&Scenario{Name: "close-with-blocked-reply", Prop: "C10", Horizon: time.Hour, Weight: 50, Run: c10BlockedReply})
	register(&Scenario{Name: "blocked-reply-keeps-working", Prop: "C12", Horizon: time.Hour, Weight: 4, Run: c10BlockedReply})
}

// c10ReqCtxClose: several REQ contexts (and the socket itself) blocked in Send
// for lack of a peer; one context is closed - its Send returns the closed
// error, nobody else's does anything; then a peer connects and every other
// blocked Send goes out.
func c10ReqCtxClose(w *W) {
	nctx := 2 + w.Choose(simrt.SShape, 3)
	w.SetShape("ctxs", nctx)
	mn := w.UseMsgNet()
	addr := w.Addr("msg")
	s := w.Sock("req")
	defer s.Close()
	if err := w.ListenOn(s, addr); err != nil {
		w.Failf("HARNESS/listen", "%v", err)
		return
	}
	type snd struct {
		c    mangos.Context
		call *Call
		tag  string
	}
	var snds []*snd
	for i := 0; i < nctx; i++ {
		x := &snd{tag: fmt.Sprintf("req-%d", i)}
		if i > 0 {
			c, err := s.OpenContext()
			if err != nil {
				w.Failf("HARNESS/ctx", "%v", err)
				return
			}
			x.c = c
		}
		x.call = w.Do("Send "+x.tag, func() (interface{}, error) {
			if x.c != nil {
				return nil, x.c.Send([]byte(x.tag))
			}
			return nil, s.Send([]byte(x.tag))
		})
		snds = append(snds, x)
		if w.Choose(simrt.SProg, 2) == 0 {
			w.Settle()
		}
	}
	w.Settle()
	for _, x := range snds {
		if x.call.Returned() {
			w.Failf("HARNESS/blocked", "Send %s returned (%v) without a peer", x.tag, x.call.Err)
			return
		}
	}
	// close one or two of the contexts (never the socket's own)
	closedSet := map[*snd]bool{}
	for k := 1 + w.Choose(simrt.SProg, 2); k > 0; k-- {
		v := snds[1+w.Choose(simrt.SProg, nctx-1)]
		if closedSet[v] {
			continue
		}
		closedSet[v] = true
		t0 := w.Now()
		cl := w.Do("Context.Close "+v.tag, func() (interface{}, error) { return nil, v.c.Close() })
		w.Settle()
		if !cl.Returned() || !v.call.Returned() || v.call.RetTime != t0 || v.call.Err != mangos.ErrClosed {
			w.Failf("C10/call-not-unblocked:ctx", "REQ context closed at %v while its Send was waiting for a peer: Close returned=%v, Send returned=%v at %v with %v", t0, cl.Returned(), v.call.Returned(), v.call.RetTime, v.call.Err)
			return
		}
		for _, x := range snds {
			if !closedSet[x] && x.call.Returned() {
				w.Failf("C10/context-close-harmed-others", "closing the context of %s ended the Send %s of another context (%v)", v.tag, x.tag, x.call.Err)
				return
			}
		}
	}
	p := mn.Connect(addr)
	w.Settle()
	if p == nil {
		w.Failf("C10/part-close-broke-listener", "after closing a context nobody accepts on the socket's listener")
		return
	}
	// one request per connection at a time: the peer answers what it gets, the next goes out
	for round := 0; round < nctx+1; round++ {
		w.Sleep(time.Millisecond)
		w.Settle()
		for {
			m, ok := p.Take()
			if !ok {
				break
			}
			p.Inject(append(append([]byte(nil), m.Header...), "ok"...))
		}
	}
	w.Settle()
	for _, x := range snds {
		if !closedSet[x] && !x.call.Returned() {
			w.Failf("C10/context-close-harmed-others", "%s was blocked for lack of a peer when another context of the socket was closed; a peer is attached now (and answers), the Send is still pending%s", x.call.Label, w.BlockedReport())
			return
		}
	}
	sent := map[string]bool{}
	for _, m := range p.Sent() {
		sent[string(m.Body)] = true
	}
	for _, x := range snds {
		if closedSet[x] && sent[x.tag] {
			w.Failf("C10/closed-context-request-transmitted", "the request %s of a context closed before any peer existed was transmitted", x.tag)
			return
		}
		if !closedSet[x] && !sent[x.tag] {
			w.Failf("C10/context-close-harmed-others", "the request %s of a context that was not closed never reached the peer", x.tag)
			return
		}
	}
	w.Delivery += len(snds)
	w.Probe("context-close-leaves-other-senders")
}

func init() {
	register(&Scenario{Name: "req-context-close-leaves-other-senders", Prop: "C10", Horizon: time.Hour, Weight: 12, Run: c10ReqCtxClose})
}
