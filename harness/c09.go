package harness

import (
	"bytes"
	"fmt"
	"strings"
	"time"

	"go.nanomsg.org/mangos/v3"
	"go.nanomsg.org/mangos/v3/verifsim/simrt"
)

// C09: devices forward transparently and the hop limit is exact.

// synthHops returns the protocol header of a message that has crossed k
// connections when it reaches a socket of this family (k >= 1). ok=false when
// the family's encoding cannot express k.
func synthHops(family string, k int, salt uint32) ([]byte, bool) {
	switch family {
	case "reqrep", "survey":
		var h []byte
		for i := 0; i < k; i++ {
			word := (salt + uint32(i)*7919) & 0x7fffffff
			if i == k-1 {
				word |= 0x80000000
			}
			h = append(h, u32(word)...)
		}
		return h, true
	case "pair1", "star":
		if k-1 > 255 {
			return nil, false
		}
		return []byte{0, 0, 0, byte(k - 1)}, true
	}
	return nil, false
}

var c9Kinds = []struct{ kind, family string }{
	{"rep", "reqrep"}, {"xrep", "reqrep"}, {"respondent", "survey"}, {"xrespondent", "survey"},
	{"pair1", "pair1"}, {"xpair1", "pair1"}, {"star", "star"}, {"xstar", "star"},
}

// c09Grid: one (kind, TTL) cell per run index, all hop counts 1..TTL+2.
func c09Grid(w *W) {
	cell := w.ScenOrd
	kc := c9Kinds[cell%len(c9Kinds)]
	ttl := 1 + (cell/len(c9Kinds))%255
	w.SetShape("kind", kc.kind)
	w.SetShape("ttl", ttl)
	mn := w.UseMsgNet()
	addr := w.Addr("msg")
	s := w.Sock(kc.kind)
	defer s.Close()
	// default and range of the option
	if v, err := s.GetOption(mangos.OptionTTL); err != nil || v != 8 {
		w.Failf("C09/ttl-default", "%s: default TTL is (%v, %v), expected 8", kc.kind, v, err)
		return
	}
	for _, bad := range []int{0, -1, 256, 1000} {
		if err := s.SetOption(mangos.OptionTTL, bad); err != mangos.ErrBadValue {
			w.Failf("C09/ttl-range", "%s: SetOption(TTL,%d) returned %v", kc.kind, bad, errName(err))
			return
		}
	}
	for _, good := range []int{1, 255, ttl} {
		if err := s.SetOption(mangos.OptionTTL, good); err != nil {
			w.Failf("C09/ttl-range", "%s: SetOption(TTL,%d) returned %v", kc.kind, good, err)
			return
		}
	}
	mustSet(w, s, mangos.OptionRecvDeadline, time.Millisecond)
	if err := w.ListenOn(s, addr); err != nil {
		w.Failf("HARNESS/listen", "%v", err)
		return
	}
	p := mn.Connect(addr)
	w.Settle()
	w.Op("%s with TTL %d: inject messages that crossed k = 1..%d connections, each followed by an in-limit sentinel", kc.kind, ttl, ttl+2)
	limit := ttl
	if kc.family == "pair1" {
		limit = ttl + 1
	}
	ks := []int{}
	for k := 1; k <= ttl+2; k++ {
		ks = append(ks, k)
	}
	if (kc.family == "pair1" || kc.family == "star") && ttl < 253 {
		ks = append(ks, 255, 256) // hop bytes 254 and 255: far beyond any smaller TTL
	}
	for _, k := range ks {
		if w.Failed() {
			break
		}
		hdr, ok := synthHops(kc.family, k, uint32(w.Choose(simrt.SProg, 1<<20)))
		if !ok {
			continue
		}
		if (kc.family == "pair1" || kc.family == "star") && k-1 == 255 && ttl == 255 {
			// a one-byte count of 255 cannot be incremented: with the one TTL
			// that would admit it, delivery is not asserted either way. What
			// is asserted: the count never goes down. A raw socket shows the
			// header it would forward; it must not have wrapped to a small
			// count (a forwarding loop would never die out).
			if isRaw(kc.kind) {
				p.Inject(append(append([]byte(nil), hdr...), "probe-hop255"...))
				w.Settle()
				c := w.Do("RecvMsg", func() (interface{}, error) { return s.RecvMsg() })
				c.Wait(5 * time.Millisecond)
				w.Settle()
				if c.Returned() && c.Err == nil {
					m := c.Val.(*mangos.Message)
					if len(m.Header) >= 4 && m.Header[3] < 255 {
						w.Failf("C09/hop-count-wrapped:"+kc.kind, "%s with TTL 255 received a message whose hop byte was 255 and hands it on with header % x: the count wrapped around, a forwarding loop would never end", kc.kind, m.Header)
						return
					}
					m.Free()
				}
				w.Probe("hop-byte-255-at-ttl-255")
			}
			continue
		}
		if k-1 == 255 {
			w.Probe("hop-byte-255-below-ttl-255")
		}
		probe := fmt.Sprintf("probe-k%d", k)
		shdr, _ := synthHops(kc.family, 1, 99)
		p.Inject(append(append([]byte(nil), hdr...), probe...))
		p.Inject(append(append([]byte(nil), shdr...), "sentinel"...))
		w.Settle()
		var got []string
		for i := 0; i < 3; i++ {
			c := w.Do("Recv", func() (interface{}, error) { return s.Recv() })
			c.Wait(5 * time.Millisecond)
			w.Settle()
			if !c.Returned() {
				w.Failf("C18/late", "Recv with 1ms deadline pending")
				return
			}
			if c.Err != nil {
				break
			}
			got = append(got, string(c.Val.([]byte)))
			if got[len(got)-1] == "sentinel" {
				break
			}
		}
		delivered := len(got) > 0 && got[0] == probe
		if len(got) == 0 || got[len(got)-1] != "sentinel" {
			w.Failf("C09/sentinel-lost:"+kc.kind, "%s TTL %d: after a message that crossed %d connections, an in-limit message was not delivered (got %v)", kc.kind, ttl, k, got)
			return
		}
		want := k <= limit
		if delivered != want {
			verb := "dropped"
			if delivered {
				verb = "delivered"
			}
			which := "in-limit-dropped"
			if delivered {
				which = "over-limit-delivered"
			}
			w.Failf("C09/"+which+":"+kc.kind, "%s with TTL %d %s a message that crossed %d connections (limit: %d)", kc.kind, ttl, verb, k, limit)
			return
		}
		w.Delivery++
		if k == limit {
			w.Probe("at-limit-delivered")
		}
		if k == limit+1 {
			w.Probe("over-limit-dropped")
		}
	}
}

// ---------------------------------------------------------------- chains

type c9Family struct {
	name          string
	client, serve string // cooked ends: client sends first
	devFront      string // raw socket of a device facing the client side
	devBack       string // raw socket of a device facing the server side
	reply         bool
}

var c9Families = []c9Family{
	{"reqrep", "req", "rep", "xrep", "xreq", true},
	{"survey", "surveyor", "respondent", "xrespondent", "xsurveyor", true},
	{"pipeline", "push", "pull", "xpull", "xpush", false},
	{"pubsub", "pub", "sub", "xsub", "xpub", false},
	{"pair", "pair", "pair", "xpair", "xpair", false},
	{"pair1", "pair1", "pair1", "xpair1", "xpair1", false},
	{"star", "star", "star", "star", "", false}, // a STAR socket forwards by itself: the "device" is one socket
}

// c09Chain: cooked client(s) -> d devices -> cooked server, calibrating the
// synthetic hop encoding on the way (the bytes that reach the last hop).
func c09Chain(w *W) {
	fam := c9Families[w.Choose(simrt.SShape, len(c9Families))]
	d := w.Choose(simrt.SShape, 4) // chain length 0..3
	nclient := 1
	if fam.reply || fam.name == "pipeline" {
		nclient = 1 + w.Choose(simrt.SShape, 4)
	}
	calibrate := w.Choose(simrt.SShape, 3) == 0 && (fam.name == "reqrep" || fam.name == "survey" || fam.name == "pair1" || fam.name == "star")
	if calibrate {
		nclient = 1
	}
	tran := w.simFallback([]string{"inproc", "sim", "tcp", "ipc", "tls+tcp", "ws", "wss"}[w.Choose(simrt.SShape, 7)])
	nmsg := 1 + w.Choose(simrt.SShape, 5)
	w.SetShape("family", fam.name)
	w.SetShape("devices", d)
	w.SetShape("clients", nclient)
	w.SetShape("calibrate", calibrate)
	w.SetShape("tran", tran)
	w.UseNet(NetCfg{Segment: w.Choose(simrt.SShape, 2) == 0})
	mn := w.UseMsgNet()
	var all []mangos.Socket
	defer func() {
		for _, s := range all {
			s.Close()
		}
	}()
	sock := func(kind string) mangos.Socket {
		s := w.Sock(kind)
		all = append(all, s)
		return s
	}
	// server end (or, when calibrating, a scripted pipe that records bytes)
	var server mangos.Socket
	var tap *MsgPipe
	endAddr := w.Addr(tran)
	if calibrate {
		endAddr = w.Addr("msg")
		mn.Endpoint(endAddr).OnPipe = func(p *MsgPipe) { tap = p }
	} else {
		server = sock(fam.serve)
		if fam.name == "pubsub" {
			mustSet(w, server, mangos.OptionSubscribe, "")
		}
		if err := w.ListenOn(server, endAddr); err != nil {
			w.Failf("HARNESS/listen", "%v", err)
			return
		}
	}
	// devices, from the server side towards the clients
	next := endAddr
	for i := 0; i < d; i++ {
		if fam.devBack == "" {
			x := sock(fam.devFront)
			if err := w.DialOn(x, next); err != nil {
				w.Failf("HARNESS/dev-dial", "%v", err)
				return
			}
			next = w.Addr(tran)
			if err := w.ListenOn(x, next); err != nil {
				w.Failf("HARNESS/dev-listen", "%v", err)
				return
			}
			continue
		}
		front, back := sock(fam.devFront), sock(fam.devBack)
		if err := w.DialOn(back, next); err != nil {
			w.Failf("HARNESS/dev-dial", "%v", err)
			return
		}
		next = w.Addr(tran)
		if err := w.ListenOn(front, next); err != nil {
			w.Failf("HARNESS/dev-listen", "%v", err)
			return
		}
		if err := mangos.Device(front, back); err != nil {
			w.Failf("C09/device-refused", "Device(%s,%s): %v", fam.devFront, fam.devBack, err)
			return
		}
	}
	var clients []mangos.Socket
	for i := 0; i < nclient; i++ {
		c := sock(fam.client)
		if err := w.DialOn(c, next); err != nil {
			w.Failf("HARNESS/client-dial", "%v", err)
			return
		}
		clients = append(clients, c)
	}
	w.Op("%s: %d client(s) -> %d device(s) -> server over %s (calibrate=%v)", fam.name, nclient, d, tran, calibrate)
	w.Sleep(5 * time.Millisecond)
	w.Settle()
	if calibrate {
		// what arrives at the last hop must be what synthHops builds for k = d+1
		c := clients[0]
		if err := c.Send([]byte("calib")); err != nil {
			w.Failf("HARNESS/calib-send", "%v", err)
			return
		}
		w.Sleep(5 * time.Millisecond)
		w.Settle()
		if tap == nil || tap.SentCount() == 0 {
			w.Failf("C09/chain-lost-message", "%s through %d devices: nothing reached the last hop", fam.name, d)
			return
		}
		m := tap.Sent()[0]
		raw := m.Bytes()
		i := bytes.Index(raw, []byte("calib"))
		if i < 0 {
			w.Failf("C09/payload-changed", "%s through %d devices: payload arrived as %x", fam.name, d, raw)
			return
		}
		hdr := raw[:i]
		family := fam.name
		want, _ := synthHops(family, d+1, 0)
		ok := len(hdr) == len(want)
		if ok {
			switch family {
			case "pair1", "star":
				ok = bytes.Equal(hdr, want)
			default:
				// same number of words, exactly the last one carries the top bit
				for j := 0; j+4 <= len(hdr); j += 4 {
					top := hdr[j]&0x80 != 0
					if top != (j == len(hdr)-4) {
						ok = false
					}
				}
			}
		}
		if !ok {
			w.Failf("HARNESS/calibration", "%s: after %d devices (= %d connections) the header on the wire is %x; the synthetic generator builds %x for that hop count", family, d, d+1, hdr, want)
			return
		}
		w.Probe(fmt.Sprintf("calibrated-%s-k%d", family, d+1))
		w.Delivery++
		return
	}
	// traffic
	switch {
	case fam.reply:
		// echo server
		mustSet(w, server, mangos.OptionRecvDeadline, 500*time.Millisecond)
		w.Go("echo", func() {
			for {
				m, err := server.Recv()
				if err != nil {
					return
				}
				if err := server.Send(append([]byte("re:"), m...)); err != nil {
					return
				}
			}
		})
		var calls []*Call
		for ci, c := range clients {
			ci, c := ci, c
			mustSet(w, c, mangos.OptionRecvDeadline, 2*time.Second)
			if fam.name == "survey" {
				mustSet(w, c, mangos.OptionSurveyTime, time.Second)
			}
			calls = append(calls, w.Do(fmt.Sprintf("client%d", ci), func() (interface{}, error) {
				for i := 0; i < nmsg; i++ {
					q := fmt.Sprintf("c%d-%d|%s", ci, i, strings.Repeat("p", w.Choose(simrt.SProg, 70)))
					if err := c.Send([]byte(q)); err != nil {
						return nil, err
					}
					r, err := c.Recv()
					if err != nil {
						return nil, fmt.Errorf("request %s: %w", q, err)
					}
					if string(r) != "re:"+q {
						w.Failf("C09/reply-to-wrong-client:"+fam.name, "%s through %d devices: client %d asked %q and received %q", fam.name, d, ci, q, r)
						return nil, nil
					}
					w.Delivery++
				}
				return nil, nil
			}))
		}
		for _, c := range calls {
			if !c.Wait(30 * time.Second) {
				w.WedgeCheck("C12")
				w.Failf("C09/chain-stuck:"+fam.name, "%s through %d devices: %s did not finish", fam.name, d, c.Label)
				return
			}
			if c.Err != nil && !w.Failed() {
				w.Failf("C09/chain-lost-message:"+fam.name, "%s through %d devices (within the default TTL 8): %s: %v", fam.name, d, c.Label, c.Err)
				return
			}
		}
	default:
		r := c2StartReceiver(w, "server", server, 300*time.Millisecond)
		want := map[string]bool{}
		var calls []*Call
		for ci, c := range clients {
			ci, c := ci, c
			calls = append(calls, w.Do(fmt.Sprintf("client%d", ci), func() (interface{}, error) {
				for i := 0; i < nmsg; i++ {
					b := fmt.Sprintf("c%d:0:%d", ci, i)
					want[b] = true
					if err := c.Send([]byte(b)); err != nil {
						return nil, err
					}
					w.Sleep(100 * time.Microsecond)
				}
				return nil, nil
			}))
		}
		for _, c := range calls {
			if !c.Wait(20*time.Second) || c.Err != nil {
				w.Failf("C09/chain-stuck:"+fam.name, "%s through %d devices: %s returned=%v err=%v", fam.name, d, c.Label, c.Returned(), errName(c.Err))
				return
			}
		}
		w.Sleep(time.Second)
		w.Settle()
		got := map[string]int{}
		for _, b := range r.got {
			got[b]++
			if !want[b] {
				w.Failf("C09/payload-changed:"+fam.name, "%s through %d devices: the server received %q which no client sent", fam.name, d, b)
				return
			}
		}
		for b := range want {
			if got[b] != 1 {
				w.Failf("C09/chain-lost-message:"+fam.name, "%s through %d devices: %q arrived %d times", fam.name, d, b, got[b])
				return
			}
		}
	}
}

// c09ChainTTL: heterogeneous TTLs along a chain. Every socket on the path gets
// its own tape-chosen TTL before Device() is started on it; a message from the
// client is delivered to the server if and only if, at every socket that
// receives it on the way, the number of connections crossed so far is within
// that socket's limit (TTL; TTL+1 for PAIR1). The TTL of sockets that only
// send in that direction (the back side of a device) plays no part, and
// running a device on a socket does not change the socket's TTL.
func c09ChainTTL(w *W) {
	fams := []c9Family{c9Families[0], c9Families[1], c9Families[5], c9Families[6]}
	fam := fams[w.Choose(simrt.SShape, len(fams))]
	d := 1 + w.Choose(simrt.SShape, 3)
	tran := w.simFallback([]string{"inproc", "sim", "tcp", "ipc"}[w.Choose(simrt.SShape, 4)])
	ttls := []int{1, 2, 3, 4, 8}
	if w.Choose(simrt.SShape, 6) == 0 {
		// a chain longer than the default hop limit admits, with limits raised
		// to match: routing headers grow past eight words and still come back
		d = 8 + w.Choose(simrt.SShape, 4)
		ttls = []int{12, 16, 40, 255}
		w.SetShape("long_chain", true)
		w.Probe("chain-longer-than-default-hop-limit")
	}
	pick := func() int { return ttls[w.Choose(simrt.SShape, len(ttls))] }
	w.SetShape("family", fam.name)
	w.SetShape("devices", d)
	w.SetShape("tran", tran)
	w.UseNet(NetCfg{})
	var all []mangos.Socket
	defer func() {
		for _, s := range all {
			s.Close()
		}
	}()
	sock := func(kind string, ttl int) mangos.Socket {
		s := w.Sock(kind)
		all = append(all, s)
		if ttl > 0 {
			mustSet(w, s, mangos.OptionTTL, ttl)
		}
		return s
	}
	limitOf := func(ttl int) int {
		if fam.name == "pair1" {
			return ttl + 1
		}
		return ttl
	}
	type hop struct {
		s    mangos.Socket
		name string
		ttl  int
	}
	var devSocks []hop // every device socket, to read the TTL back afterwards
	serverTTL := pick()
	server := sock(fam.serve, serverTTL)
	endAddr := w.Addr(tran)
	if err := w.ListenOn(server, endAddr); err != nil {
		w.Failf("HARNESS/listen", "%v", err)
		return
	}
	// devices from the server side towards the client: device number i (from
	// the client) receives the client's message after i connections
	next := endAddr
	frontTTL := make([]int, d+1)
	var desc []string
	for i := d; i >= 1; i-- {
		ft, bt := pick(), pick()
		frontTTL[i] = ft
		if fam.devBack == "" {
			x := sock(fam.devFront, ft)
			devSocks = append(devSocks, hop{x, fmt.Sprintf("forwarder %d (%s)", i, fam.devFront), ft})
			if err := w.DialOn(x, next); err != nil {
				w.Failf("HARNESS/dev-dial", "%v", err)
				return
			}
			next = w.Addr(tran)
			if err := w.ListenOn(x, next); err != nil {
				w.Failf("HARNESS/dev-listen", "%v", err)
				return
			}
			desc = append(desc, fmt.Sprintf("forwarder%d ttl=%d", i, ft))
			continue
		}
		front, back := sock(fam.devFront, ft), sock(fam.devBack, 0)
		// (the requesting-side raw sockets have no TTL option in some patterns)
		if err := back.SetOption(mangos.OptionTTL, bt); err != nil {
			bt = 0
		} else {
			devSocks = append(devSocks, hop{back, fmt.Sprintf("device %d back (%s)", i, fam.devBack), bt})
		}
		devSocks = append(devSocks, hop{front, fmt.Sprintf("device %d front (%s)", i, fam.devFront), ft})
		if err := w.DialOn(back, next); err != nil {
			w.Failf("HARNESS/dev-dial", "%v", err)
			return
		}
		next = w.Addr(tran)
		if err := w.ListenOn(front, next); err != nil {
			w.Failf("HARNESS/dev-listen", "%v", err)
			return
		}
		if err := mangos.Device(front, back); err != nil {
			w.Failf("C09/device-refused", "Device(%s,%s): %v", fam.devFront, fam.devBack, err)
			return
		}
		desc = append(desc, fmt.Sprintf("device%d front ttl=%d back ttl=%d", i, ft, bt))
	}
	client := sock(fam.client, 0)
	if err := w.DialOn(client, next); err != nil {
		w.Failf("HARNESS/client-dial", "%v", err)
		return
	}
	w.Sleep(5 * time.Millisecond)
	w.Settle()
	for _, h := range devSocks {
		if v, err := h.s.GetOption(mangos.OptionTTL); err != nil || v != h.ttl {
			w.Failf("C09/device-changed-ttl:"+fam.name, "%s was given TTL %d before it was put to work; GetOption(TTL) now returns (%v, %v)", h.name, h.ttl, v, err)
			return
		}
	}
	if w.Choose(simrt.SShape, 2) == 0 {
		// the receiving end changes its hop limit now that the chain is up and
		// idle: the very next message is judged by the new value
		nt := pick()
		if err := server.SetOption(mangos.OptionTTL, nt); err != nil {
			w.Failf("C19/option-refused", "%s: SetOption(TTL, %d) on a connected socket: %v", fam.serve, nt, err)
			return
		}
		w.SetShape("server_ttl_changed_when_idle", fmt.Sprintf("%d->%d", serverTTL, nt))
		if nt != serverTTL {
			w.Probe("ttl-changed-on-an-idle-connection")
		}
		serverTTL = nt
		w.Settle()
	}
	want := d+1 <= limitOf(serverTTL)
	blockedAt := ""
	for i := 1; i <= d; i++ {
		if i > limitOf(frontTTL[i]) {
			want = false
			if blockedAt == "" {
				blockedAt = fmt.Sprintf("device %d (TTL %d) after %d connections", i, frontTTL[i], i)
			}
		}
	}
	if blockedAt == "" && !want {
		blockedAt = fmt.Sprintf("the server (TTL %d) after %d connections", serverTTL, d+1)
	}
	w.Op("%s: client -> %v -> server ttl=%d over %s; expect delivered=%v %s", fam.name, desc, serverTTL, tran, want, blockedAt)
	delivered := false
	switch {
	case fam.reply:
		mustSet(w, server, mangos.OptionRecvDeadline, 400*time.Millisecond)
		srv := w.Do("server", func() (interface{}, error) {
			m, err := server.Recv()
			if err != nil {
				return nil, err
			}
			return string(m), server.Send(append([]byte("re:"), m...))
		})
		mustSet(w, client, mangos.OptionRecvDeadline, 300*time.Millisecond)
		if fam.name == "survey" {
			mustSet(w, client, mangos.OptionSurveyTime, 300*time.Millisecond)
		} else {
			mustSet(w, client, mangos.OptionRetryTime, time.Hour)
		}
		cl := w.Do("client", func() (interface{}, error) {
			if err := client.Send([]byte("question")); err != nil {
				return nil, err
			}
			return client.Recv()
		})
		if !cl.Wait(5*time.Second) || !srv.Wait(5*time.Second) {
			w.Failf("C09/chain-stuck:"+fam.name, "a bounded round trip did not finish")
			return
		}
		delivered = srv.Err == nil
		if delivered && srv.Val != "question" {
			w.Failf("C09/payload-changed:"+fam.name, "the server received %q", srv.Val)
			return
		}
		if delivered && (cl.Err != nil || string(cl.Val.([]byte)) != "re:question") {
			w.Failf("C09/chain-lost-message:"+fam.name, "%s through %d devices: the request was delivered (every TTL on its way admits it) but the reply did not come back: (%v, %v)", fam.name, d, cl.Val, cl.Err)
			return
		}
	default:
		mustSet(w, server, mangos.OptionRecvDeadline, 300*time.Millisecond)
		srv := w.Do("server", func() (interface{}, error) { return server.Recv() })
		if err := client.Send([]byte("note")); err != nil {
			w.Failf("HARNESS/send", "%v", err)
			return
		}
		if !srv.Wait(5 * time.Second) {
			w.Failf("C18/late", "Recv with a 300ms deadline pending")
			return
		}
		delivered = srv.Err == nil
		if delivered && string(srv.Val.([]byte)) != "note" {
			w.Failf("C09/payload-changed:"+fam.name, "the server received %q", srv.Val)
			return
		}
	}
	if delivered != want {
		which, verb := "in-limit-dropped", "was dropped"
		if delivered {
			which, verb = "over-limit-delivered", "was delivered"
		}
		w.Failf("C09/"+which+":chain:"+fam.name, "%s: client -> %v -> server (TTL %d): the message %s; expected delivered=%v %s", fam.name, desc, serverTTL, verb, want, blockedAt)
		return
	}
	w.Delivery++
	if want {
		w.Probe("chain-ttl-delivered")
	} else {
		w.Probe("chain-ttl-dropped")
	}
}

func init() {
	register(&Scenario{Name: "device-chain-ttl", Prop: "C09", Horizon: time.Hour, Run: c09ChainTTL})
	register(&Scenario{Name: "ttl-grid", Prop: "C09", Horizon: time.Hour, Run: c09Grid})
	register(&Scenario{Name: "device-chains", Prop: "C09", Horizon: time.Hour, Run: c09Chain})
}
