package harness

import (
	"bytes"
	"fmt"
	"time"

	"go.nanomsg.org/mangos/v3"
	"go.nanomsg.org/mangos/v3/verifsim/simrt"
)

// C07, raw side: "every connected respondent is sent each survey (queue space
// permitting)" and "responses ... with malformed headers are discarded" for
// XSURVEYOR, for every accepted send queue length including the unbuffered
// zero, with respondents joining and leaving between surveys. The surveys are
// spaced (a settle in between: every pipe's sender is idle and the scripted
// respondents take whatever they are given), so queue space always permits and
// every survey must reach every connected respondent exactly once, unchanged.
func c07XSurveyor(w *W) {
	q := []int{0, 1, 2, 128}[w.Choose(simrt.SShape, 4)]
	when := w.Choose(simrt.SShape, 2) // the queue length is set before or after the first respondents connect
	nresp := 1 + w.Choose(simrt.SShape, 3)
	w.SetShape("wq", q)
	w.SetShape("set_after_connect", when == 1)
	w.SetShape("respondents", nresp)
	mn := w.UseMsgNet()
	addr := w.Addr("msg")
	s := w.Sock("xsurveyor")
	defer s.Close()
	if when == 0 {
		mustSet(w, s, mangos.OptionWriteQLen, q)
	}
	mustSet(w, s, mangos.OptionReadQLen, 16)
	if err := w.ListenOn(s, addr); err != nil {
		w.Failf("HARNESS/listen", "%v", err)
		return
	}
	var pipes []*MsgPipe
	seen := map[int]int{} // pipe index -> transmissions already judged
	for i := 0; i < nresp; i++ {
		pipes = append(pipes, mn.Connect(addr))
	}
	w.Settle()
	if when == 1 {
		// (applies to pipes connected from now on; the earlier ones keep theirs)
		mustSet(w, s, mangos.OptionWriteQLen, q)
	}
	nsurv := 3 + w.Choose(simrt.SProg, 6)
	for i := 0; i < nsurv && !w.Failed(); i++ {
		switch w.Choose(simrt.SProg, 5) {
		case 0:
			if len(pipes) < 6 {
				pipes = append(pipes, mn.Connect(addr))
				w.Op("respondent %d joins", len(pipes)-1)
				w.Probe("respondent-joins-between-surveys")
			}
		case 1:
			for _, p := range pipes {
				if p.Open() {
					w.Op("respondent %s leaves", p.Name)
					w.Fault("close")
					p.ClosePeer()
					break
				}
			}
		}
		w.Settle()
		burst := 1
		if q >= 2 && w.Choose(simrt.SProg, 3) == 0 {
			burst = 2 // within the queue: still "space permitting"
		}
		var want [][]byte
		for b := 0; b < burst; b++ {
			id := 0x80000000 | uint32(w.Choose(simrt.SProg, 1<<30))
			body := []byte(fmt.Sprintf("survey-%d-%d", i, b))
			if w.Choose(simrt.SProg, 8) == 0 {
				body = nil
			}
			m := mangos.NewMessage(len(body))
			m.Header = append(m.Header, u32(id)...)
			m.Body = append(m.Body, body...)
			want = append(want, append(u32(id), body...))
			c := w.Do("xsurveyor.SendMsg", func() (interface{}, error) { return nil, s.SendMsg(m) })
			w.Settle()
			if !c.Returned() || c.Err != nil {
				w.Failf("C07/survey-send", "XSURVEYOR (WriteQLen %d) SendMsg: returned=%v err=%v", q, c.Returned(), errName(c.Err))
				return
			}
		}
		w.Settle()
		for _, p := range pipes {
			sent := p.Sent()
			fresh := sent[seen[p.Idx]:]
			seen[p.Idx] = len(sent)
			if !p.Open() {
				continue
			}
			if len(fresh) != len(want) {
				w.Failf("C07/survey-not-sent-to-every-respondent", "XSURVEYOR with WriteQLen %d (set %s the first respondents connected), %d respondents connected, all idle: survey %d (%d message(s)) produced %d transmission(s) to respondent %s", q, []string{"before", "after"}[when], len(pipes), i, len(want), len(fresh), p.Name)
				return
			}
			for k := range want {
				if !bytes.Equal(fresh[k].Bytes(), want[k]) {
					w.Failf("C07/survey-changed", "XSURVEYOR: respondent %s was sent %x, the survey was %x", p.Name, fresh[k].Bytes(), want[k])
					return
				}
			}
			w.Delivery += len(want)
		}
		w.Probe("raw-survey-reached-every-respondent")
		// a respondent answers: a raw surveyor hands up every response with a
		// 4-byte header, whatever the id; shorter ones are discarded
		for _, p := range pipes {
			if !p.Open() || w.Choose(simrt.SProg, 2) == 0 {
				continue
			}
			if w.Choose(simrt.SProg, 4) == 0 {
				w.Fault("msg-malformed")
				p.Inject([]byte("xyz")[:w.Choose(simrt.SProg, 4)])
				w.Settle()
				continue
			}
			hdr := want[0][:4]
			resp := []byte(fmt.Sprintf("resp-%d-%s", i, p.Name))
			p.Inject(append(append([]byte(nil), hdr...), resp...))
			w.Settle()
			rc := w.Do("xsurveyor.RecvMsg", func() (interface{}, error) { return s.RecvMsg() })
			w.Settle()
			if !rc.Returned() || rc.Err != nil {
				w.Failf("C07/raw-response-not-delivered", "XSURVEYOR: respondent %s answered survey %d; RecvMsg returned=%v err=%v", p.Name, i, rc.Returned(), errName(rc.Err))
				return
			}
			got := rc.Val.(*mangos.Message)
			if !bytes.Equal(got.Header, hdr) || !bytes.Equal(got.Body, resp) {
				w.Failf("C07/raw-response-changed", "XSURVEYOR: respondent %s sent header %x body %q; RecvMsg gave header %x body %q", p.Name, hdr, resp, got.Header, got.Body)
				return
			}
			got.Free()
			w.Delivery++
		}
		// nothing else is waiting (short responses were discarded)
		_ = s.SetOption(mangos.OptionRecvDeadline, time.Millisecond)
		rc := w.Do("xsurveyor.RecvMsg(nothing left)", func() (interface{}, error) { return s.RecvMsg() })
		if !rc.Wait(time.Second) || rc.Err != mangos.ErrRecvTimeout {
			w.Failf("C07/raw-unexpected-delivery", "XSURVEYOR: every response was taken and short ones must be discarded, yet RecvMsg returned=%v (%v, %v)", rc.Returned(), rc.Val, errName(rc.Err))
			return
		}
		_ = s.SetOption(mangos.OptionRecvDeadline, time.Duration(0))
	}
}

func init() {
	register(&Scenario{Name: "xsurveyor-broadcast", Prop: "C07", Horizon: time.Hour, Weight: 4, Run: c07XSurveyor})
}
