package harness

import (
	"bytes"
	"fmt"
	"time"

	"go.nanomsg.org/mangos/v3"
	"go.nanomsg.org/mangos/v3/verifsim/simrt"
)

// C05: a reply whose Send gives up (send deadline) while the same socket or
// context has already taken the next request. Requester A never reads, so the
// replies to it pile up until one blocks in Send; while it is blocked a second
// goroutine receives request B (from another connection) on the same context;
// A's reply times out; the reply then sent answers B: it goes to B's
// connection with B's header, never to A, and nothing further is owed to A.
func c05ReplyTimesOut(w *W) {
	kind := []string{"rep", "respondent"}[w.Choose(simrt.SShape, 2)]
	useCtx := w.Choose(simrt.SShape, 2) == 0
	d := []time.Duration{time.Millisecond, 50 * time.Millisecond, time.Second}[w.Choose(simrt.SShape, 3)]
	w.SetShape("kind", kind)
	w.SetShape("ctx", useCtx)
	w.SetShape("send_deadline", d.String())
	mn := w.UseMsgNet()
	addr := w.Addr("msg")
	s := w.Sock(kind)
	defer s.Close()
	mustSet(w, s, mangos.OptionWriteQLen, 1)
	if err := w.ListenOn(s, addr); err != nil {
		w.Failf("HARNESS/listen", "%v", err)
		return
	}
	a := mn.ConnectWith(addr, func(p *MsgPipe) { p.SendCap = 1 }) // stalled: takes one reply, then nothing
	b := mn.Connect(addr)
	w.Settle()
	var obj ioObj = s
	if useCtx {
		c, err := s.OpenContext()
		if err != nil {
			w.Failf("HARNESS/ctx", "%v", err)
			return
		}
		obj = c.(ioObj)
	}
	mustSet(w, obj, mangos.OptionSendDeadline, d)
	mustSet(w, obj, mangos.OptionRecvDeadline, time.Hour)
	// rounds with A until a reply blocks
	var blocked *Call
	n := uint32(0)
	for i := 0; i < 6 && blocked == nil; i++ {
		n++
		a.Inject(append(u32(0x80000000|n), fmt.Sprintf("qa%d", n)...))
		w.Settle()
		rc := w.Do("Recv(from A)", func() (interface{}, error) { return obj.Recv() })
		w.Settle()
		if !rc.Returned() || rc.Err != nil {
			w.Failf("HARNESS/prep", "request %d of A not received: returned=%v err=%v", n, rc.Returned(), errName(rc.Err))
			return
		}
		sc := w.Do(fmt.Sprintf("Send(reply to qa%d)", n), func() (interface{}, error) { return nil, obj.Send([]byte(fmt.Sprintf("ra%d", n))) })
		w.Settle()
		if !sc.Returned() {
			blocked = sc
		} else if sc.Err != nil {
			w.Failf("HARNESS/prep", "reply %d to A: %v", n, sc.Err)
			return
		}
	}
	if blocked == nil {
		w.Failf("HARNESS/prep", "no reply to the stalled requester ever blocked")
		return
	}
	w.Probe("reply-blocked-behind-stalled-requester")
	// while it is blocked: request B arrives and is taken on the same context
	idB := uint32(0x80000000 | 0x5b5b)
	b.Inject(append(u32(idB), "qb"...))
	w.Settle()
	rb := w.Do("Recv(from B)", func() (interface{}, error) { return obj.Recv() })
	w.Settle()
	if blocked.Returned() {
		return // (the deadline was shorter than the set-up: nothing overlaps)
	}
	if !rb.Returned() || rb.Err != nil {
		// a Recv refused or waiting while a Send is in progress on the same
		// context is a legitimate design; then there is no overlap to test
		w.Probe("recv-during-blocked-reply-not-served")
		return
	}
	if string(rb.Val.([]byte)) != "qb" {
		w.Failf("C05/wrong-request", "Recv returned %q, B sent \"qb\"", rb.Val)
		return
	}
	w.Probe("next-request-taken-while-reply-blocked")
	// the blocked reply times out, exactly at its deadline
	if rem := blocked.InvTime + d - w.Now(); rem > 0 {
		w.Sleep(rem)
	}
	w.Settle()
	if !blocked.Returned() {
		w.WedgeCheck("C12")
		w.Failf("C18/late", "%s reply Send with deadline %v invoked at %v is still pending at %v", kind, d, blocked.InvTime, w.Now())
		return
	}
	if blocked.Err != mangos.ErrSendTimeout {
		w.Failf("C18/wrong-timeout-error", "%s reply Send behind a stalled requester returned %v at its deadline", kind, errName(blocked.Err))
		return
	}
	nA, nB := a.SentCount(), b.SentCount()
	// the reply to B
	sb := w.Do("Send(reply to qb)", func() (interface{}, error) { return nil, obj.Send([]byte("rb")) })
	w.Sleep(2 * d)
	w.Settle()
	if !sb.Returned() || sb.Err != nil {
		w.WedgeCheck("C12")
		w.Failf("C05/reply-not-transmitted", "%s: request qb (from B) was the last one received on the context; the reply Send returned=%v err=%v (an earlier reply to the stalled requester A had timed out meanwhile)", kind, sb.Returned(), errName(sb.Err))
		return
	}
	if a.SentCount() != nA {
		for _, m := range a.Sent()[nA:] {
			if bytes.HasSuffix(m.Bytes(), []byte("rb")) {
				w.Failf("C05/reply-to-wrong-pipe", "%s: the reply to B's request went to requester A (header %x): A's timed-out reply had put A's routing state back", kind, m.Header)
				return
			}
		}
	}
	sent := b.Sent()
	if len(sent) != nB+1 || !bytes.Equal(sent[nB].Bytes(), append(u32(idB), "rb"...)) {
		w.Failf("C05/reply-not-transmitted", "%s: the reply to B's request: B received %d new transmission(s) %x, want exactly %x", kind, len(sent)-nB, func() []byte {
			if len(sent) > nB {
				return sent[nB].Bytes()
			}
			return nil
		}(), append(u32(idB), "rb"...))
		return
	}
	w.Delivery++
	// nothing further is owed to anybody
	sx := w.Do("Send(no request pending)", func() (interface{}, error) { return nil, obj.Send([]byte("extra")) })
	w.Sleep(2 * d)
	w.Settle()
	if !sx.Returned() || sx.Err != mangos.ErrProtoState {
		w.Failf("C05/send-without-request", "%s: every received request has been answered (one reply timed out); another Send returned=%v err=%v, want the protocol-state error", kind, sx.Returned(), errName(sx.Err))
		return
	}
}

func init() {
	register(&Scenario{Name: "reply-times-out-while-next-request-is-taken", Prop: "C05", Horizon: time.Hour, Weight: 3, Run: c05ReplyTimesOut})
}
