package harness

import (
	"bytes"
	"fmt"
	"strings"
	"time"

	"go.nanomsg.org/mangos/v3"
	"go.nanomsg.org/mangos/v3/verifsim/simrt"
)

// C17: a message belongs to exactly one owner at a time.
//
// Two oracles work together: the message ledger injected into message.go
// (owner count never below zero, no Clone/Dup/MakeUnique/Free of a released
// message, released buffers are poisoned and the poison must be intact when
// the pool hands the buffer out again, NewMessage(n) is empty with capacity
// >= n) - it is active in every run of every check - and the application-side
// snapshots below: whatever RecvMsg handed out must never change while the
// application holds it, and a failed SendMsg leaves the message intact with
// the caller.

type held struct {
	raw    []byte // a body returned by Recv (the []byte form) instead of a message
	m      *mangos.Message
	body   []byte
	header []byte
	from   string
	freeAt int
}

type retainer struct {
	w    *W
	held []*held
	tick int
	n    int
}

func (r *retainer) keep(m *mangos.Message, from string, keepFor int) {
	r.n++
	if r.n%3 == 1 {
		// the application works on its message in place (it is exclusively
		// the application's): nobody else's copy of the same publication
		// may notice
		for i := range m.Body {
			m.Body[i] ^= 0x20
		}
		for i := range m.Header {
			m.Header[i] ^= 0x55
		}
		r.w.Probe("received-message-modified-in-place")
	}
	r.held = append(r.held, &held{m: m, body: append([]byte(nil), m.Body...), header: append([]byte(nil), m.Header...), from: from, freeAt: r.tick + keepFor})
}

// keepBytes retains a body returned by Recv (the []byte form of the API): it
// is the application's as much as a message is.
func (r *retainer) keepBytes(b []byte, from string, keepFor int) {
	r.n++
	if r.n%3 == 1 {
		for i := range b {
			b[i] ^= 0x20
		}
	}
	r.held = append(r.held, &held{raw: b, body: append([]byte(nil), b...), from: from, freeAt: r.tick + keepFor})
}

// check verifies every retained message against its snapshot, and frees the
// ones whose time has come.
func (r *retainer) check() bool {
	r.tick++
	keep := r.held[:0]
	for _, h := range r.held {
		if h.m == nil {
			if !bytes.Equal(h.raw, h.body) {
				r.w.Failf("C17/received-body-changed:"+h.from, "a body returned by Recv on %s (%d bytes) changed while the application held it: %q -> %q (first difference at %d)", h.from, len(h.body), clip(h.body), clip(h.raw), firstDiff(h.raw, h.body))
				return false
			}
			if h.freeAt > r.tick {
				keep = append(keep, h)
			}
			continue
		}
		if !bytes.Equal(h.m.Body, h.body) || !bytes.Equal(h.m.Header, h.header) {
			r.w.Failf("C17/received-message-changed:"+h.from, "a message returned by RecvMsg on %s changed while the application held it: body %q -> %q, header %x -> %x", h.from, clip(h.body), clip(h.m.Body), h.header, h.m.Header)
			return false
		}
		if rc := mangos.VerifRefcnt(h.m); rc != 1 {
			r.w.Failf("C17/received-message-shared:"+h.from, "a message returned by RecvMsg on %s has owner count %d", h.from, rc)
			return false
		}
		if h.freeAt <= r.tick {
			h.m.Free()
			continue
		}
		keep = append(keep, h)
	}
	r.held = keep
	return true
}

func clip(b []byte) []byte {
	if len(b) > 24 {
		return b[:24]
	}
	return b
}

func patBody(tag string, n int) []byte {
	b := make([]byte, 0, len(tag)+1+n)
	b = append(b, tag...)
	b = append(b, '|')
	for i := 0; i < n; i++ {
		b = append(b, byte('a'+(i*7+len(tag))%26))
	}
	return b
}

var c17Sizes = []int{0, 1, 30, 60, 63, 64, 65, 120, 127, 128, 129, 250, 256, 500, 512, 1000, 1024, 1025, 4000, 4096, 8192, 9000}

func c17Run(w *W) {
	topo := []string{"pubsub", "bus", "star", "survey", "reqrep", "pipeline", "pair"}[w.Choose(simrt.SShape, 7)]
	tran := w.simFallback([]string{"inproc", "sim", "simipc", "tcp", "ipc", "tls+tcp", "ws", "wss"}[w.Choose(simrt.SShape, 8)])
	nrecv := 1 + w.Choose(simrt.SShape, 3)
	nmsg := 2 + w.Choose(simrt.SShape, 8)
	w.SetShape("topo", topo)
	w.SetShape("tran", tran)
	w.SetShape("receivers", nrecv)
	w.UseNet(NetCfg{Segment: w.Choose(simrt.SShape, 2) == 0, BufCap: []int{0, 200}[w.Choose(simrt.SShape, 2)]})
	var all []mangos.Socket
	defer func() {
		for _, s := range all {
			s.Close()
		}
	}()
	sock := func(kind string) mangos.Socket {
		s := w.Sock(kind)
		all = append(all, s)
		_ = s.SetOption(mangos.OptionRecvDeadline, 2*time.Millisecond)
		return s
	}
	ret := &retainer{w: w}
	var keptRefs []*held // messages of which the sending application kept a reference of its own
	var sender mangos.Socket
	type rcv struct {
		name  string
		recv  func() (*mangos.Message, error)
		s     mangos.Socket
		recvB func() ([]byte, error)
	}
	var rcvs []rcv
	addr := w.Addr(tran)
	skind, rkind := "", ""
	switch topo {
	case "pubsub":
		skind, rkind = "pub", "sub"
	case "bus":
		skind, rkind = "bus", "bus"
	case "star":
		skind, rkind = "star", "star"
	case "survey":
		skind, rkind = "surveyor", "respondent"
	case "reqrep":
		skind, rkind = "req", "rep"
		nrecv = 1
	case "pipeline":
		skind, rkind = "push", "pull"
	case "pair":
		skind, rkind = "pair", "pair"
		nrecv = 1
	}
	if (topo == "bus" || topo == "pipeline" || topo == "pubsub") && w.Choose(simrt.SShape, 4) == 0 {
		// raw receivers: what RecvMsg hands out has a protocol header, which is
		// the application's like the body (for raw BUS: the arrival pipe's id)
		rkind = "x" + rkind
		w.SetShape("raw_receivers", true)
	}
	rawSender := topo != "reqrep" && w.Choose(simrt.SShape, 3) == 0
	if rawSender {
		// the raw variant of the sending pattern has its own per-pipe senders
		skind = "x" + skind
	}
	w.SetShape("sender", skind)
	sender = sock(skind)
	if err := w.ListenOn(sender, addr); err != nil {
		w.Failf("HARNESS/listen", "%v", err)
		return
	}
	// one receiver may stall (tiny queue, never read) and go away in the middle
	// of the traffic: whatever the sender has in flight towards it - handed to
	// the transport, being written, queued - fails there while the same
	// message is still owned by the other receivers' queues. On every
	// transport, inproc included (which has no connection to reset).
	stallClose := -1
	var stalled mangos.Socket
	if nrecv >= 2 && topo != "reqrep" && w.Choose(simrt.SShape, 3) == 0 {
		stallClose = w.Choose(simrt.SShape, nmsg)
		w.SetShape("stalled_receiver_closes_at", stallClose)
	}
	for i := 0; i < nrecv; i++ {
		r := sock(rkind)
		if rkind == "sub" {
			mustSet(w, r, mangos.OptionSubscribe, "")
		}
		if stallClose >= 0 && i == nrecv-1 {
			_ = r.SetOption(mangos.OptionReadQLen, 1)
			stalled = r
		}
		if err := w.DialOn(r, addr); err != nil {
			w.Failf("HARNESS/dial", "%v", err)
			return
		}
		if r == stalled {
			continue
		}
		rcvs = append(rcvs, rcv{fmt.Sprintf("%s%d", rkind, i), r.RecvMsg, r, r.Recv})
		// extra contexts share the same publications
		if (rkind == "sub") && w.Choose(simrt.SShape, 2) == 0 {
			c, err := r.OpenContext()
			if err == nil {
				_ = c.SetOption(mangos.OptionSubscribe, "")
				_ = c.SetOption(mangos.OptionRecvDeadline, 2*time.Millisecond)
				rcvs = append(rcvs, rcv{fmt.Sprintf("%s%d.ctx", rkind, i), c.RecvMsg, r, c.Recv})
			}
		}
	}
	w.Sleep(2 * time.Millisecond)
	w.Settle()
	var ownBodies, ownCopies [][]byte
	ownIntact := func() bool {
		for k := range ownBodies {
			if !bytes.Equal(ownBodies[k][:len(ownCopies[k])], ownCopies[k]) {
				w.Failf("C17/application-buffer-changed", "a slice the application had put into a message's Body (and kept, reading only) has changed after the message was sent: %q, was %q", clip(ownBodies[k][:len(ownCopies[k])]), clip(ownCopies[k]))
				return false
			}
		}
		return true
	}
	resetAt := -1
	if tran != "inproc" && nrecv >= 2 && w.Choose(simrt.SShape, 3) == 0 {
		resetAt = w.Choose(simrt.SShape, nmsg)
		w.SetShape("reset_at", resetAt)
	}
	for i := 0; i < nmsg && !w.Failed(); i++ {
		if i == resetAt {
			// one subscriber's connection fails while messages shared with the
			// other subscribers may still sit in its send queue / be in a write
			for _, c := range curNet.conns {
				if strings.HasPrefix(c.local.String(), "client:") && !c.IsClosed() {
					w.Op("connection %s is reset", c.local)
					w.Fault("reset")
					c.Reset()
					break
				}
			}
		}
		if i == stallClose && stalled != nil {
			w.Op("the stalled receiver closes")
			w.Fault("close")
			stalled.Close()
			w.Settle()
			w.Probe("stalled-receiver-closed-mid-traffic")
		}
		sz := c17Sizes[w.Choose(simrt.SProg, len(c17Sizes))]
		if w.Choose(simrt.SProg, 10) == 0 {
			// around the largest pool class (total body = 65535 .. 65537)
			sz = 65535 - len(fmt.Sprintf("m%d|", i)) + w.Choose(simrt.SProg, 3)
			w.Probe("body-around-the-largest-pool-class")
		}
		body := patBody(fmt.Sprintf("m%d", i), sz)
		m := mangos.NewMessage(len(body))
		m.Body = append(m.Body, body...)
		if len(body) > 64 && w.Choose(simrt.SProg, 4) == 0 {
			// the application puts a slice of its own into the message (Body is
			// a public field) and keeps it, read-only: the library sends it and
			// never writes to it or keeps it, whatever it does with the message
			m.Free()
			own := append(make([]byte, 0, len(body)+32), body...)
			m = mangos.NewMessage(0)
			m.Body = own
			ownBodies = append(ownBodies, own)
			ownCopies = append(ownCopies, append([]byte(nil), own...))
			w.Probe("application-owned-body-slice")
		}
		if rawSender {
			m.Header = append(m.Header, rawHeader(skind, 1, uint32(i+1))...)
		}
		// the caller may keep a reference of its own across the Send (Clone:
		// "allowing it to be shared", e.g. to send the same message on a second
		// socket afterwards): Send takes over one reference, the caller's other
		// one stays valid - the message it designates is neither released nor
		// changed, whatever the protocol does to send it
		refs := 1
		if w.Choose(simrt.SProg, 4) == 0 {
			m.Clone()
			refs = 2
			w.Probe("caller-keeps-a-reference-across-send")
		}
		if !checkKeptRefs(w, keptRefs) {
			return
		}
		w.Op("%s sends %d bytes (caller holds %d reference(s))", skind, len(body), refs)
		c := w.Do("SendMsg", func() (interface{}, error) { return nil, sender.SendMsg(m) })
		c.Wait(50 * time.Millisecond)
		w.Settle()
		if !c.Returned() {
			w.Failf("C17/send-stuck", "%s SendMsg pending", skind)
			return
		}
		if refs == 2 {
			if c.Err != nil {
				if !bytes.Equal(m.Body, body) || mangos.VerifRefcnt(m) != 2 {
					w.Failf("C17/failed-send-damaged-message:"+skind, "%s SendMsg failed with %v; the caller held 2 references, the message is left with body %q (was %q), owner count %d", skind, c.Err, clip(m.Body), clip(body), mangos.VerifRefcnt(m))
					return
				}
				m.Free()
				m.Free()
				continue
			}
			keptRefs = append(keptRefs, &held{m: m, body: append([]byte(nil), body...), from: skind})
			if !checkKeptRefs(w, keptRefs) {
				return
			}
		}
		if c.Err != nil {
			if !bytes.Equal(m.Body, body) || mangos.VerifRefcnt(m) != 1 {
				w.Failf("C17/failed-send-damaged-message:"+skind, "%s SendMsg failed with %v; the message is left with body %q (was %q), owner count %d", skind, c.Err, clip(m.Body), clip(body), mangos.VerifRefcnt(m))
				return
			}
			m.Free()
			continue
		}
		// let deliveries happen, then every receiver takes what it has
		w.Sleep(time.Millisecond)
		w.Settle()
		for _, r := range rcvs {
			for k := 0; k < 3; k++ {
				if topo != "reqrep" && topo != "survey" && rkind != "xbus" && w.Choose(simrt.SProg, 4) == 0 {
					// the []byte form of the API: the returned body is the
					// application's own as well
					bc := w.Do(r.name+".Recv", func() (interface{}, error) { return r.recvB() })
					bc.Wait(10 * time.Millisecond)
					w.Settle()
					if !bc.Returned() || bc.Err != nil {
						break
					}
					b := bc.Val.([]byte)
					if !bytes.HasPrefix(b, []byte("m")) {
						w.Failf("C17/garbage-delivered:"+r.name, "%s received %q", r.name, clip(b))
						return
					}
					ret.keepBytes(b, r.name, 1+w.Choose(simrt.SProg, 6))
					w.Delivery++
					w.Probe("body-from-recv-retained")
					continue
				}
				rc := w.Do(r.name+".RecvMsg", func() (interface{}, error) { return r.recv() })
				rc.Wait(10 * time.Millisecond)
				w.Settle()
				if !rc.Returned() || rc.Err != nil {
					break
				}
				got := rc.Val.(*mangos.Message)
				if !bytes.HasPrefix(got.Body, []byte("m")) {
					w.Failf("C17/garbage-delivered:"+r.name, "%s received %q", r.name, clip(got.Body))
					return
				}
				if rkind == "xbus" && (got.Pipe == nil || !bytes.Equal(got.Header, u32(got.Pipe.ID()))) {
					w.Failf("C17/received-header-wrong:"+r.name, "raw BUS: the message %q arrived with header %x; the header of a received raw BUS message is the id of the pipe it arrived on (%v)", clip(got.Body), got.Header, got.Pipe)
					return
				}
				ret.keep(got, r.name, w.Choose(simrt.SProg, 6))
				w.Delivery++
				if topo == "reqrep" || topo == "survey" {
					// answer, so the next request can be made
					rep := mangos.NewMessage(8)
					rep.Body = append(rep.Body, "answer"...)
					if err := r.s.SendMsg(rep); err != nil {
						rep.Free()
					}
				}
			}
			if !ret.check() {
				return
			}
		}
		if topo == "reqrep" || topo == "survey" {
			rc := w.Do(skind+".RecvMsg", func() (interface{}, error) { return sender.RecvMsg() })
			rc.Wait(10 * time.Millisecond)
			w.Settle()
			if rc.Returned() && rc.Err == nil {
				ret.keep(rc.Val.(*mangos.Message), skind, w.Choose(simrt.SProg, 4))
			}
		}
		// pool pressure: allocate and release around the class boundaries
		for j := 0; j < 2; j++ {
			n := c17Sizes[w.Choose(simrt.SProg, len(c17Sizes))]
			x := mangos.NewMessage(n)
			if len(x.Body) != 0 || len(x.Header) != 0 || cap(x.Body) < n {
				w.Failf("C17/new-message-not-empty", "NewMessage(%d): len(Body)=%d len(Header)=%d cap(Body)=%d", n, len(x.Body), len(x.Header), cap(x.Body))
				return
			}
			x.Body = append(x.Body, patBody("scratch", n)...)
			x.Free()
		}
		if !ret.check() || !ownIntact() {
			return
		}
	}
	// failed sends leave the message with the caller, intact
	if w.Choose(simrt.SProg, 3) == 0 {
		c17ReplyTimeout(w)
		if w.Failed() {
			return
		}
	}
	failKinds := []string{"timeout", "closed", "unsupported", "nopeers"}
	fk := failKinds[w.Choose(simrt.SProg, len(failKinds))]
	var fs mangos.Socket
	switch fk {
	case "timeout":
		fs = sock([]string{"pair", "push", "req", "xreq", "pair1"}[w.Choose(simrt.SProg, 5)])
		_ = fs.SetOption(mangos.OptionWriteQLen, 0)
		mustSet(w, fs, mangos.OptionSendDeadline, time.Millisecond)
	case "closed":
		fs = sock(allKinds[w.Choose(simrt.SProg, len(allKinds))])
		fs.Close()
	case "unsupported":
		fs = sock([]string{"sub", "pull", "xsub", "xpull"}[w.Choose(simrt.SProg, 4)])
	case "nopeers":
		fs = sock([]string{"req", "push"}[w.Choose(simrt.SProg, 2)])
		mustSet(w, fs, mangos.OptionFailNoPeers, true)
	}
	body := patBody("fail", c17Sizes[w.Choose(simrt.SProg, len(c17Sizes))])
	m := mangos.NewMessage(len(body))
	m.Body = append(m.Body, body...)
	fi := fs.Info()
	fkind := fi.SelfName
	if raw, _ := fs.GetOption(mangos.OptionRaw); raw == true {
		m.Header = append(m.Header, rawHeader("x"+fkind, 1, 1)...)
	}
	hdr := append([]byte(nil), m.Header...)
	c := w.Do("SendMsg("+fk+")", func() (interface{}, error) { return nil, fs.SendMsg(m) })
	c.Wait(50 * time.Millisecond)
	w.Settle()
	if !c.Returned() {
		w.Failf("C17/send-stuck", "SendMsg(%s) on %s pending", fk, fkind)
		return
	}
	w.Op("SendMsg(%s) on %s -> %v", fk, fkind, errName(c.Err))
	if c.Err != nil {
		w.Probe("failed-send-" + fk)
		if rc := mangos.VerifRefcnt(m); rc != 1 || !bytes.Equal(m.Body, body) || (len(hdr) > 0 && !bytes.Equal(m.Header, hdr)) {
			w.Failf("C17/failed-send-damaged-message:"+fkind, "%s SendMsg failed with %v; the caller's message now has owner count %d, body %q (was %q), header %x (was %x)", fkind, c.Err, rc, clip(m.Body), clip(body), m.Header, hdr)
			return
		}
		m.Free()
	}
	for i := 0; i < 8; i++ {
		if !ret.check() {
			return
		}
	}
	if !checkKeptRefs(w, keptRefs) {
		return
	}
	for _, h := range keptRefs {
		h.m.Free() // (a reference the library released on the caller's behalf shows here as a double release)
	}
}

// checkKeptRefs: every message of which the sender kept its own reference is
// still alive and unchanged.
func checkKeptRefs(w *W, kept []*held) bool {
	for _, h := range kept {
		if rc := mangos.VerifRefcnt(h.m); rc < 1 {
			w.Failf("C17/callers-reference-released:"+h.from, "the application kept a reference (Clone) of a message it sent on %s; the message has been released (owner count %d)", h.from, rc)
			return false
		}
		if !bytes.Equal(h.m.Body, h.body) {
			w.Failf("C17/callers-shared-message-changed:"+h.from, "the application kept a reference (Clone) of a message it sent on %s; its body is now %q (was %q)", h.from, clip(h.m.Body), clip(h.body))
			return false
		}
	}
	return true
}

func init() {
	register(&Scenario{Name: "ownership", Prop: "C17", Horizon: time.Hour, Weight: 12, Run: c17Run})
	// the ledger is active in every run of every check; these are the scenarios
	// of other checks in which messages are retained (REQ retransmission) or
	// shared (one publication queued for several pipes and matched by several
	// SUB contexts) while connections are lost, run here so that C17 itself
	// covers those owners (added after wave 5 of the seeded changes)
	register(&Scenario{Name: "retained-request-ownership", Prop: "C17", Horizon: time.Hour, Weight: 2, Run: c04Stream})
	register(&Scenario{Name: "shared-publication-ownership", Prop: "C17", Horizon: time.Hour, Weight: 2, Run: c06Stream})
	register(&Scenario{Name: "shared-publication-contexts", Prop: "C17", Horizon: time.Hour, Weight: 3, Run: c06Sub})
	// devices: raw sockets receive, re-send and release messages whose header
	// was cut out of the body or grown by a routing word per hop, in the same
	// process that allocates the next ones - the ledger judges
	register(&Scenario{Name: "device-forwarding-ownership", Prop: "C17", Horizon: time.Hour, Weight: 2, Run: c09Chain})
}

// c17ReplyTimeout: REP / RESPONDENT / XREP with a send deadline and a
// requester that stops reading: once the pipe's send queue is full the reply's
// Send times out, and the reply must still be the caller's, intact.
func c17ReplyTimeout(w *W) {
	kind := []string{"rep", "respondent", "xrep", "xrespondent"}[w.Choose(simrt.SProg, 4)]
	mn := w.UseMsgNet()
	addr := w.Addr("msg")
	mn.Endpoint(addr).SendCap = 1
	s := w.Sock(kind)
	defer s.Close()
	mustSet(w, s, mangos.OptionWriteQLen, 1)
	// either the reply's send deadline expires, or the requester goes away
	// while the reply is blocked behind its full queue
	lost := w.Choose(simrt.SProg, 2) == 0
	if lost {
		mustSet(w, s, mangos.OptionSendDeadline, time.Second)
	} else {
		mustSet(w, s, mangos.OptionSendDeadline, time.Millisecond)
	}
	mustSet(w, s, mangos.OptionRecvDeadline, 5*time.Millisecond)
	if err := w.ListenOn(s, addr); err != nil {
		return
	}
	p := mn.Connect(addr)
	w.Settle()
	if lost {
		mustSet(w, s, mangos.OptionSendDeadline, time.Second)
	}
	timeouts := 0
	for i := 0; i < 7 && !w.Failed(); i++ {
		p.Inject(inbound(kind, uint32(i+1), fmt.Sprintf("q%d", i)))
		w.Settle()
		rc := w.Do("RecvMsg", func() (interface{}, error) { return s.RecvMsg() })
		rc.Wait(20 * time.Millisecond)
		w.Settle()
		if !rc.Returned() || rc.Err != nil {
			return
		}
		req := rc.Val.(*mangos.Message)
		body := patBody(fmt.Sprintf("reply%d", i), c17Sizes[w.Choose(simrt.SProg, 12)])
		m := mangos.NewMessage(len(body))
		m.Body = append(m.Body, body...)
		if isRaw(kind) {
			m.Header = append(m.Header, req.Header...)
		}
		hdr := append([]byte(nil), m.Header...)
		req.Free()
		c := w.Do("SendMsg(reply)", func() (interface{}, error) { return nil, s.SendMsg(m) })
		c.Wait(20 * time.Millisecond)
		w.Settle()
		if lost && !c.Returned() {
			w.Op("the requester goes away while the reply is blocked behind its full queue")
			w.Fault("close")
			p.ClosePeer()
			w.Settle()
			c.Wait(20 * time.Millisecond)
			w.Settle()
			if c.Returned() && c.Err != nil {
				w.Probe("failed-send-peer-lost-while-blocked")
			}
		}
		if !c.Returned() {
			w.Failf("C18/late", "%s reply Send (deadline %v, requester gone: %v) pending", kind, map[bool]string{true: "1s", false: "1ms"}[lost], lost)
			return
		}
		if c.Err != nil {
			timeouts++
			if !lost {
				w.Probe("failed-send-reply-timeout")
			}
			// allocate around the same classes: a wrongly released buffer would be handed out again
			for j := 0; j < 3; j++ {
				x := mangos.NewMessage(len(body))
				x.Body = append(x.Body, patBody("scratch", len(body))...)
				defer x.Free()
			}
			if rc := mangos.VerifRefcnt(m); rc != 1 || !bytes.Equal(m.Body, body) || (len(hdr) > 0 && isRaw(kind) && !bytes.Equal(m.Header, hdr)) {
				w.Failf("C17/failed-send-damaged-message:"+kind, "%s SendMsg of a reply failed with %v (stalled requester, full queue); the caller's message now has owner count %d, body %q (was %q)", kind, c.Err, rc, clip(m.Body), clip(body))
				return
			}
			m.Free()
		}
	}
	_ = timeouts
}
