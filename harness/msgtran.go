package harness

// msg:// — message-level pipes whose far end is a scripted peer driven by the
// tape. The socket under test sees an ordinary mangos.TranPipe; the peer sees
// exactly what was transmitted (header bytes, body bytes, simulated time, step)
// and can answer with any bytes at any time.

import (
	"fmt"
	"strings"
	"time"

	"go.nanomsg.org/mangos/v3"
	"go.nanomsg.org/mangos/v3/transport"
	sync "go.nanomsg.org/mangos/v3/verifsim/ssync"
)

type WireMsg struct {
	Header []byte
	Body   []byte
	At     time.Duration
	Step   int64
	Pipe   *MsgPipe
	Seq    int
	// HandAt is when the socket handed the message to the pipe (Send entry);
	// At is when the pipe accepted it (they differ under back-pressure).
	HandAt   time.Duration
	HandStep int64
	Lost     bool // Send failed: the pipe was already closed
}

// Bytes returns header||body as a transport would put them on the wire.
func (m WireMsg) Bytes() []byte {
	return append(append([]byte(nil), m.Header...), m.Body...)
}

type MsgPipe struct {
	w            *W
	mu           *sync.Mutex
	cv           *sync.Cond
	toPeer       []WireMsg
	Log          []WireMsg
	toSUT        [][]byte
	closedSUT    bool
	closedPeer   bool
	ClosedAt     time.Duration // when the SUT side closed
	PeerClosedAt time.Duration
	SendCap      int
	Name         string
	Idx          int
	OnSend       func(m WireMsg)
	OnLost       func(m WireMsg)
	LostLog      []WireMsg
	OnClose      func()
	addr         string
	Delivered    int // messages the SUT has taken with Recv
}

type MsgEndpoint struct {
	addr      string
	listening bool
	lclosed   bool
	acceptQ   []*MsgPipe
	Plan      []string             // dial outcomes for SUT-side dials ("ok","refuse")
	OnPipe    func(p *MsgPipe)     // SUT dialled and got a pipe
	OnDial    func(outcome string) // every SUT dial attempt
	SendCap   int
}

type MsgNet struct {
	w   *W
	mu  sync.Mutex
	cv  *sync.Cond
	eps map[string]*MsgEndpoint
	n   int
	All []*MsgPipe
}

var curMsgNet *MsgNet

func (w *W) UseMsgNet() *MsgNet {
	mn := &MsgNet{w: w, eps: map[string]*MsgEndpoint{}}
	mn.cv = sync.NewCond(&mn.mu)
	curMsgNet = mn
	return mn
}

func (mn *MsgNet) ep(addr string) *MsgEndpoint {
	e := mn.eps[addr]
	if e == nil {
		e = &MsgEndpoint{addr: addr}
		mn.eps[addr] = e
	}
	return e
}

// Endpoint returns (creating it) the endpoint record for addr.
func (mn *MsgNet) Endpoint(addr string) *MsgEndpoint {
	mn.mu.Lock()
	defer mn.mu.Unlock()
	return mn.ep(strings.TrimPrefix(addr, "msg://"))
}

func (mn *MsgNet) newPipe(addr string, cap int) *MsgPipe {
	mu := &sync.Mutex{}
	p := &MsgPipe{w: mn.w, mu: mu, cv: sync.NewCond(mu), addr: addr, SendCap: cap, Idx: mn.n, ClosedAt: -1, PeerClosedAt: -1}
	p.Name = fmt.Sprintf("p%d", mn.n)
	mn.n++
	mn.All = append(mn.All, p)
	return p
}

// Connect makes a scripted peer connect to a socket under test that listens on
// addr. Returns nil if nobody listens there.
func (mn *MsgNet) Connect(addr string) *MsgPipe { return mn.ConnectWith(addr, nil) }

// ConnectWith is Connect with a setup function that runs before the socket
// under test can see the pipe.
func (mn *MsgNet) ConnectWith(addr string, setup func(p *MsgPipe)) *MsgPipe {
	addr = strings.TrimPrefix(addr, "msg://")
	mn.mu.Lock()
	defer mn.mu.Unlock()
	e := mn.ep(addr)
	if !e.listening || e.lclosed {
		return nil
	}
	p := mn.newPipe(addr, e.SendCap)
	if setup != nil {
		setup(p)
	}
	e.acceptQ = append(e.acceptQ, p)
	mn.cv.Broadcast()
	return p
}

// ---- SUT-facing TranPipe

func (p *MsgPipe) Send(m *mangos.Message) error {
	handAt, handStep := p.w.Now(), p.w.Step()
	p.mu.Lock()
	for !p.closedSUT && !p.closedPeer && p.SendCap > 0 && len(p.toPeer) >= p.SendCap {
		p.cv.Wait()
	}
	if p.closedSUT || p.closedPeer {
		wm := WireMsg{Header: append([]byte(nil), m.Header...), Body: append([]byte(nil), m.Body...), At: p.w.Now(), Step: p.w.Step(), HandAt: handAt, HandStep: handStep, Pipe: p, Seq: -1, Lost: true}
		p.LostLog = append(p.LostLog, wm)
		f := p.OnLost
		p.mu.Unlock()
		if f != nil {
			f(wm)
		}
		return mangos.ErrClosed
	}
	wm := WireMsg{Header: append([]byte(nil), m.Header...), Body: append([]byte(nil), m.Body...), At: p.w.Now(), Step: p.w.Step(), HandAt: handAt, HandStep: handStep, Pipe: p, Seq: len(p.Log)}
	p.Log = append(p.Log, wm)
	p.toPeer = append(p.toPeer, wm)
	f := p.OnSend
	p.cv.Broadcast()
	p.mu.Unlock()
	m.Free()
	if f != nil {
		f(wm)
	}
	return nil
}

func (p *MsgPipe) Recv() (*mangos.Message, error) {
	p.mu.Lock()
	defer p.mu.Unlock()
	for len(p.toSUT) == 0 && !p.closedSUT && !p.closedPeer {
		p.cv.Wait()
	}
	if p.closedSUT || (p.closedPeer && len(p.toSUT) == 0) {
		return nil, mangos.ErrClosed
	}
	b := p.toSUT[0]
	p.toSUT = p.toSUT[1:]
	p.Delivered++
	m := mangos.NewMessage(len(b))
	m.Body = append(m.Body, b...)
	return m, nil
}

func (p *MsgPipe) Close() error {
	p.mu.Lock()
	if p.closedSUT {
		p.mu.Unlock()
		return nil
	}
	p.closedSUT = true
	p.ClosedAt = p.w.Now()
	f := p.OnClose
	p.cv.Broadcast()
	p.mu.Unlock()
	if f != nil {
		f()
	}
	return nil
}

func (p *MsgPipe) GetOption(name string) (interface{}, error) {
	switch name {
	case mangos.OptionLocalAddr:
		return simAddr{"msg", p.addr}, nil
	case mangos.OptionRemoteAddr:
		return simAddr{"msg", "peer-" + p.Name}, nil
	}
	return nil, mangos.ErrBadProperty
}

// ---- peer-facing

// Inject queues wire bytes (protocol header || body) for the SUT to receive.
func (p *MsgPipe) Inject(b []byte) {
	p.mu.Lock()
	if !p.closedPeer && !p.closedSUT {
		p.toSUT = append(p.toSUT, append([]byte(nil), b...))
		p.cv.Broadcast()
	}
	p.mu.Unlock()
}

// Pending returns how many injected messages the SUT has not yet taken.
func (p *MsgPipe) Pending() int {
	p.mu.Lock()
	defer p.mu.Unlock()
	return len(p.toSUT)
}

// Take removes the oldest unconsumed transmission (frees send capacity).
func (p *MsgPipe) Take() (WireMsg, bool) {
	p.mu.Lock()
	defer p.mu.Unlock()
	if len(p.toPeer) == 0 {
		return WireMsg{}, false
	}
	m := p.toPeer[0]
	p.toPeer = p.toPeer[1:]
	p.cv.Broadcast()
	return m, true
}

// WaitSent blocks the calling peer task until the SUT has transmitted more
// than n messages on this pipe or the pipe closed.
func (p *MsgPipe) WaitSent(n int) bool {
	p.mu.Lock()
	defer p.mu.Unlock()
	for len(p.Log) <= n && !p.closedSUT && !p.closedPeer {
		p.cv.Wait()
	}
	return len(p.Log) > n
}

func (p *MsgPipe) Sent() []WireMsg {
	p.mu.Lock()
	defer p.mu.Unlock()
	return append([]WireMsg(nil), p.Log...)
}

func (p *MsgPipe) SentCount() int {
	p.mu.Lock()
	defer p.mu.Unlock()
	return len(p.Log)
}

// ClosePeer: the peer goes away (connection loss as seen by the SUT).
func (p *MsgPipe) ClosePeer() {
	p.mu.Lock()
	if !p.closedPeer {
		p.closedPeer = true
		p.PeerClosedAt = p.w.Now()
		p.toSUT = nil
		p.cv.Broadcast()
	}
	p.mu.Unlock()
}

func (p *MsgPipe) SUTClosed() bool {
	p.mu.Lock()
	defer p.mu.Unlock()
	return p.closedSUT
}

func (p *MsgPipe) PeerClosed() bool {
	p.mu.Lock()
	defer p.mu.Unlock()
	return p.closedPeer
}

func (p *MsgPipe) Open() bool {
	p.mu.Lock()
	defer p.mu.Unlock()
	return !p.closedPeer && !p.closedSUT
}

// ---- transport

type msgTran struct{}

func init() { transport.RegisterTransport(msgTran{}) }

func (msgTran) Scheme() string { return "msg" }

type msgDialer struct {
	mn   *MsgNet
	addr string
}

func (d *msgDialer) Dial() (transport.Pipe, error) {
	mn := d.mn
	mn.mu.Lock()
	e := mn.ep(d.addr)
	outcome := "ok"
	if len(e.Plan) > 0 {
		outcome = e.Plan[0]
		e.Plan = e.Plan[1:]
	}
	if e.OnPipe == nil && outcome == "ok" {
		outcome = "refuse-nopeer"
	}
	var p *MsgPipe
	if outcome == "ok" {
		p = mn.newPipe(d.addr, e.SendCap)
	}
	onDial, onPipe := e.OnDial, e.OnPipe
	mn.mu.Unlock()
	if onDial != nil {
		onDial(outcome)
	}
	if outcome != "ok" {
		if outcome == "refuse" {
			mn.w.Fault("refuse")
		}
		return nil, mangos.ErrConnRefused
	}
	onPipe(p)
	return p, nil
}

func (d *msgDialer) SetOption(string, interface{}) error   { return mangos.ErrBadOption }
func (d *msgDialer) GetOption(string) (interface{}, error) { return nil, mangos.ErrBadOption }

type msgListener struct {
	mn    *MsgNet
	addr  string
	owner bool // this listener is the one bound to the endpoint
}

func (l *msgListener) Listen() error {
	l.mn.mu.Lock()
	defer l.mn.mu.Unlock()
	e := l.mn.ep(l.addr)
	if e.lclosed {
		return mangos.ErrClosed
	}
	if e.listening {
		return mangos.ErrAddrInUse
	}
	e.listening = true
	l.owner = true
	return nil
}

func (l *msgListener) Accept() (transport.Pipe, error) {
	mn := l.mn
	mn.mu.Lock()
	defer mn.mu.Unlock()
	if !l.owner {
		return nil, mangos.ErrClosed
	}
	e := mn.ep(l.addr)
	for len(e.acceptQ) == 0 && !e.lclosed && e.listening {
		mn.cv.Wait()
	}
	if e.lclosed || !e.listening {
		return nil, mangos.ErrClosed
	}
	p := e.acceptQ[0]
	e.acceptQ = e.acceptQ[1:]
	return p, nil
}

func (l *msgListener) Close() error {
	mn := l.mn
	mn.mu.Lock()
	if !l.owner {
		// never bound (Listen failed or was not called): nothing to release
		mn.mu.Unlock()
		return nil
	}
	e := mn.ep(l.addr)
	e.lclosed = true
	e.listening = false
	q := e.acceptQ
	e.acceptQ = nil
	mn.cv.Broadcast()
	mn.mu.Unlock()
	for _, p := range q {
		p.Close()
	}
	return nil
}

func (l *msgListener) Address() string                       { return "msg://" + l.addr }
func (l *msgListener) SetOption(string, interface{}) error   { return mangos.ErrBadOption }
func (l *msgListener) GetOption(string) (interface{}, error) { return nil, mangos.ErrBadOption }

func (msgTran) NewDialer(addr string, sock mangos.Socket) (transport.Dialer, error) {
	if !strings.HasPrefix(addr, "msg://") {
		return nil, mangos.ErrBadTran
	}
	return &msgDialer{mn: curMsgNet, addr: addr[6:]}, nil
}

func (msgTran) NewListener(addr string, sock mangos.Socket) (transport.Listener, error) {
	if !strings.HasPrefix(addr, "msg://") {
		return nil, mangos.ErrBadTran
	}
	return &msgListener{mn: curMsgNet, addr: addr[6:]}, nil
}
