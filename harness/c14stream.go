package harness

import (
	"crypto/tls"
	"fmt"
	"net"
	"net/http"
	"strings"
	"time"

	"github.com/gorilla/websocket"

	"go.nanomsg.org/mangos/v3"
	"go.nanomsg.org/mangos/v3/verifsim/simrt"
)

// C14 / C12 over the stream mapping: a real dialer (core dialer + the SP
// handshake of transport/conn.go over simnet) against a listener the harness
// owns, which treats every incoming connection as scripted: orderly hang-up
// after 0..7 header bytes, reset, wrong protocol, garbage, a completed
// handshake that is dropped later (FIN or reset). c14Run decides the gap
// rules against msg:// with an exact clock; here the judged clauses are the
// ones that involve the handshake: whatever happens to a connection, at any
// stage, a started dialer tries again within its back-off cap, attaches when
// the peer finally behaves, and stops for good when the socket is closed.

func c14Stream(w *W) {
	kind := []string{"pair", "req", "sub", "bus", "push", "pull", "rep", "star", "surveyor"}[w.Choose(simrt.SShape, 9)]
	// tcp / ipc / tls+tcp / ws / wss: the real dialer code on the simulated
	// network; over TLS the scripted peer fails before, during or after the TLS
	// handshake, over WebSocket it refuses the upgrade with an HTTP status,
	// hangs up in the middle of it, or upgrades and drops the connection later
	tran := w.simFallback([]string{"sim", "simipc", "tcp", "ipc", "tls+tcp", "ws", "wss"}[w.Choose(simrt.SShape, 7)])
	isTLS := tran == "tls+tcp" || tran == "wss"
	isWS := tran == "ws" || tran == "wss"
	r := []time.Duration{5 * time.Millisecond, 20 * time.Millisecond}[w.Choose(simrt.SShape, 2)]
	M := []time.Duration{0, r, 4 * r}[w.Choose(simrt.SShape, 3)]
	nplan := 2 + w.Choose(simrt.SShape, 6)
	w.SetShape("kind", kind)
	w.SetShape("tran", tran)
	w.SetShape("r", r.String())
	w.SetShape("M", M.String())
	nt := w.UseNet(NetCfg{Segment: w.Choose(simrt.SShape, 2) == 0})
	type step struct {
		what string
		n    int
		hold time.Duration
	}
	var plan []step
	for i := 0; i < nplan; i++ {
		k := w.Choose(simrt.SProg, 8)
		a := w.Choose(simrt.SProg, 64)
		switch {
		case k <= 1:
			plan = append(plan, step{"hangup", []int{0, 0, 1, 4, 7}[a%5], 0})
		case k == 2:
			plan = append(plan, step{"reset", a % 9, 0})
		case k == 3:
			plan = append(plan, step{"wrong-protocol", 0, 0})
		case k == 4:
			plan = append(plan, step{"garbage", 8 + a%30, 0})
		case k == 5:
			plan = append(plan, step{"ok-then-fin", 0, time.Duration(a) * time.Millisecond})
		case k == 6:
			plan = append(plan, step{"ok-then-reset", 0, time.Duration(a) * time.Millisecond})
		default:
			plan = append(plan, step{"stall-then-fin", a % 8, time.Duration(1+a%20) * time.Millisecond})
		}
	}
	var names []string
	for _, st := range plan {
		names = append(names, fmt.Sprintf("%s/%d", st.what, st.n))
	}
	w.SetShape("plan", strings.Join(names, ","))
	daddr := w.Addr(tran)
	name := NetKey(daddr)
	l, err := nt.Listen(name)
	if err != nil {
		w.Failf("HARNESS/listen", "%v", err)
		return
	}
	defer l.Close()
	peerProto := protoOf(peerKind[kind])
	type attempt struct {
		at     time.Duration
		what   string
		overAt time.Duration // when the harness ended it (-1: still up)
	}
	var atts []*attempt
	closedAt := time.Duration(-1)
	w.Go("scripted listener", func() {
		for i := 0; ; i++ {
			c, err := l.AcceptSim()
			if err != nil {
				return
			}
			st := step{what: "ok"}
			if i < len(plan) {
				st = plan[i]
			}
			a := &attempt{at: w.Now(), what: st.what, overAt: -1}
			atts = append(atts, a)
			if closedAt >= 0 && w.Now() > closedAt {
				w.Failf("C14/dial-after-close", "a connection attempt arrived at %v, after Close returned at %v", w.Now(), closedAt)
				return
			}
			w.Fault("hs-" + st.what)
			w.Go("scripted peer", func() {
				h := wcHeader(peerProto)
				if isTLS || isWS {
					c14ScriptedSecure(w, c, st.what, st.n, st.hold, isTLS, isWS, peerProto, func() { a.overAt = w.Now() })
					return
				}
				switch st.what {
				case "hangup":
					c.Write(h[:st.n])
					c.Close()
					a.overAt = w.Now()
				case "reset":
					c.Write(h[:st.n%8])
					c.Reset()
					a.overAt = w.Now()
				case "wrong-protocol":
					c.Write(wcHeader(0x7777))
					a.overAt = w.Now()
				case "garbage":
					c.Write(wireBody(st.n, st.n))
					a.overAt = w.Now()
				case "stall-then-fin":
					c.Write(h[:st.n])
					simrt.Sleep(st.hold)
					c.Close()
					a.overAt = w.Now()
				case "ok-then-fin", "ok-then-reset":
					c.Write(h)
					wcReadHeader(c)
					simrt.Sleep(st.hold)
					if st.what == "ok-then-fin" {
						c.Close()
					} else {
						c.Reset()
					}
					a.overAt = w.Now()
				case "ok":
					c.Write(h)
					wcReadHeader(c)
				}
			})
		}
	})
	s := w.Sock(kind)
	attached := 0
	// now and then the application's hook on the dialling side takes its time
	// (longer than the reconnect interval and than the peer keeps the
	// connection): a connection lost while the hook is still running must be
	// redialled like any other
	slowHook := w.Choose(simrt.SShape, 4) == 0
	slowOn := []mangos.PipeEvent{mangos.PipeEventAttaching, mangos.PipeEventAttached}[w.Choose(simrt.SShape, 2)]
	w.SetShape("slow_dialer_hook", slowHook)
	s.SetPipeEventHook(func(ev mangos.PipeEvent, p mangos.Pipe) {
		if ev == mangos.PipeEventAttached {
			attached++
		}
		if slowHook && ev == slowOn {
			simrt.Sleep(100*time.Millisecond + 3*r)
		}
	})
	d, err := s.NewDialer(daddr, w.EpOpts(daddr, false, map[string]interface{}{
		mangos.OptionReconnectTime: r, mangos.OptionMaxReconnectTime: M, mangos.OptionDialAsynch: true}))
	if err != nil {
		s.Close()
		w.Failf("HARNESS/newdialer", "%v", err)
		return
	}
	if c := w.Do("Dialer.Dial", func() (interface{}, error) { return nil, d.Dial() }); !c.Wait(time.Second) || c.Err != nil {
		s.Close()
		w.Failf("C14/async-dial-error", "asynchronous Dial returned=%v err=%v", c.Returned(), c.Err)
		return
	}
	gapCap := r
	if M > r {
		gapCap = M
	}
	// every scripted ending must be followed by a new attempt within the cap
	// (x1.5 growth slack, 10ms for the handshake round trips)
	bound := gapCap*2 + 10*time.Millisecond
	hookTime := time.Duration(0)
	if slowHook {
		// (the library cannot act on a pipe while the application's callback
		// for it has not returned: that much later is still "at once")
		hookTime = 100*time.Millisecond + 3*r
		bound += hookTime
	}
	deadline := w.Now()
	for i := 0; i <= len(plan) && !w.Failed(); i++ {
		// wait for attempt i
		for len(atts) <= i {
			if w.Now() > deadline+bound {
				prev := "the start"
				if i > 0 {
					prev = fmt.Sprintf("attempt %d (%s) ended at %v", i-1, atts[i-1].what, atts[i-1].overAt)
				}
				w.WedgeCheck("C12")
				w.Failf("C14/no-redial-stream:"+func() string {
					if i > 0 {
						return atts[i-1].what
					}
					return "first"
				}(), "%s dialer over %s (reconnect %v, max %v): %s; no further connection attempt within %v although the socket is open (now %v)", kind, tran, r, M, prev, bound, w.Now())
				s.Close()
				return
			}
			w.Sleep(time.Millisecond)
		}
		// wait until the harness has ended it (the final "ok" stays up)
		if i < len(plan) {
			for atts[i].overAt < 0 {
				w.Sleep(time.Millisecond)
			}
			deadline = atts[i].overAt
		}
	}
	w.Sleep(5*time.Millisecond + hookTime)
	w.Settle()
	if !w.Failed() {
		oks := 1
		for _, st := range plan {
			if strings.HasPrefix(st.what, "ok-") {
				oks++
			}
		}
		if attached < 1 {
			w.Failf("C14/never-attached-stream", "%s: the peer finally completes the handshake (attempt %d) but nothing was attached", kind, len(plan))
		} else if attached > oks {
			w.Failf("C13/attached-without-handshake", "%s attached %d pipes, only %d handshakes were completed by the peer", kind, attached, oks)
		}
		w.Probe("stream-dialer-attached-after-failures")
		w.Delivery++
	}
	c := w.Do("Socket.Close", func() (interface{}, error) { return nil, s.Close() })
	if !c.Wait(time.Second) {
		w.WedgeCheck("C12")
		w.Failf("C10/close-blocks", "Close of the %s socket did not return", kind)
		return
	}
	closedAt = w.Now()
	w.Sleep(10*gapCap + 50*time.Millisecond)
	w.Settle()
}

func init() {
	register(&Scenario{Name: "dialer-reconnect-stream", Prop: "C14", Horizon: time.Hour, Weight: 1, Run: c14Stream})
	register(&Scenario{Name: "dialer-redials-after-handshake-failures", Prop: "C12", Horizon: time.Hour, Weight: 2, Run: c14Stream})
}

// c14Inproc: the dialer over the real inproc transport, against listeners that
// come and go: the accept loop of the first listener is kept busy (a slow
// Attached hook) while the dialer's redial arrives, that listener is then
// closed and another socket listens on the same address. The dialer must
// reach the second listener within its back-off, without application action.
func c14Inproc(w *W) {
	kind := []string{"pair", "bus", "push", "req", "star"}[w.Choose(simrt.SShape, 5)]
	r := []time.Duration{5 * time.Millisecond, 20 * time.Millisecond}[w.Choose(simrt.SShape, 2)]
	busy := 4*r + time.Duration(w.Choose(simrt.SShape, 40))*time.Millisecond
	w.SetShape("kind", kind)
	w.SetShape("r", r.String())
	w.SetShape("busy", busy.String())
	addr := w.Addr("inproc")
	s := w.Sock(kind)
	defer s.Close()
	attachedS := 0
	var lastS mangos.Pipe
	s.SetPipeEventHook(func(ev mangos.PipeEvent, p mangos.Pipe) {
		if ev == mangos.PipeEventAttached {
			attachedS++
			lastS = p
		}
	})
	l1 := w.Sock(peerKind[kind])
	var first mangos.Pipe
	n1 := 0
	l1.SetPipeEventHook(func(ev mangos.PipeEvent, p mangos.Pipe) {
		if ev == mangos.PipeEventAttached {
			n1++
			if n1 == 1 {
				first = p
			} else {
				simrt.Sleep(busy) // the accept loop is away: nobody is waiting in Accept
			}
		}
	})
	if err := w.ListenOn(l1, addr); err != nil {
		w.Failf("HARNESS/listen", "%v", err)
		return
	}
	if err := s.DialOptions(addr, map[string]interface{}{mangos.OptionDialAsynch: true, mangos.OptionReconnectTime: r, mangos.OptionMaxReconnectTime: r}); err != nil {
		w.Failf("HARNESS/dial", "%v", err)
		return
	}
	w.Sleep(2 * time.Millisecond)
	w.Settle()
	if attachedS != 1 || first == nil {
		w.Failf("HARNESS/attach", "no first attach (%d)", attachedS)
		return
	}
	// the connection drops: the dialer redials (attach #2 keeps l1's accept
	// loop busy in the hook), then - for PAIR the second is refused, same path -
	// further redials find a listener with nobody in Accept
	w.Op("the first connection is dropped")
	w.Fault("close")
	_ = first.Close()
	for i := 0; attachedS < 2 && i < 200; i++ {
		w.Sleep(r / 4)
	}
	if attachedS < 2 {
		w.WedgeCheck("C12")
		w.Failf("C14/no-redial-inproc", "%s dialer (reconnect %v) over inproc did not reconnect after its connection was dropped", kind, r)
		return
	}
	// the second connection is dropped too, while the listener's accept loop
	// is still inside the Attached callback of that very connection: the next
	// redial finds the address registered but nobody in Accept, and waits
	w.Op("the second connection is dropped while the listener's accept loop is busy")
	w.Fault("close")
	_ = lastS.Close()
	w.Sleep(r + r/2 + time.Duration(w.Choose(simrt.SProg, 1000))*time.Microsecond)
	w.Op("the first listener's socket is closed; another socket listens on the address")
	l1.Close()
	l2 := w.Sock(peerKind[kind])
	defer l2.Close()
	n2 := 0
	l2.SetPipeEventHook(func(ev mangos.PipeEvent, p mangos.Pipe) {
		if ev == mangos.PipeEventAttached {
			n2++
		}
	})
	if err := w.ListenOn(l2, addr); err != nil {
		w.Failf("C10/address-still-bound", "%s cannot be bound again after the first listener's socket was closed: %v", addr, err)
		return
	}
	t0 := w.Now()
	bound := 4*r + busy + 20*time.Millisecond
	for n2 == 0 && w.Now() < t0+bound {
		w.Sleep(time.Millisecond)
	}
	w.Settle()
	if n2 == 0 {
		w.WedgeCheck("C12")
		w.Failf("C14/no-redial-inproc", "%s dialer (reconnect %v) over inproc: its listener went away and another socket has been listening on the same address for %v; the dialer has not connected to it%s", kind, r, w.Now()-t0, w.BlockedReport())
		return
	}
	w.Probe("inproc-dialer-found-new-listener")
	w.Delivery++
}

func init() {
	register(&Scenario{Name: "dialer-reconnect-inproc", Prop: "C14", Horizon: time.Hour, Weight: 1, Run: c14Inproc})
}

// oneConnListener hands one already accepted connection to an http.Server.
type oneConnListener struct {
	c    net.Conn
	done chan struct{}
	used bool
}

func (l *oneConnListener) Accept() (net.Conn, error) {
	if !l.used {
		l.used = true
		return l.c, nil
	}
	<-l.done
	return nil, net.ErrClosed
}
func (l *oneConnListener) Close() error {
	select {
	case <-l.done:
	default:
		close(l.done)
	}
	return nil
}
func (l *oneConnListener) Addr() net.Addr { return l.c.LocalAddr() }

// c14ScriptedSecure: one scripted attempt over tls+tcp, ws or wss. Steps that
// end the connection below the TLS / HTTP layer (hangup, reset, garbage,
// stall-then-fin) act on the raw connection; the others first do what a real
// peer would (TLS handshake as the server, HTTP upgrade) and fail later.
func c14ScriptedSecure(w *W, raw *NetConn, what string, n int, hold time.Duration, isTLS, isWS bool, peerProto uint16, over func()) {
	switch what {
	case "hangup":
		raw.Write(wireBody(n, n))
		raw.Close()
		over()
		return
	case "reset":
		raw.Write(wireBody(n%8, n))
		raw.Reset()
		over()
		return
	case "garbage":
		raw.Write(wireBody(n, n))
		simrt.Sleep(time.Millisecond)
		raw.Close()
		over()
		return
	case "stall-then-fin":
		simrt.Sleep(hold)
		raw.Close()
		over()
		return
	}
	var c net.Conn = raw
	if isTLS {
		srv, _ := simTLS()
		tc := tls.Server(raw, srv)
		if err := tc.Handshake(); err != nil {
			w.Op("scripted TLS handshake failed: %v", err)
			raw.Close()
			over()
			return
		}
		c = tc
	}
	finish := func() {
		if what == "ok-then-reset" {
			raw.Reset()
		} else {
			c.Close()
		}
		over()
	}
	if !isWS {
		// tls+tcp: the SP handshake inside the TLS session
		switch what {
		case "wrong-protocol":
			c.Write(wcHeader(0x7777))
			over()
		case "ok-then-fin", "ok-then-reset":
			c.Write(wcHeader(peerProto))
			wcReadHeader(c)
			simrt.Sleep(hold)
			finish()
		case "ok":
			c.Write(wcHeader(peerProto))
			wcReadHeader(c)
		}
		return
	}
	// ws / wss: an HTTP server for this one connection
	ln := &oneConnListener{c: c, done: make(chan struct{})}
	up := websocket.Upgrader{CheckOrigin: func(*http.Request) bool { return true }}
	srv := &http.Server{Handler: http.HandlerFunc(func(rw http.ResponseWriter, r *http.Request) {
		if what == "wrong-protocol" {
			// what a listener of another pattern answers
			http.Error(rw, "SP protocol mis-match", []int{http.StatusBadRequest, http.StatusForbidden, http.StatusNotFound}[n%3])
			return
		}
		up.Subprotocols = websocket.Subprotocols(r)
		wc, err := up.Upgrade(rw, r, nil)
		if err != nil {
			w.Op("scripted upgrade failed: %v", err)
			return
		}
		if what == "ok" {
			return // stays up (the connection is hijacked: returning does not close it)
		}
		simrt.Sleep(hold)
		if what == "ok-then-reset" {
			raw.Reset()
		} else {
			wc.Close()
		}
		over()
	})}
	w.Go("scripted http server", func() { _ = srv.Serve(ln) })
	if what == "wrong-protocol" {
		// the answer is on its way; the attempt is over once the dialer has seen it
		simrt.Sleep(2 * time.Millisecond)
		over()
		srv.Close()
	}
}
