package harness

// The real endpoint code of transport/tcp, transport/ipc and transport/tlstcp
// inside the simulation: their import of package net (and crypto/tls) is
// rewritten to verifsim/snet (stls) by the instrumenter, and the run's simulated
// network is the backend. Addresses come from W.Addr("tcp" | "ipc" | "tls+tcp").

import (
	"crypto/ed25519"
	"crypto/rand"
	"crypto/tls"
	"crypto/x509"
	"crypto/x509/pkix"
	"math/big"
	"net"
	"os"
	"strings"
	"sync"
	"time"

	"go.nanomsg.org/mangos/v3"
	_ "go.nanomsg.org/mangos/v3/transport/ipc"
	_ "go.nanomsg.org/mangos/v3/transport/tcp"
	_ "go.nanomsg.org/mangos/v3/transport/tlstcp"
	_ "go.nanomsg.org/mangos/v3/transport/ws"
	_ "go.nanomsg.org/mangos/v3/transport/wss"
	ssync "go.nanomsg.org/mangos/v3/verifsim/ssync"
)

var (
	simTLSOnce           sync.Once
	simTLSSrv, simTLSCli *tls.Config
)

// simTLS returns a server and a client configuration sharing one self-signed
// Ed25519 certificate for 127.0.0.1 (fixed-length signatures and key shares:
// the number of bytes a handshake puts on the simulated wire does not depend
// on the random material, so segmentation and back-pressure choices replay).
// Valid 1970-2090: the simulated clock starts in 2000.
func simTLS() (*tls.Config, *tls.Config) {
	simTLSOnce.Do(func() {
		pub, key, err := ed25519.GenerateKey(rand.Reader)
		if err != nil {
			panic(err)
		}
		tmpl := &x509.Certificate{
			SerialNumber:          big.NewInt(2),
			Subject:               pkix.Name{CommonName: "verifsim"},
			NotBefore:             time.Unix(0, 0),
			NotAfter:              time.Date(2090, 1, 1, 0, 0, 0, 0, time.UTC),
			KeyUsage:              x509.KeyUsageDigitalSignature | x509.KeyUsageCertSign,
			ExtKeyUsage:           []x509.ExtKeyUsage{x509.ExtKeyUsageServerAuth},
			BasicConstraintsValid: true,
			IsCA:                  true,
			IPAddresses:           []net.IP{net.ParseIP("127.0.0.1")},
			DNSNames:              []string{"localhost"},
		}
		der, err := x509.CreateCertificate(rand.Reader, tmpl, tmpl, pub, key)
		if err != nil {
			panic(err)
		}
		cert, _ := x509.ParseCertificate(der)
		pool := x509.NewCertPool()
		pool.AddCert(cert)
		// no session tickets: their length depends on the server's ticket state
		simTLSSrv = &tls.Config{Certificates: []tls.Certificate{{Certificate: [][]byte{der}, PrivateKey: key}}, SessionTicketsDisabled: true}
		simTLSCli = &tls.Config{RootCAs: pool, ServerName: "127.0.0.1"}
	})
	return simTLSSrv, simTLSCli
}

// EpOpts returns the options an endpoint on addr needs (the TLS configuration
// for tls+tcp), merged with extra.
func (w *W) EpOpts(addr string, listen bool, extra map[string]interface{}) map[string]interface{} {
	o := map[string]interface{}{}
	for k, v := range extra {
		o[k] = v
	}
	if (strings.HasPrefix(addr, "tls+tcp://") || strings.HasPrefix(addr, "wss://")) && !w.Real {
		srv, cli := simTLS()
		if listen {
			o[mangos.OptionTLSConfig] = srv
		} else {
			o[mangos.OptionTLSConfig] = cli
		}
	}
	return o
}

// ListenOn / DialOn: Listen and Dial that work for every scheme W.Addr hands out.
func (w *W) ListenOn(s mangos.Socket, addr string) error {
	return s.ListenOptions(addr, w.EpOpts(addr, true, nil))
}

func (w *W) DialOn(s mangos.Socket, addr string) error {
	return s.DialOptions(addr, w.EpOpts(addr, false, nil))
}

func (w *W) DialOnOpts(s mangos.Socket, addr string, extra map[string]interface{}) error {
	return s.DialOptions(addr, w.EpOpts(addr, false, extra))
}

func (w *W) ListenOnOpts(s mangos.Socket, addr string, extra map[string]interface{}) error {
	return s.ListenOptions(addr, w.EpOpts(addr, true, extra))
}

// streamTrans: the stream transports a simulated run may draw from.
var streamTrans = []string{"sim", "simipc", "tcp", "ipc", "tls+tcp"}

func isIPCTran(tran string) bool { return tran == "simipc" || tran == "ipc" }

func init() {
	register(&Scenario{Name: "smoke-reqrep-real-stream-transports", Prop: "SMOKE", Horizon: time.Minute, Run: smokeRealStream})
}

// smokeRealStream: REQ/REP round trips over the real tcp / ipc / tls+tcp
// endpoint code on the simulated network.
func smokeRealStream(w *W) {
	tran := []string{"tcp", "ipc", "tls+tcp", "ws", "wss"}[w.Choose("shape", 5)]
	n := 1 + w.Choose("shape", 4)
	w.SetShape("tran", tran)
	w.UseNet(NetCfg{Segment: w.Choose("shape", 2) == 0, BufCap: []int{0, 64, 300}[w.Choose("shape", 3)], Latency: []time.Duration{0, 200 * time.Microsecond}[w.Choose("shape", 2)]})
	addr := w.Addr(tran)
	rp, rq := w.Sock("rep"), w.Sock("req")
	if err := w.ListenOn(rp, addr); err != nil {
		w.Failf("SMOKE/listen", "%s: %v", addr, err)
		return
	}
	w.Go("server", func() {
		for {
			m, err := rp.Recv()
			if err != nil {
				return
			}
			if err := rp.Send(append([]byte("re:"), m...)); err != nil {
				return
			}
		}
	})
	c := w.Do("client", func() (interface{}, error) {
		if err := w.DialOn(rq, addr); err != nil {
			return nil, err
		}
		for j := 0; j < n; j++ {
			body := strings.Repeat("x", j*700) + "!"
			if err := rq.Send([]byte(body)); err != nil {
				return nil, err
			}
			r, err := rq.Recv()
			if err != nil {
				return nil, err
			}
			if string(r) != "re:"+body {
				w.Failf("SMOKE/wrong-reply", "got %d bytes", len(r))
			}
			w.Delivery++
		}
		return nil, nil
	})
	if !c.Wait(30 * time.Second) {
		w.Failf("SMOKE/stuck", "client did not finish over %s", tran)
		return
	}
	if c.Err != nil {
		w.Failf("SMOKE/err", "client over %s: %v", tran, c.Err)
	}
	w.Probe("smoke-real-" + tran)
}

// serialConn puts a simulator mutex in front of each direction of a
// connection the harness's own tasks share (a scripted peer's tls.Conn):
// crypto/tls serialises writers with a sync.Mutex of its own, and a task
// waiting inside that would be invisible to the scheduler.
type serialConn struct {
	net.Conn
	rmu, wmu ssync.Mutex
}

func (c *serialConn) Read(p []byte) (int, error) {
	c.rmu.Lock()
	defer c.rmu.Unlock()
	return c.Conn.Read(p)
}

func (c *serialConn) Write(p []byte) (int, error) {
	c.wmu.Lock()
	defer c.wmu.Unlock()
	return c.Conn.Write(p)
}

// noNetShim: the tree under test did not build with verifsim/snet in place of
// package net (it uses something of package net the shim does not have); the
// driver built it without the rewrite and the stream scenarios fall back to
// the stand-in transports, so that a changed tree never fails to build or to
// run for a reason of ours.
var noNetShim = os.Getenv("VERIF_NO_NETSHIM") != ""

func (w *W) simFallback(tran string) string {
	if !noNetShim || w.Real {
		return tran
	}
	switch tran {
	case "tcp", "tls+tcp", "ws", "wss":
		return "sim"
	case "ipc":
		return "simipc"
	}
	return tran
}
