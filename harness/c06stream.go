package harness

import (
	"bytes"
	"fmt"
	"time"

	"go.nanomsg.org/mangos/v3"
	"go.nanomsg.org/mangos/v3/verifsim/simrt"
)

// C06, end to end over the stream mapping: a real PUB socket, real SUB sockets,
// the SP framing over simnet, and one subscriber whose connection is reset
// while publications shared with the other subscribers sit in its send queue
// or are being written. The others must still see every matching publication
// unmodified, once, in the publisher's order.

func c06Stream(w *W) {
	tran := w.simFallback([]string{"sim", "simipc", "tcp", "ipc", "tls+tcp", "ws", "wss"}[w.Choose(simrt.SShape, 7)])
	kind := []string{"pub", "xpub"}[w.Choose(simrt.SShape, 2)]
	nsub := 2 + w.Choose(simrt.SShape, 3)
	nmsg := 4 + w.Choose(simrt.SShape, 26)
	w.SetShape("tran", tran)
	w.SetShape("kind", kind)
	w.SetShape("subs", nsub)
	w.UseNet(NetCfg{Segment: w.Choose(simrt.SShape, 2) == 0, BufCap: []int{64, 300, 0}[w.Choose(simrt.SShape, 3)],
		Latency: []time.Duration{0, 0, 100 * time.Microsecond}[w.Choose(simrt.SShape, 3)], WriteChunk: w.Choose(simrt.SShape, 2) == 0})
	pub := w.Sock(kind)
	defer pub.Close()
	addr := w.Addr(tran)
	if err := w.ListenOn(pub, addr); err != nil {
		w.Failf("HARNESS/listen", "%v", err)
		return
	}
	// the publisher may listen on a second transport as well: one shared
	// publication is then framed for different mappings (8-byte length on
	// tcp / tls, 0x01 + length on ipc, a binary frame on ws) at the same time
	addrs := []string{addr}
	if w.Choose(simrt.SShape, 2) == 0 {
		all := []string{"sim", "simipc", "tcp", "ipc", "tls+tcp", "ws", "wss"}
		tran2 := w.simFallback(all[w.Choose(simrt.SShape, len(all))])
		if tran2 != tran {
			addr2 := w.Addr(tran2)
			if err := w.ListenOn(pub, addr2); err != nil {
				w.Failf("HARNESS/listen", "%v", err)
				return
			}
			addrs = append(addrs, addr2)
			w.SetShape("tran2", tran2)
			w.Probe("one-publication-on-two-transports")
		}
	}
	topics := []string{"", "a", "ab", "b"}
	type subr struct {
		idx   int
		s     mangos.Socket
		topic string
		got   [][]byte
		err   error
		stall bool
	}
	var subs []*subr
	stop := false
	for i := 0; i < nsub; i++ {
		s := w.Sock("sub")
		defer s.Close()
		sr := &subr{idx: i, s: s, topic: topics[w.Choose(simrt.SShape, len(topics))]}
		mustSet(w, s, mangos.OptionSubscribe, sr.topic)
		mustSet(w, s, mangos.OptionRecvDeadline, 2*time.Millisecond)
		mustSet(w, s, mangos.OptionReconnectTime, time.Hour) // the victim stays away
		if err := w.DialOn(s, addrs[i%len(addrs)]); err != nil {
			w.Failf("HARNESS/dial", "%v", err)
			return
		}
		subs = append(subs, sr)
	}
	// subscriber 0 is the victim: it stops reading (so the publisher's queue
	// and socket buffer towards it fill up) and is then reset
	victim := subs[0]
	for _, sr := range subs {
		sr := sr
		w.Do(fmt.Sprintf("sub%d", sr.idx), func() (interface{}, error) {
			for !stop {
				if sr.stall {
					simrt.Sleep(time.Millisecond)
					continue
				}
				m, err := sr.s.RecvMsg()
				if err == mangos.ErrClosed {
					return nil, nil
				}
				if err != nil {
					continue
				}
				sr.got = append(sr.got, append([]byte(nil), m.Body...))
				m.Free()
			}
			return nil, nil
		})
	}
	w.Sleep(2 * time.Millisecond)
	w.Settle()
	if w.Choose(simrt.SProg, 3) == 0 {
		// the publisher changes its send queue length now that its subscribers
		// are connected and idle: whether that reaches the existing connections
		// or only later ones, everything published afterwards still goes out
		if err := pub.SetOption(mangos.OptionWriteQLen, []int{128, 256, 300}[w.Choose(simrt.SProg, 3)]); err == nil {
			w.Probe("publisher-send-queue-length-changed-after-connect")
		}
		w.Settle()
	}
	stallAt := w.Choose(simrt.SProg, nmsg)
	resetAfter := 1 + w.Choose(simrt.SProg, 6)
	var sent [][]byte
	for i := 0; i < nmsg && !w.Failed(); i++ {
		if i == stallAt {
			victim.stall = true
			w.Op("subscriber 0 stops reading")
		}
		if i == stallAt+resetAfter || (i == nmsg-1 && stallAt+resetAfter >= nmsg) {
			for y := w.Choose(simrt.SNet, 40); y > 0; y-- {
				simrt.Yield()
			}
			// subscriber 0 dialled first: the first connection pair is its
			if c := curNet.conns[0]; !c.IsClosed() {
				w.Op("subscriber 0's connection is reset")
				w.Fault("reset")
				c.Reset()
			}
		}
		tp := []string{"a", "ab", "b", "c"}[w.Choose(simrt.SProg, 4)]
		sz := []int{0, 10, 60, 200, 1000, 4000, 9000}[w.Choose(simrt.SProg, 7)]
		body := patBody(fmt.Sprintf("%s#%d", tp, i), sz)
		sent = append(sent, body)
		c := w.Do("Send", func() (interface{}, error) { return nil, pub.Send(body) })
		if !c.Wait(time.Second) || c.Err != nil {
			w.Failf("C06/publish-failed", "Send %d returned=%v err=%v (a PUB send never blocks)", i, c.Returned(), errName(c.Err))
			return
		}
		// pool pressure: whatever was released is handed out again right away
		x := mangos.NewMessage(sz + 8)
		x.Body = append(x.Body, patBody("scratch", sz)...)
		x.Free()
		if w.Choose(simrt.SProg, 3) == 0 {
			w.Sleep(time.Duration(w.Choose(simrt.SProg, 2000)) * time.Microsecond)
		}
	}
	// until nothing has moved for 100 simulated ms (latency and tiny socket
	// buffers make a 9000-byte publication take many round trips)
	for last, idle := -1, 0; idle < 2; {
		w.Sleep(50 * time.Millisecond)
		w.Settle()
		n := 0
		for _, sr := range subs {
			n += len(sr.got)
		}
		if n == last {
			idle++
		} else {
			last, idle = n, 0
		}
	}
	stop = true
	for _, sr := range subs[1:] {
		// queue depth 128 > nmsg and the reader never stops: nothing may be missing
		var want [][]byte
		for _, b := range sent {
			if bytes.HasPrefix(b, []byte(sr.topic)) {
				want = append(want, b)
			}
		}
		for k, b := range sr.got {
			if k >= len(want) || !bytes.Equal(b, want[k]) {
				exp := []byte("<nothing>")
				if k < len(want) {
					exp = want[k]
				}
				w.Failf("C06/stream-order-or-content", "subscriber %d (topic %q) received %q as its message %d; the publisher's %d-th matching publication is %q", sr.idx, sr.topic, clip(b), k, k, clip(exp))
				return
			}
			w.Delivery++
		}
		if len(sr.got) < len(want) {
			w.Failf("C06/stream-lost", "subscriber %d (topic %q, reading all the time, queues never full) received %d of %d matching publications; first missing %q", sr.idx, sr.topic, len(sr.got), len(want), clip(want[len(sr.got)]))
			return
		}
	}
	w.Probe("stream-fanout-complete")
}

func init() {
	register(&Scenario{Name: "pub-sub-stream", Prop: "C06", Horizon: time.Hour, Weight: 1, Run: c06Stream})
	register(&Scenario{Name: "fanout-bytes-under-reset", Prop: "C01", Horizon: time.Hour, Weight: 1, Run: c06Stream})
	// C15: one shared publication framed for two different mappings at the same
	// time (the subscribers' decoders are mangos' own; the byte-level oracle is
	// that every publication arrives whole, once and in order on both)
	register(&Scenario{Name: "shared-message-framed-for-two-mappings", Prop: "C15", Horizon: time.Hour, Weight: 2, Run: c06Stream})
}
