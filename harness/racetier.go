package harness

import "time"

// Engine F beyond C11's own programs: scenarios of the other checks run once
// more as ordinary goroutines under the Go race detector (same bubble, fake
// clock, simulated network). What decides here is the detector - a report
// whose two accesses are both in library code - plus the ledger and panic
// capture; the scenario's own oracle is muted (it is timing-exact and is
// decided by engine B under the baton scheduler). This puts the close paths,
// hooks, resets, devices, the WebSocket handler mode, fan-out ownership and
// macat under the detector, which C11's API-mix program does not reach.
func raceOnly(run func(w *W)) func(w *W) {
	return func(w *W) {
		w.RaceOnly = true
		w.NoHygiene = true
		run(w)
	}
}

func init() {
	for _, b := range []struct {
		name   string
		weight int
		run    func(w *W)
	}{
		// (kept: the scenarios whose own bookkeeping is free of unsynchronised
		// sharing between harness tasks when run without the baton - tried one by
		// one under the detector; the others stay with engine B only)
		{"race-close-everything", 4, c10Run},
		{"race-close-with-blocked-reply", 1, c10BlockedReply},
		{"race-close-during-connection-burst", 2, c10CloseDuringBurst},
		{"race-ownership-fan-out", 3, c17Run},
		{"race-pub-sub", 2, c06Sub},
		{"race-pub-sub-stream", 1, c06Stream},
		{"race-req-retry-stream", 2, c04Stream},
		{"race-dialer-reconnect-stream", 1, c14Stream},
	} {
		register(&Scenario{Name: b.name, Prop: "C11R", Engine: "F", Horizon: time.Hour, Weight: b.weight, Run: raceOnly(b.run)})
	}
}
