package harness

import "time"

// Engine F beyond C11's own programs: scenarios of the other checks run once
// more as ordinary goroutines under the Go race detector (same bubble, fake
// clock, simulated network). What decides here is the detector - a report
// whose two accesses are both in library code - plus the ledger and panic
// capture; the scenario's own oracle is muted (it is timing-exact and is
// decided by engine B under the baton scheduler). This puts the close paths,
// hooks, resets, devices, the WebSocket handler mode, fan-out ownership and
// macat under the detector, which C11's API-mix program does not reach.
func raceOnly(run func(w *W)) func(w *W) {
	return func(w *W) {
		w.RaceOnly = true
		w.NoHygiene = true
		run(w)
	}
}

func init() {
	for _, b := range []struct {
		name   string
		weight int
		run    func(w *W)
	}{
		{"race-close-everything", 6, c10Run},
		{"race-close-with-blocked-reply", 2, c10BlockedReply},
		{"race-close-from-hook", 2, c10CloseFromHook},
		{"race-close-during-connection-burst", 2, c10CloseDuringBurst},
		{"race-ownership-fan-out", 4, c17Run},
		{"race-bus-star-topologies", 3, c08Run},
		{"race-pushpull", 2, c02Push},
		{"race-pair-handover", 2, c02Handover},
		{"race-ws-handler-in-application-server", 2, c13WsHandler},
		{"race-pub-sub", 3, c06Sub}, {"race-pub-sub-stream", 2, c06Stream},
		{"race-req-retry-stream", 2, c04Stream},
		{"race-survey-end-to-end", 2, c07E2E},
		{"race-device-chains", 3, c09Chain},
		{"race-dialer-reconnect-stream", 2, c14Stream},
		{"race-hostile-peers", 3, c16Run},
		{"race-macat-formats", 1, c20Recv},
		{"race-macat-reply", 1, c20Reply},
	} {
		register(&Scenario{Name: b.name, Prop: "C11R", Engine: "F", Horizon: time.Hour, Weight: b.weight, Run: raceOnly(b.run)})
	}
}
