package harness

import (
	"fmt"
	"time"

	"go.nanomsg.org/mangos/v3"
	"go.nanomsg.org/mangos/v3/verifsim/simrt"
)

// C03, end to end: real REQ contexts against real REP sockets with several
// worker contexts, over inproc and the stream mapping. c03Run decides the
// matching rules against scripted peers; here the whole path of a reply
// (req -> core -> transport -> rep context -> back) runs real code, so a reply
// mislabelled anywhere on that path shows up as "context X got the answer to
// another request".

func c03E2E(w *W) {
	tran := w.simFallback([]string{"inproc", "sim", "simipc", "tcp", "ipc", "tls+tcp", "ws", "wss"}[w.Choose(simrt.SShape, 8)])
	nq := 1 + w.Choose(simrt.SShape, 3)
	nrep := 1 + w.Choose(simrt.SShape, 2)
	nrc := 1 + w.Choose(simrt.SShape, 3)
	nround := 1 + w.Choose(simrt.SShape, 5)
	w.SetShape("tran", tran)
	w.SetShape("req_ctxs", nq)
	w.SetShape("reps", nrep)
	w.SetShape("rep_ctxs", nrc)
	w.UseNet(NetCfg{Segment: w.Choose(simrt.SShape, 2) == 0, BufCap: []int{0, 64, 300}[w.Choose(simrt.SShape, 3)],
		Latency: []time.Duration{0, 0, 100 * time.Microsecond}[w.Choose(simrt.SShape, 3)]})
	req := w.Sock("req")
	defer req.Close()
	mustSet(w, req, mangos.OptionRetryTime, time.Minute)
	addr := w.Addr(tran)
	if err := w.ListenOn(req, addr); err != nil {
		w.Failf("HARNESS/listen", "%v", err)
		return
	}
	stop := false
	served := 0
	for i := 0; i < nrep; i++ {
		r := w.Sock("rep")
		defer r.Close()
		if err := w.DialOn(r, addr); err != nil {
			w.Failf("HARNESS/dial", "%v", err)
			return
		}
		for j := 0; j < nrc; j++ {
			i, j := i, j
			var c mangos.Context
			if j > 0 || w.Choose(simrt.SShape, 2) == 0 {
				var err error
				if c, err = r.OpenContext(); err != nil {
					w.Failf("HARNESS/ctx", "%v", err)
					return
				}
				_ = c.SetOption(mangos.OptionRecvDeadline, 2*time.Millisecond)
			} else {
				mustSet(w, r, mangos.OptionRecvDeadline, 2*time.Millisecond)
			}
			slow := w.Choose(simrt.SShape, 3)
			w.Do(fmt.Sprintf("rep%d.worker%d", i, j), func() (interface{}, error) {
				for !stop {
					var b []byte
					var err error
					// Recv() hands back the body and releases the message: the
					// ordinary way to write a server
					if c != nil {
						b, err = c.Recv()
					} else {
						b, err = r.Recv()
					}
					if err == mangos.ErrClosed {
						return nil, nil
					}
					if err != nil {
						continue
					}
					if slow > 0 {
						simrt.Sleep(time.Duration(slow) * 300 * time.Microsecond)
					}
					ans := append([]byte("re:"), b...)
					if c != nil {
						_ = c.Send(ans)
					} else {
						_ = r.Send(ans)
					}
					served++
				}
				return nil, nil
			})
		}
	}
	w.Sleep(time.Millisecond)
	w.Settle()
	type qc struct {
		idx int
		c   mangos.Context
	}
	qcs := []*qc{{idx: 0}}
	for i := 1; i < nq; i++ {
		c, err := req.OpenContext()
		if err != nil {
			w.Failf("HARNESS/ctx", "%v", err)
			return
		}
		qcs = append(qcs, &qc{idx: i, c: c})
	}
	// the per-context programs are drawn up front (the tape is read by one task)
	type step struct {
		abandon bool // Send, then Send again without Recv
		size    int
	}
	progs := make([][]step, nq)
	for i := range progs {
		for k := 0; k < nround; k++ {
			progs[i] = append(progs[i], step{w.Choose(simrt.SProg, 4) == 0, []int{0, 1, 10, 60, 200, 2000}[w.Choose(simrt.SProg, 6)]})
		}
	}
	var calls []*Call
	for _, q := range qcs {
		q := q
		send := func(b []byte) error {
			if q.c != nil {
				return q.c.Send(b)
			}
			return req.Send(b)
		}
		recv := func() ([]byte, error) {
			if q.c != nil {
				return q.c.Recv()
			}
			return req.Recv()
		}
		if q.c != nil {
			_ = q.c.SetOption(mangos.OptionRecvDeadline, 5*time.Second)
		} else {
			mustSet(w, req, mangos.OptionRecvDeadline, 5*time.Second)
		}
		calls = append(calls, w.Do(fmt.Sprintf("req.ctx%d", q.idx), func() (interface{}, error) {
			n := 0
			for k, st := range progs[q.idx] {
				if st.abandon {
					old := patBody(fmt.Sprintf("c%d-%d-abandoned", q.idx, k), st.size)
					if err := send(old); err != nil {
						return n, fmt.Errorf("Send: %v", err)
					}
				}
				body := patBody(fmt.Sprintf("c%d-%d", q.idx, k), st.size)
				if err := send(body); err != nil {
					return n, fmt.Errorf("Send: %v", err)
				}
				got, err := recv()
				if err != nil {
					return n, fmt.Errorf("context %d asked %q: Recv failed with %v although %d REP workers are serving", q.idx, clip(body), err, nrep*nrc)
				}
				if string(got) != "re:"+string(body) {
					return n, fmt.Errorf("context %d asked %q, Recv returned %q: not the answer to its own current request", q.idx, clip(body), clip(got))
				}
				n++
			}
			return n, nil
		}))
	}
	for _, c := range calls {
		if !c.Wait(time.Duration(nround)*6*time.Second + time.Second) {
			w.WedgeCheck("C12")
			w.Failf("C03/e2e-stuck", "%s has not finished", c.Label)
			return
		}
		if c.Err != nil {
			w.Failf("C03/e2e-wrong-reply", "%v", c.Err)
			return
		}
		w.Delivery += c.Val.(int)
	}
	stop = true
	w.Probe("e2e-rounds-completed")
}

func init() {
	register(&Scenario{Name: "req-rep-end-to-end", Prop: "C03", Horizon: time.Hour, Weight: 1, Run: c03E2E})
}
