package harness

import (
	"fmt"
	"sort"
	"strings"
	"time"

	"go.nanomsg.org/mangos/v3"
	"go.nanomsg.org/mangos/v3/protocol"
	"go.nanomsg.org/mangos/v3/verifsim/hooks"
	"go.nanomsg.org/mangos/v3/verifsim/simrt"
)

// coreBench: one socket of a tape-chosen pattern, built on a recording
// protocol wrapper, with a pipe-event hook that records (and, on the tape's
// command, closes pipes), a msg:// listener and/or dialer, and scripted peers
// that connect and drop.

type hookEv struct {
	ev     mangos.PipeEvent
	p      mangos.Pipe
	id     uint32
	at     time.Duration
	step   int64
	retAt  time.Duration // when the callback returned
	retSt  int64
	closed bool // the hook closed the pipe inside this callback
}

type pipeRec struct {
	p          mangos.Pipe
	id         uint32
	evs        []*hookEv
	addCalls   int
	addOK      int
	addRefused int
	remCalls   int
	viaDialer  bool
	tp         *MsgPipe
	order      int
}

type recProto struct {
	mangos.ProtocolBase
	b *coreBench
}

func (r *recProto) AddPipe(p mangos.ProtocolPipe) error {
	b := r.b
	rec := b.recFor(p.(mangos.Pipe))
	rec.addCalls++
	if b.refusePlan[rec.order%len(b.refusePlan)] {
		rec.addRefused++
		b.w.Fault("proto-refuse")
		if b.onReject != nil {
			b.onReject("protocol refused the pipe")
		}
		return mangos.ErrProtoState
	}
	err := r.ProtocolBase.AddPipe(p)
	if err == nil {
		rec.addOK++
	} else {
		rec.addRefused++
	}
	return err
}

func (r *recProto) RemovePipe(p mangos.ProtocolPipe) {
	r.b.recFor(p.(mangos.Pipe)).remCalls++
	r.ProtocolBase.RemovePipe(p)
}

type coreBench struct {
	w              *W
	mn             *MsgNet
	kind           string
	s              mangos.Socket
	laddr          string
	l              mangos.Listener
	daddr          string
	d              mangos.Dialer
	recs           map[mangos.Pipe]*pipeRec
	order          []*pipeRec
	log            []*hookEv
	closeAttaching []bool // plan: k-th Attaching callback closes the pipe
	closeAttached  []bool
	refusePlan     []bool
	slowDetached   bool
	nAttaching     int
	nAttached      int
	dials          []dialEv
	peers          []*MsgPipe
	onReject       func(why string)
}

type dialEv struct {
	at      time.Duration
	step    int64
	outcome string
}

func (b *coreBench) recFor(p mangos.Pipe) *pipeRec {
	r := b.recs[p]
	if r == nil {
		r = &pipeRec{p: p, id: p.ID(), order: len(b.order)}
		b.recs[p] = r
		b.order = append(b.order, r)
	}
	return r
}

func (b *coreBench) hook(ev mangos.PipeEvent, p mangos.Pipe) {
	w := b.w
	rec := b.recFor(p.(mangos.Pipe))
	e := &hookEv{ev: ev, p: p, id: p.ID(), at: w.Now(), step: w.Step()}
	rec.evs = append(rec.evs, e)
	b.log = append(b.log, e)
	switch ev {
	case mangos.PipeEventAttaching:
		k := b.nAttaching
		b.nAttaching++
		if b.closeAttaching[k%len(b.closeAttaching)] {
			e.closed = true
			w.Fault("reject-hook")
			w.Probe("pipe-closed-during-attaching")
			_ = p.Close()
			if b.onReject != nil {
				b.onReject("hook closed the pipe during Attaching")
			}
		}
	case mangos.PipeEventAttached:
		k := b.nAttached
		b.nAttached++
		if b.closeAttached[k%len(b.closeAttached)] {
			e.closed = true
			w.Fault("reject-hook")
			w.Probe("pipe-closed-during-attached")
			_ = p.Close()
			if b.onReject != nil {
				b.onReject("hook closed the pipe during Attached")
			}
		}
	case mangos.PipeEventDetached:
		// a callback that takes its time, while the id allocator's counter
		// has come round to this very id (as after 2^31 allocations): the id
		// must stay this pipe's own until the callback has returned
		if b.slowDetached && !w.Free {
			hooks.SetNextPipeID(p.ID())
			w.Probe("slow-detached-callback-with-counter-at-its-id")
			simrt.Sleep(3 * time.Millisecond)
		}
	}
	e.retAt, e.retSt = w.Now(), w.Step()
}

func newCoreBench(w *W, kind string, faultRate int) *coreBench {
	b := &coreBench{w: w, kind: kind, recs: map[mangos.Pipe]*pipeRec{}}
	b.mn = w.UseMsgNet()
	plan := func(rate int) []bool {
		out := make([]bool, 8)
		for i := range out {
			out[i] = w.Choose(simrt.SShape, 100) < rate
		}
		return out
	}
	b.closeAttaching = plan(faultRate)
	b.closeAttached = plan(faultRate)
	b.refusePlan = plan(faultRate / 2)
	b.slowDetached = w.Choose(simrt.SShape, 4) == 0
	b.s = protocol.MakeSocket(&recProto{ProtocolBase: protoCtors[kind](), b: b})
	b.s.SetPipeEventHook(b.hook)
	return b
}

func (b *coreBench) listen() {
	b.laddr = b.w.Addr("msg")
	l, err := b.s.NewListener(b.laddr, nil)
	if err != nil {
		b.w.Failf("HARNESS/newlistener", "%v", err)
		return
	}
	b.l = l
	c := b.w.Here("Listener.Listen", func() (interface{}, error) { return nil, l.Listen() })
	if c.Err != nil {
		b.w.Failf("HARNESS/listen", "%v", c.Err)
	}
}

func (b *coreBench) connectPeer() *MsgPipe {
	p := b.mn.ConnectWith(b.laddr, func(p *MsgPipe) { b.peers = append(b.peers, p) })
	return p
}

// checkLifecycle is the C13 oracle. final: every socket has been closed and
// the run has settled.
func (b *coreBench) checkLifecycle(final bool) {
	w := b.w
	type iv struct {
		from, to int64 // steps; to<0: still live
		rec      *pipeRec
	}
	var ivs []iv
	for _, r := range b.order {
		if r.id == 0 || r.id >= 1<<31 {
			w.Failf("C13/bad-pipe-id", "pipe id %#x is zero or wider than 31 bits", r.id)
		}
		cnt := map[mangos.PipeEvent]int{}
		for i, e := range r.evs {
			cnt[e.ev]++
			if i == 0 && e.ev != mangos.PipeEventAttaching {
				w.Failf("C13/first-event-not-attaching", "pipe %#x: first hook event is %d", r.id, e.ev)
			}
			if e.id != r.id {
				w.Failf("C13/pipe-id-changed", "pipe %#x reported id %#x later", r.id, e.id)
			}
		}
		nA, nB, nD := cnt[mangos.PipeEventAttaching], cnt[mangos.PipeEventAttached], cnt[mangos.PipeEventDetached]
		if len(r.evs) > 0 && nA != 1 {
			w.Failf("C13/attaching-count", "pipe %#x: Attaching reported %d times", r.id, nA)
		}
		if nB > 1 {
			w.Failf("C13/attached-twice", "pipe %#x: Attached reported %d times", r.id, nB)
		}
		if nD > 1 {
			w.Failf("C13/detached-twice", "pipe %#x: Detached reported %d times", r.id, nD)
		}
		if nD > nB {
			// "Detached iff Attached was (or is being) reported": a Detached
			// while the Attached callback has not been issued at all is wrong
			// once the run has settled.
			if final {
				w.Failf("C13/detached-without-attached", "pipe %#x: Detached without Attached", r.id)
			}
		}
		closedInAttaching := len(r.evs) > 0 && r.evs[0].closed
		if closedInAttaching && (nB > 0 || nD > 0) {
			w.Failf("C13/events-after-close-in-attaching", "pipe %#x was closed by the hook during Attaching but got Attached=%d Detached=%d", r.id, nB, nD)
		}
		if closedInAttaching && r.addOK > 0 {
			w.Failf("C13/addpipe-after-close-in-attaching", "pipe %#x was closed during Attaching but the protocol was given it", r.id)
		}
		if r.addRefused > 0 && (nB > 0 || nD > 0) {
			w.Failf("C13/events-after-protocol-refusal", "pipe %#x was refused by the protocol but got Attached=%d Detached=%d", r.id, nB, nD)
		}
		if r.addCalls > 1 {
			w.Failf("C13/addpipe-twice", "pipe %#x: protocol AddPipe called %d times", r.id, r.addCalls)
		}
		if r.remCalls > r.addOK {
			w.Failf("C13/removepipe-without-addpipe", "pipe %#x: RemovePipe %d times, admitted %d times", r.id, r.remCalls, r.addOK)
		}
		if final {
			if nB == 1 && nD != 1 {
				w.Failf("C13/no-detached", "pipe %#x: Attached was reported, everything is closed and settled, Detached reported %d times", r.id, nD)
			}
			if r.addOK == 1 && r.remCalls != 1 {
				w.Failf("C13/removepipe-count", "pipe %#x: admitted by the protocol, everything closed, RemovePipe called %d times", r.id, r.remCalls)
			}
			if r.addOK == 1 && nB == 0 && !closedInAttaching {
				// admitted but never reported Attached: only legitimate if
				// it was closed before the Attached callback could be issued;
				// then there must be no Detached either (checked above).
				w.Probe("admitted-never-attached")
			}
		}
		// live interval in steps
		if len(r.evs) > 0 {
			from := r.evs[0].step
			to := int64(-1)
			switch {
			case nD == 1:
				for _, e := range r.evs {
					if e.ev == mangos.PipeEventDetached {
						to = e.retSt
					}
				}
			case closedInAttaching || r.addRefused > 0:
				to = r.evs[0].retSt
			}
			ivs = append(ivs, iv{from, to, r})
		}
		// address / endpoint consistency
		if r.p.Listener() != nil && r.p.Dialer() != nil {
			w.Failf("C13/both-endpoints", "pipe %#x reports both a listener and a dialer", r.id)
		}
		if l := r.p.Listener(); l != nil {
			if b.l == nil || l != b.l || r.p.Address() != b.l.Address() {
				w.Failf("C13/wrong-listener", "pipe %#x: Listener()/Address() = %v/%q, accepted by %q", r.id, l, r.p.Address(), b.laddr)
			}
		}
		if d := r.p.Dialer(); d != nil {
			if b.d == nil || d != b.d || r.p.Address() != b.d.Address() {
				w.Failf("C13/wrong-dialer", "pipe %#x: Dialer()/Address() = %v/%q, dialled %q", r.id, d, r.p.Address(), b.daddr)
			}
		}
		if r.p.Listener() == nil && r.p.Dialer() == nil {
			w.Failf("C13/no-endpoint", "pipe %#x reports neither listener nor dialer", r.id)
		}
	}
	// id uniqueness over live intervals
	sort.Slice(ivs, func(i, j int) bool { return ivs[i].from < ivs[j].from })
	for i := range ivs {
		for j := i + 1; j < len(ivs); j++ {
			a, c := ivs[i], ivs[j]
			if a.rec.id != c.rec.id {
				continue
			}
			if a.to < 0 || c.from <= a.to {
				w.Failf("C13/pipe-id-shared", "id %#x given to a new pipe at step %d while the pipe that got it at step %d is still live (until %d)", a.rec.id, c.from, a.from, a.to)
			}
			w.Probe("pipe-id-reused")
		}
	}
}

func hookName(e mangos.PipeEvent) string {
	return [...]string{"Attaching", "Attached", "Detached"}[e]
}

// census is the part of the C10 oracle that applies everywhere: after every
// socket has been closed and the clock ran past every interval, nothing of the
// library is left.
func (w *W) Census(prop string, socks ...mangos.Socket) {
	if w.Failed() {
		return
	}
	if w.WedgeCheck("C12") {
		return
	}
	if lt := w.LibTasks(); len(lt) > 0 {
		var ds []string
		site := lt[0].Site
		if lt[0].Adopted {
			site = libFrameSite(lt[0].Stack)
		}
		for _, t := range lt {
			d := fmt.Sprintf("%s started at %s, %s at %s", t.ID, t.Site, t.State, t.ParkSite)
			if t.Adopted {
				d += " (a goroutine of a dependency with library code on its stack: " + libFrameSite(t.Stack) + ")"
			}
			ds = append(ds, d)
		}
		w.Failf("C10/goroutine-left:"+site, "%d library tasks remain after every socket was closed and the clock ran out:\n%s", len(lt), strings.Join(ds, "\n"))
		return
	}
	if ids := hooks.PipeIDsInUse(); len(ids) > 0 {
		w.Failf("C10/pipe-id-left", "%d pipe ids are still allocated after every socket was closed: %x", len(ids), ids)
		return
	}
	for i, s := range socks {
		if n := hooks.SocketPipes(s); n > 0 {
			w.Failf("C10/pipe-left-on-socket", "socket %d still lists %d pipes after Close", i, n)
			return
		}
	}
}

func c13Listener(w *W) {
	kind := allKinds[w.Choose(simrt.SShape, len(allKinds))]
	rate := []int{0, 15, 40}[w.Choose(simrt.SShape, 3)]
	nops := 3 + w.Choose(simrt.SShape, 10)
	w.SetShape("kind", kind)
	w.SetShape("fault_rate", rate)
	b := newCoreBench(w, kind, rate)
	b.listen()
	if w.Failed() {
		return
	}
	closed := false
	for op := 0; op < nops && !w.Failed(); op++ {
		k := w.Choose(simrt.SProg, 8)
		a := w.Choose(simrt.SProg, 16)
		switch {
		case k <= 3:
			if p := b.connectPeer(); p != nil {
				w.Op("peer %s connects", p.Name)
			}
		case k <= 5:
			var open []*MsgPipe
			for _, p := range b.peers {
				if p.Open() {
					open = append(open, p)
				}
			}
			if len(open) == 0 {
				continue
			}
			p := open[a%len(open)]
			w.Op("peer %s drops", p.Name)
			w.Fault("close")
			p.ClosePeer()
		case k == 6: // application closes an attached pipe later
			var live []*pipeRec
			for _, r := range b.order {
				if len(r.evs) >= 2 && r.evs[len(r.evs)-1].ev == mangos.PipeEventAttached {
					live = append(live, r)
				}
			}
			if len(live) == 0 {
				continue
			}
			r := live[a%len(live)]
			w.Op("application closes pipe %#x", r.id)
			w.Fault("api-race")
			w.Do("Pipe.Close", func() (interface{}, error) { return nil, r.p.Close() })
		case k == 7:
			w.Op("advance")
			w.Sleep(time.Duration(1+a) * 10 * time.Millisecond)
		}
		if w.Choose(simrt.SProg, 3) != 0 {
			w.Settle()
			b.checkLifecycle(false)
			if w.WedgeCheck("C12") {
				return
			}
		}
	}
	w.Settle()
	if w.Failed() {
		return
	}
	// the listener must still accept after whatever happened
	if !closed {
		before := len(b.order)
		if p := b.connectPeer(); p != nil {
			w.Op("probe peer %s connects", p.Name)
			w.Settle()
			if w.WedgeCheck("C12") {
				return
			}
			if len(b.order) == before {
				w.Failf("C12/listener-stopped-accepting", "a fresh peer connected after the listener had rejected or lost connections, but no Attaching event followed")
				return
			}
		}
	}
	cl := w.Do("Socket.Close", func() (interface{}, error) { return nil, b.s.Close() })
	w.Settle()
	if !cl.Returned() {
		if w.WedgeCheck("C12") {
			return
		}
		w.Failf("C10/close-did-not-return", "Socket.Close still pending after settle")
		return
	}
	w.Sleep(2 * time.Second)
	w.Settle()
	b.checkLifecycle(true)
	w.Delivery += len(b.log)
	w.Census("C13", b.s)
}

func init() {
	register(&Scenario{Name: "pipe-lifecycle-listener", Prop: "C13", Horizon: 10 * time.Minute, Weight: 16, Run: c13Listener})
}
